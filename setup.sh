#!/bin/sh
# Builds everything the checks share, offline, from /repo's current tree:
#  - dependency artefacts for the nightly MIR dump (target-mir) and the MIR dump itself
#  - the real blockwatch binary (debug) used for replay and translator validation
set -e
cd "$(dirname "$0")"
export CARGO_NET_OFFLINE=true
python3-vt - <<'PY'
import sys
sys.path.insert(0, '.')
from mirsym import driver
print('MIR dump:', driver.mir_dump())
print('binary  :', driver.real_binary())
PY
