"""Value domain of the MIR symbolic executor.

All aggregate values are immutable (persistent): writing through a reference rebuilds
the spine and replaces the owning cell's content, so `copy` and `move` never alias.
Scalars are Python ints/bools when concrete and z3 terms when symbolic.
"""
import z3


class EngineError(Exception):
    """The engine cannot decide (unmodelled callee, unsupported construct, bound)."""


class Unmodelled(EngineError):
    pass


class Truncated(EngineError):
    """A path ran into the step bound."""


class Panic(Exception):
    """A Rust panic reached on the current path (first-class path outcome)."""

    def __init__(self, msg, where=None):
        Exception.__init__(self, msg)
        self.msg = msg
        self.where = where


class Infeasible(Exception):
    """The current path's constraints became unsatisfiable (assume failed)."""


class ProcessExit(Exception):
    def __init__(self, code):
        Exception.__init__(self, 'exit %r' % (code,))
        self.code = code


class Struct:
    __slots__ = ('name', 'f')

    def __init__(self, name, f=()):
        self.name = name
        self.f = tuple(f)

    def __repr__(self):
        return '%s%r' % (self.name, self.f)


UNIT = Struct('tuple', ())


def Tuple(*xs):
    return Struct('tuple', xs)


class Enum:
    __slots__ = ('name', 'v', 'vname', 'f')

    def __init__(self, name, v, vname, f=()):
        self.name = name
        self.v = v
        self.vname = vname
        self.f = tuple(f)

    def __repr__(self):
        return '%s::%s%r' % (self.name, self.vname, self.f)


def Some(x):
    return Enum('Option', 1, 'Some', (x,))


NONE = Enum('Option', 0, 'None', ())


def Ok(x):
    return Enum('Result', 0, 'Ok', (x,))


def Err(x):
    return Enum('Result', 1, 'Err', (x,))


class Cell:
    __slots__ = ('v', 'id')
    _n = 0

    def __init__(self, v=None):
        self.v = v
        Cell._n += 1
        self.id = Cell._n


class Ref:
    """(cell, path): a reference / Box / Rc / Arc / raw pointer to a place."""
    __slots__ = ('cell', 'path')

    def __init__(self, cell, path=()):
        self.cell = cell
        self.path = tuple(path)

    def __repr__(self):
        return 'Ref(#%d%s)' % (self.cell.id, ''.join('.%s' % (p,) for p in self.path))


class VecVal:
    """Vec / VecDeque / array / boxed slice contents."""
    __slots__ = ('items',)

    def __init__(self, items=()):
        self.items = tuple(items)

    def __repr__(self):
        return 'Vec%r' % (list(self.items),)


class MapVal:
    """HashMap / HashSet / BTreeMap: insertion-ordered association list.
    Iteration order is decided by the interpreter's map-order policy."""
    __slots__ = ('entries', 'kind')

    def __init__(self, entries=(), kind='HashMap'):
        self.entries = tuple(entries)  # of Struct('tuple',(k,v))
        self.kind = kind

    def __repr__(self):
        return '%s%r' % (self.kind, list(self.entries))


class SStr:
    """A string slice (&str / &Path / &OsStr / &[u8]): bytes + provenance."""
    __slots__ = ('b', 'alloc', 'off')

    def __init__(self, b, alloc=0, off=0):
        self.b = tuple(b)
        self.alloc = alloc
        self.off = off

    def __repr__(self):
        return 'str(%s)' % show_bytes(self.b)


class SString:
    """An owned String / PathBuf / OsString."""
    __slots__ = ('b', 'alloc')

    def __init__(self, b, alloc=0):
        self.b = tuple(b)
        self.alloc = alloc

    def __repr__(self):
        return 'String(%s)' % show_bytes(self.b)


def show_bytes(b):
    out = []
    for x in b:
        if isinstance(x, int):
            out.append(chr(x) if 32 <= x < 127 else '\\x%02x' % x)
        else:
            out.append('{%s}' % x)
    return '"' + ''.join(out) + '"'


class Closure:
    __slots__ = ('span', 'captures')

    def __init__(self, span, captures=()):
        self.span = span          # '{closure@src/x.rs:L:C: L:C}'
        self.captures = tuple(captures)

    def __repr__(self):
        return 'Closure(%s)' % self.span


class Coro:
    """A coroutine (async block / async fn body) value: captured upvars, resume state and the
    locals saved across suspension points (`((*c) as variant#N).K`)."""
    __slots__ = ('span', 'fn', 'caps', 'state', 'saved')

    def __init__(self, span, fn, caps, state=0, saved=None):
        self.span = span
        self.fn = fn              # MirFn of the poll function
        self.caps = tuple(caps)
        self.state = state
        self.saved = dict(saved or {})

    def __repr__(self):
        return 'Coro(%s,state=%r)' % (self.span, self.state)


class ReadyFut:
    """A future of a stubbed component: ready with `value` at its first poll."""
    __slots__ = ('value',)

    def __init__(self, value):
        self.value = value

    def __repr__(self):
        return 'ReadyFut(%r)' % (self.value,)


class FnItem:
    __slots__ = ('path',)

    def __init__(self, path):
        self.path = path

    def __repr__(self):
        return 'FnItem(%s)' % self.path


class Opaque:
    """A value whose inside no property depends on (error payloads, fmt::Arguments…)."""
    __slots__ = ('tag', 'data')

    def __init__(self, tag, data=None):
        self.tag = tag
        self.data = data

    def __repr__(self):
        return 'Opaque(%s,%r)' % (self.tag, self.data)


class Ptr:
    __slots__ = ('alloc', 'off')

    def __init__(self, alloc, off):
        self.alloc = alloc
        self.off = off


class IterVal:
    """Base class of iterator models: immutable; nxt(I) -> (item|None, new_iter)."""
    __slots__ = ()

    def nxt(self, I):
        raise NotImplementedError

    def nxt_back(self, I):
        raise Unmodelled('next_back on %s' % type(self).__name__)


def is_sym(x):
    return isinstance(x, z3.ExprRef)


def is_concrete_int(x):
    return isinstance(x, int) and not isinstance(x, bool)
