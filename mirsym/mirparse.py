"""Parser for the textual MIR printed by `rustc -Zunpretty=mir`.

Everything the parser does not understand is a hard error (MirParseError) naming the
line: a check that cannot read the code must not pretend to have decided anything.
Function bodies are parsed lazily (on first use) so that functions no property depends
on (clap derive glue, async coroutines, serde impls) never have to be understood.
"""
import re
import hashlib


class MirParseError(Exception):
    pass


# --------------------------------------------------------------------------- helpers

OPEN = {'(': ')', '[': ']', '{': '}'}
CLOSE = {')', ']', '}'}


def _skip_string(s, i):
    """s[i] is the opening quote of a string/char literal; return index after it."""
    q = s[i]
    j = i + 1
    n = len(s)
    while j < n:
        c = s[j]
        if c == '\\':
            j += 2
            continue
        if c == q:
            return j + 1
        j += 1
    raise MirParseError('unterminated literal in %r' % s[:80])


def _is_char_lit(s, i):
    # distinguish a char literal 'x' / '\n' / '\u{..}' from a lifetime 'a
    if s[i] != "'":
        return False
    if i + 2 < len(s) and s[i + 1] != '\\' and s[i + 2] == "'":
        return True
    if i + 1 < len(s) and s[i + 1] == '\\':
        return True
    # multi-byte char literal such as 'é' is still 3 code points
    return False


def split_top(s, sep=','):
    """Split s at top-level `sep`, respecting brackets, <...> generics and literals."""
    out = []
    depth = 0
    angle = 0
    i = 0
    n = len(s)
    cur = []
    while i < n:
        c = s[i]
        if c == '"':
            j = _skip_string(s, i)
            cur.append(s[i:j])
            i = j
            continue
        if c == "'" and _is_char_lit(s, i):
            j = _skip_string(s, i)
            cur.append(s[i:j])
            i = j
            continue
        if c in OPEN:
            depth += 1
        elif c in CLOSE:
            depth -= 1
        elif c == '<':
            # generics opener unless it is a comparison (never occurs in MIR operands)
            angle += 1
        elif c == '>':
            if i > 0 and s[i - 1] == '-':
                pass  # '->'
            elif i > 0 and s[i - 1] == '=':
                pass  # '=>'
            else:
                angle -= 1
        elif c == sep and depth == 0 and angle <= 0:
            out.append(''.join(cur).strip())
            cur = []
            i += 1
            continue
        cur.append(c)
        i += 1
    last = ''.join(cur).strip()
    if last or out:
        out.append(last)
    return out


def find_matching(s, i):
    """s[i] is an opening bracket of ([{ ; return index of its partner."""
    depth = 0
    n = len(s)
    j = i
    while j < n:
        c = s[j]
        if c == '"' or (c == "'" and _is_char_lit(s, j)):
            j = _skip_string(s, j)
            continue
        if c in OPEN:
            depth += 1
        elif c in CLOSE:
            depth -= 1
            if depth == 0:
                return j
        j += 1
    raise MirParseError('unbalanced %r' % s[:120])


def strip_generics(path):
    """Remove `::<...>` and `<...>` generic argument lists from a path, keeping
    qualified-self forms `<T as Trait>` and `<impl at ...>` / `<impl str>` intact."""
    out = []
    i = 0
    n = len(path)
    while i < n:
        c = path[i]
        if c == '<':
            # find partner
            depth = 0
            j = i
            while j < n:
                d = path[j]
                if d == '<':
                    depth += 1
                elif d == '>' and not (j > 0 and path[j - 1] in '-='):
                    depth -= 1
                    if depth == 0:
                        break
                j += 1
            inner = path[i + 1:j]
            keep = False
            if i == 0:
                keep = True  # <T as Trait>::m  or <impl at ..>
            elif path[i - 2:i] == '::' and inner.startswith('impl at'):
                keep = True
            elif path[i - 2:i] == '::' and inner.startswith('impl ') and path[j + 1:j + 3] == '::':
                # `core::str::<impl str>::trim` (inherent impl segment after a module path) is kept;
                # `Type::<impl Trait>::new` (a generic argument) is dropped
                prev = ''.join(out)[:-2].split('::')[-1]
                keep = (prev == '' or not prev[0].isupper())
            if keep:
                out.append('<' + inner + '>')
            else:
                # drop; also drop a preceding '::' (turbofish)
                if out and ''.join(out).endswith('::'):
                    joined = ''.join(out)[:-2]
                    out = [joined]
            i = j + 1
            continue
        out.append(c)
        i += 1
    return ''.join(out)


# --------------------------------------------------------------------------- AST

class Place:
    __slots__ = ('local', 'proj')

    def __init__(self, local, proj=()):
        self.local = local
        self.proj = tuple(proj)

    def __repr__(self):
        return 'Place(_%d%s)' % (self.local, ''.join('.' + str(p) for p in self.proj))


# projections: ('deref',), ('field', idx, type_str), ('downcast', variant_name_or_idx),
#              ('index', local), ('cindex', n, from_end), ('subslice', a, b, from_end)

class Operand:
    __slots__ = ('kind', 'place', 'const')

    def __init__(self, kind, place=None, const=None):
        self.kind = kind  # 'copy' | 'move' | 'const'
        self.place = place
        self.const = const  # Const

    def __repr__(self):
        return 'Op(%s %r)' % (self.kind, self.place if self.place is not None else self.const)


class Const:
    __slots__ = ('kind', 'value', 'ty', 'raw')

    # kind: 'int' (value:int, ty:str) | 'bool' | 'str' (bytes) | 'bytes' | 'char' (int)
    #       'unit' | 'zst' (raw: type string) | 'path' (raw) | 'fn' (raw path)
    def __init__(self, kind, value=None, ty=None, raw=None):
        self.kind = kind
        self.value = value
        self.ty = ty
        self.raw = raw

    def __repr__(self):
        return 'Const(%s,%r,%s,%s)' % (self.kind, self.value, self.ty, self.raw)


class Rvalue:
    __slots__ = ('kind', 'a', 'b', 'c', 'd')

    def __init__(self, kind, a=None, b=None, c=None, d=None):
        self.kind = kind
        self.a = a
        self.b = b
        self.c = c
        self.d = d

    def __repr__(self):
        return 'Rv(%s,%r,%r,%r)' % (self.kind, self.a, self.b, self.c)


class Stmt:
    __slots__ = ('kind', 'place', 'rv', 'raw')

    def __init__(self, kind, place=None, rv=None, raw=None):
        self.kind = kind  # 'assign' | 'setdisc' | 'nop'
        self.place = place
        self.rv = rv
        self.raw = raw


class Term:
    __slots__ = ('kind', 'a', 'b', 'c', 'd', 'raw')

    def __init__(self, kind, a=None, b=None, c=None, d=None, raw=None):
        self.kind = kind
        self.a = a
        self.b = b
        self.c = c
        self.d = d
        self.raw = raw


class Block:
    __slots__ = ('name', 'stmts', 'term', 'cleanup', '_raw')


class MirFn:
    def __init__(self, name, header, text, kind):
        self.name = name          # definition name as printed
        self.header = header
        self.text = text          # full text (for hashing)
        self.kind = kind          # 'fn' | 'const'
        self.nargs = 0
        self.arg_types = []
        self.ret_type = None
        self.local_types = {}
        self.blocks = None        # parsed lazily
        self._parsed = False
        self.sha = hashlib.sha256(text.encode()).hexdigest()[:16]

    def ensure_parsed(self):
        if not self._parsed:
            parse_body(self)
            self._parsed = True


# --------------------------------------------------------------------------- file level

_FN_RE = re.compile(r'^(fn|const|static(?: mut)?) (.*)$')


def parse_mir_file(text):
    """Return (functions: dict name -> [MirFn...], order list). Bodies are not parsed."""
    fns = {}
    lines = text.split('\n')
    i = 0
    n = len(lines)
    while i < n:
        ln = lines[i]
        m = _FN_RE.match(ln)
        if m and ln.endswith('{'):
            j = i + 1
            while j < n and lines[j] != '}':
                j += 1
            body = '\n'.join(lines[i:j + 1])
            kind = 'fn' if m.group(1) == 'fn' else 'const'
            hdr = m.group(2)
            if kind == 'fn':
                # name is up to the top-level '(' that starts the argument list
                name, args, ret = _split_fn_header(hdr)
            else:
                # const NAME: TYPE = {
                k = _find_top_colon(hdr)
                name = hdr[:k].strip()
                args = None
                ret = hdr[k + 1:].rsplit('=', 1)[0].strip()
            f = MirFn(name, hdr, body, kind)
            f.ret_type = ret
            if args is not None:
                f.arg_types = args
                f.nargs = len(args)
            fns.setdefault(name, []).append(f)
            i = j + 1
            continue
        if m and m.group(1) != 'fn' and ln.endswith(';') and ' = const ' in ln:
            hdr = m.group(2)
            k = _find_top_colon(hdr)
            name = hdr[:k].strip()
            f = MirFn(name, hdr, ln, 'const')
            f.ret_type = hdr[k + 1:].split(' = const ')[0].strip()
            f.blocks = {}
            f._parsed = True
            fns.setdefault(name, []).append(f)
        i += 1
    return fns


def _find_top_colon(s):
    depth = 0
    i = 0
    n = len(s)
    while i < n:
        c = s[i]
        if c in '<([{':
            depth += 1
        elif c in '>)]}' and not (c == '>' and i > 0 and s[i - 1] in '-='):
            depth -= 1
        elif c == ':' and depth == 0:
            if s[i:i + 2] == '::':
                i += 2
                continue
            if i > 0 and s[i - 1] == ':':
                i += 1
                continue
            return i
        i += 1
    raise MirParseError('no colon in const header %r' % s)


def _split_fn_header(hdr):
    # hdr like: name(_1: T, _2: T) -> R {
    # the name may itself contain parentheses? (no) but contains <impl at a:1:2: 3:4> and {closure#0}
    depth = 0
    i = 0
    n = len(hdr)
    start = None
    while i < n:
        c = hdr[i]
        if c == '<':
            depth += 1
        elif c == '>' and not (i > 0 and hdr[i - 1] in '-='):
            depth -= 1
        elif c == '(' and depth == 0:
            start = i
            break
        i += 1
    if start is None:
        raise MirParseError('bad fn header %r' % hdr)
    end = find_matching(hdr, start)
    name = hdr[:start].strip()
    argstr = hdr[start + 1:end]
    args = []
    for a in split_top(argstr):
        if not a:
            continue
        k = a.index(':')
        args.append(a[k + 1:].strip())
    rest = hdr[end + 1:].strip()
    ret = '()'
    if rest.startswith('->'):
        ret = rest[2:].rstrip('{').strip()
    return name, args, ret


# --------------------------------------------------------------------------- body

_LET_RE = re.compile(r'^\s*let (?:mut )?_(\d+): (.*);$')
_BB_RE = re.compile(r'^    (bb\d+)( \(cleanup\))?: \{$')


def parse_body(f):
    lines = f.text.split('\n')
    f.local_types = {}
    if f.kind == 'fn':
        for idx, t in enumerate(f.arg_types):
            f.local_types[idx + 1] = t
    blocks = {}
    i = 1
    n = len(lines)
    cur = None
    while i < n:
        ln = lines[i]
        m = _LET_RE.match(ln)
        if m and cur is None:
            f.local_types[int(m.group(1))] = m.group(2)
            i += 1
            continue
        m = _BB_RE.match(ln)
        if m:
            cur = Block()
            cur.name = m.group(1)
            cur.cleanup = bool(m.group(2))
            cur.stmts = []
            cur.term = None
            body = []
            i += 1
            while lines[i] != '    }':
                body.append(lines[i])
                i += 1
            # a statement may span several lines when a string constant contains a raw
            # newline; join until the line ends with ';' outside a literal.
            stmts = _join_statements(body)
            if not stmts:
                raise MirParseError('empty block %s in %s' % (cur.name, f.name))
            cur._raw = stmts
            blocks[cur.name] = cur
            cur = None
            i += 1
            continue
        i += 1
    f.blocks = blocks
    f._raw_blocks = True
    # statements are parsed on demand per block (see block_parsed)


def _join_statements(body):
    out = []
    acc = ''
    for ln in body:
        s = ln.strip() if not acc else ln
        acc = (acc + '\n' + s) if acc else s
        if _complete(acc):
            out.append(acc)
            acc = ''
    if acc:
        out.append(acc)
    return out


def _complete(s):
    if not s.endswith(';'):
        return False
    # inside an unterminated string literal?
    i = 0
    n = len(s)
    while i < n:
        c = s[i]
        if c == '"' or (c == "'" and _is_char_lit(s, i)):
            try:
                i = _skip_string(s, i)
            except MirParseError:
                return False
            continue
        i += 1
    return True


def block_parsed(f, bname):
    b = f.blocks[bname]
    if b.term is None:
        raw = b._raw
        try:
            for s in raw[:-1]:
                st = parse_stmt(s)
                if st is not None:
                    b.stmts.append(st)
            b.term = parse_term(raw[-1])
        except MirParseError as e:
            raise MirParseError('%s in %s %s' % (e, f.name, bname))
    return b


_NOP_PREFIXES = ('StorageLive(', 'StorageDead(', 'nop', 'FakeRead(', 'PlaceMention(',
                 'AscribeUserType(', 'Retag(', 'Coverage', 'ConstEvalCounter',
                 'BackwardIncompatibleDropHint(', 'Deinit(')


def parse_stmt(s):
    s = s.strip()
    assert s.endswith(';'), s
    s = s[:-1]
    for p in _NOP_PREFIXES:
        if s.startswith(p):
            return None
    if s.startswith('discriminant(') and ') = ' in s:
        k = find_matching(s, len('discriminant'))
        place = parse_place(s[len('discriminant('):k])
        val = int(s[k + 1:].strip().lstrip('=').strip())
        return Stmt('setdisc', place, val, s)
    if s.startswith('assume(') or s.startswith('Assume('):
        return None
    k = _find_assign(s)
    if k < 0:
        raise MirParseError('unrecognised statement %r' % s)
    place = parse_place(s[:k].strip())
    rv = parse_rvalue(s[k + 3:].strip())
    return Stmt('assign', place, rv, s)


def _find_assign(s):
    """index of the top-level ' = ' that separates place and rvalue."""
    depth = 0
    i = 0
    n = len(s)
    while i < n:
        c = s[i]
        if c == '"' or (c == "'" and _is_char_lit(s, i)):
            i = _skip_string(s, i)
            continue
        if c in OPEN:
            depth += 1
        elif c in CLOSE:
            depth -= 1
        elif c == ' ' and depth == 0 and s[i:i + 3] == ' = ':
            return i
        i += 1
    return -1


_LOCAL_RE = re.compile(r'^_(\d+)$')


def parse_place(s):
    s = s.strip()
    m = _LOCAL_RE.match(s)
    if m:
        return Place(int(m.group(1)))
    if s.startswith('(*') and s.endswith(')') and find_matching(s, 0) == len(s) - 1:
        inner = parse_place(s[2:-1])
        return Place(inner.local, inner.proj + (('deref',),))
    if s.startswith('(') and find_matching(s, 0) == len(s) - 1:
        body = s[1:-1]
        # (P as Variant)  |  (P.N: T)
        k = _rfind_top(body, ' as ')
        kf = _find_field_dot(body)
        if kf is not None:
            base, idx, ty = kf
            inner = parse_place(base)
            return Place(inner.local, inner.proj + (('field', idx, ty),))
        if k >= 0:
            inner = parse_place(body[:k])
            v = body[k + 4:].strip()
            if v.startswith('variant#'):
                v = int(v[len('variant#'):])
            return Place(inner.local, inner.proj + (('downcast', v),))
        raise MirParseError('bad place %r' % s)
    # indexing forms: P[_n], P[n of m], P[-n of m], P[a..b], P[a:-b]
    if s.endswith(']'):
        k = _match_back(s, len(s) - 1)
        inner = parse_place(s[:k])
        idx = s[k + 1:-1].strip()
        m = _LOCAL_RE.match(idx)
        if m:
            return Place(inner.local, inner.proj + (('index', int(m.group(1))),))
        m = re.match(r'^(-?)(\d+) of (\d+)$', idx)
        if m:
            return Place(inner.local, inner.proj + (('cindex', int(m.group(2)), m.group(1) == '-'),))
        m = re.match(r'^(\d+)\.\.(\d+)$', idx)
        if m:
            return Place(inner.local, inner.proj + (('subslice', int(m.group(1)), int(m.group(2)), False),))
        m = re.match(r'^(\d+):-(\d+)$', idx)
        if m:
            return Place(inner.local, inner.proj + (('subslice', int(m.group(1)), int(m.group(2)), True),))
        raise MirParseError('bad index place %r' % s)
    raise MirParseError('bad place %r' % s)


def _match_back(s, j):
    depth = 0
    i = j
    while i >= 0:
        c = s[i]
        if c in CLOSE:
            depth += 1
        elif c in OPEN:
            depth -= 1
            if depth == 0:
                return i
        i -= 1
    raise MirParseError('unbalanced (back) %r' % s)


def _rfind_top(s, needle):
    depth = 0
    angle = 0
    i = 0
    n = len(s)
    found = -1
    while i < n:
        c = s[i]
        if c in OPEN:
            depth += 1
        elif c in CLOSE:
            depth -= 1
        elif c == '<':
            angle += 1
        elif c == '>' and not (i > 0 and s[i - 1] in '-='):
            angle -= 1
        elif depth == 0 and angle <= 0 and s.startswith(needle, i):
            found = i
        i += 1
    return found


def _find_field_dot(body):
    """body = 'BASE.N: TYPE' -> (BASE, N, TYPE) where BASE is a place string."""
    # BASE is either _n, or a parenthesised place, optionally followed by [..] forms
    if body.startswith('('):
        k = find_matching(body, 0) + 1
    else:
        m = re.match(r'^_\d+', body)
        if not m:
            return None
        k = m.end()
    # optional index suffixes
    while k < len(body) and body[k] == '[':
        k = find_matching(body, k) + 1
    m = re.match(r'^\.(\d+): ', body[k:])
    if not m:
        return None
    idx = int(m.group(1))
    ty = body[k + m.end():].strip()
    return body[:k], idx, ty


BINOPS = {'Add', 'Sub', 'Mul', 'Div', 'Rem', 'BitXor', 'BitAnd', 'BitOr', 'Shl', 'Shr',
          'Eq', 'Lt', 'Le', 'Ne', 'Ge', 'Gt', 'Cmp', 'Offset',
          'AddWithOverflow', 'SubWithOverflow', 'MulWithOverflow',
          'AddUnchecked', 'SubUnchecked', 'MulUnchecked', 'ShlUnchecked', 'ShrUnchecked'}
UNOPS = {'Not', 'Neg', 'PtrMetadata'}


def parse_operand(s):
    s = s.strip()
    if s.startswith('no_retag '):
        s = s[len('no_retag '):]
    if s.startswith('copy '):
        return Operand('copy', parse_place(s[5:]))
    if s.startswith('move '):
        return Operand('move', parse_place(s[5:]))
    if s.startswith('const '):
        return Operand('const', const=parse_const(s[6:]))
    # a bare path: function item used as a value
    return Operand('const', const=Const('fn', raw=s))


_INT_RE = re.compile(r'^(-?\d+)_(u8|u16|u32|u64|u128|usize|i8|i16|i32|i64|i128|isize)$')


def _unescape(body):
    """Rust debug-escaped string body -> bytes."""
    out = bytearray()
    i = 0
    n = len(body)
    while i < n:
        c = body[i]
        if c == '\\':
            d = body[i + 1]
            if d == 'n':
                out.append(10); i += 2
            elif d == 't':
                out.append(9); i += 2
            elif d == 'r':
                out.append(13); i += 2
            elif d == '0':
                out.append(0); i += 2
            elif d in '\\\'"':
                out.append(ord(d)); i += 2
            elif d == 'x':
                out.append(int(body[i + 2:i + 4], 16)); i += 4
            elif d == 'u':
                k = body.index('}', i)
                out += chr(int(body[i + 3:k], 16)).encode('utf-8'); i = k + 1
            elif d == '\n':
                # line continuation is not produced by the MIR printer
                out.append(10); i += 2
            else:
                raise MirParseError('bad escape %r' % body[i:i + 6])
        else:
            out += c.encode('utf-8')
            i += 1
    return bytes(out)


def parse_const(s):
    s = s.strip()
    if s == 'true':
        return Const('bool', True)
    if s == 'false':
        return Const('bool', False)
    if s == '()':
        return Const('unit')
    m = _INT_RE.match(s)
    if m:
        return Const('int', int(m.group(1)), m.group(2))
    if s.startswith('"'):
        j = _skip_string(s, 0)
        return Const('str', _unescape(s[1:j - 1]))
    if s.startswith('b"'):
        j = _skip_string(s, 1)
        return Const('bytes', _unescape(s[2:j - 1]))
    if s.startswith("'"):
        j = _skip_string(s, 0)
        b = _unescape(s[1:j - 1]).decode('utf-8')
        return Const('char', ord(b))
    if s.startswith('ZeroSized: '):
        return Const('zst', raw=s[len('ZeroSized: '):])
    return Const('path', raw=s)


def parse_rvalue(s):
    s = s.strip()
    if s.startswith('&'):
        rest = s[1:]
        mut = False
        kind = 'ref'
        if rest.startswith('raw const '):
            rest = rest[len('raw const '):]
            kind = 'rawref'
        elif rest.startswith('raw mut '):
            rest = rest[len('raw mut '):]
            kind = 'rawref'
            mut = True
        elif rest.startswith('mut '):
            rest = rest[4:]
            mut = True
        elif rest.startswith('fake shallow '):
            rest = rest[len('fake shallow '):]
        elif rest.startswith('fake '):
            rest = rest[5:]
        rest = rest.strip()
        if rest.startswith('(fake) '):      # `&raw const (fake) (*_13)`: a fake raw borrow (slice-length read)
            rest = rest[len('(fake) '):]
        return Rvalue(kind, parse_place(rest), mut)
    m = re.match(r'^([A-Za-z]+)\(', s)
    if m and s.endswith(')') and find_matching(s, m.end() - 1) == len(s) - 1:
        op = m.group(1)
        inner = s[m.end():-1]
        if op in BINOPS:
            a, b = split_top(inner)
            return Rvalue('binop', op, parse_operand(a), parse_operand(b))
        if op in UNOPS:
            return Rvalue('unop', op, parse_operand(inner))
        if op == 'discriminant':
            return Rvalue('discriminant', parse_place(inner))
        if op == 'Len':
            return Rvalue('len', parse_place(inner))
        if op == 'CopyForDeref':
            return Rvalue('use', Operand('copy', parse_place(inner)))
        if op == 'ShallowInitBox':
            a, _t = split_top(inner)
            return Rvalue('use', parse_operand(a))
    if s.startswith('copy ') or s.startswith('move ') or s.startswith('const ') or s.startswith('no_retag '):
        # maybe a cast:  OPERAND as TYPE (Kind)
        k = _cast_split(s)
        if k is not None:
            opnd, ty, ck = k
            return Rvalue('cast', parse_operand(opnd), ty, ck)
        return Rvalue('use', parse_operand(s))
    if s.startswith('['):
        e = find_matching(s, 0)
        if e == len(s) - 1:
            inner = s[1:-1].strip()
            if not inner:
                return Rvalue('array', [])
            parts = split_top(inner, ';')
            if len(parts) == 2:
                return Rvalue('repeat', parse_operand(parts[0]), parts[1].strip())
            return Rvalue('array', [parse_operand(x) for x in split_top(inner)])
    if s.startswith('(') and find_matching(s, 0) == len(s) - 1:
        inner = s[1:-1].strip()
        parts = [p for p in split_top(inner) if p != '']
        return Rvalue('tuple', [parse_operand(x) for x in parts])
    if s.startswith('{closure@') or s.startswith('{coroutine@') or s.startswith('{async '):
        e = find_matching(s, 0)
        name = s[:e + 1]
        rest = s[e + 1:].strip()
        ops = []
        if rest.startswith('{'):
            inner = rest[1:find_matching(rest, 0)].strip()
            for fld in split_top(inner):
                if not fld:
                    continue
                k = fld.index(':')
                ops.append(parse_operand(fld[k + 1:]))
        return Rvalue('closure', name, ops)
    # aggregate: PATH { f: op, .. } | PATH(op, ..) | PATH (unit variant / unit struct)
    k = _agg_split(s)
    if k is not None:
        path, style, inner = k
        ops = []
        names = None
        if style == '{':
            names = []
            for fld in split_top(inner):
                if not fld:
                    continue
                kk = fld.index(':')
                names.append(fld[:kk].strip())
                ops.append(parse_operand(fld[kk + 1:]))
        elif style == '(':
            ops = [parse_operand(x) for x in split_top(inner) if x != '']
        return Rvalue('aggregate', path, ops, names)
    raise MirParseError('unrecognised rvalue %r' % s)


def _cast_split(s):
    """'OPERAND as TYPE (Kind)' -> (operand, type, kind) or None."""
    if not s.endswith(')'):
        return None
    k = _match_back(s, len(s) - 1)
    kind = s[k + 1:-1]
    if not re.match(r'^[A-Za-z]+(\(.*\))?$', kind):
        return None
    head = s[:k].rstrip()
    j = _rfind_top_as(head)
    if j < 0:
        return None
    return head[:j], head[j + 4:].strip(), kind


def _rfind_top_as(s):
    # first top-level ' as ' after the operand; operands are 'copy P'/'move P'/'const C'
    depth = 0
    i = 0
    n = len(s)
    while i < n:
        c = s[i]
        if c == '"' or (c == "'" and _is_char_lit(s, i)):
            i = _skip_string(s, i)
            continue
        if c in OPEN:
            depth += 1
        elif c in CLOSE:
            depth -= 1
        elif depth == 0 and s.startswith(' as ', i):
            return i
        i += 1
    return -1


def _agg_split(s):
    # find the end of the path (balanced <>), then '{', '(' or end
    i = 0
    n = len(s)
    angle = 0
    while i < n:
        c = s[i]
        if c == '<':
            angle += 1
        elif c == '>' and not (i > 0 and s[i - 1] in '-='):
            angle -= 1
        elif angle == 0 and c in '({':
            if c == '{' and s.startswith('{closure', i):
                # closure type inside a path segment
                i = find_matching(s, i) + 1
                continue
            if c == '(' and i == 0:
                return None
            e = find_matching(s, i)
            if e != n - 1:
                return None
            path = s[:i].strip()
            return path, c, s[i + 1:e].strip()
        elif angle == 0 and c == ' ' and s[i + 1:i + 2] not in ('{',):
            # spaces inside a path only occur inside <...>; otherwise not an aggregate
            if not s[i + 1:].lstrip().startswith('{'):
                return None
        i += 1
    if re.match(r'^[A-Za-z_<]', s):
        return s, '', ''
    return None


_TARGETS_RE = re.compile(r'\[(.*)\]$')


def _parse_targets(s):
    """'[return: bb1, unwind: bb2]' / 'unwind continue' -> dict"""
    s = s.strip()
    d = {}
    if s.startswith('['):
        inner = s[1:-1]
        for part in split_top(inner):
            if ':' not in part:
                d['unwind'] = part.strip()
                continue
            k = part.index(':')
            d[part[:k].strip()] = part[k + 1:].strip()
    else:
        d['unwind'] = s
    return d


def parse_term(s):
    s = s.strip()
    if not s.endswith(';'):
        raise MirParseError('terminator without ; %r' % s)
    s = s[:-1]
    if s == 'return':
        return Term('return', raw=s)
    if s == 'unreachable':
        return Term('unreachable', raw=s)
    if s in ('resume', 'abort', 'terminate', 'unwind_resume') or s.startswith('resume') or s.startswith('terminate('):
        return Term('resume', raw=s)
    if s.startswith('goto -> '):
        return Term('goto', s[len('goto -> '):].strip(), raw=s)
    if s.startswith('switchInt('):
        e = find_matching(s, len('switchInt'))
        op = parse_operand(s[len('switchInt('):e])
        rest = s[e + 1:].strip()
        assert rest.startswith('->'), s
        tg = rest[2:].strip()
        inner = tg[1:-1]
        targets = []
        otherwise = None
        for part in split_top(inner):
            k = part.index(':')
            key = part[:k].strip()
            bb = part[k + 1:].strip()
            if key == 'otherwise':
                otherwise = bb
            else:
                targets.append((_parse_switch_val(key), bb))
        return Term('switch', op, targets, otherwise, raw=s)
    if s.startswith('drop('):
        e = find_matching(s, len('drop'))
        place = parse_place(s[len('drop('):e])
        tg = _parse_targets(s[e + 1:].strip().lstrip('->').strip())
        return Term('drop', place, tg.get('return'), raw=s)
    if s.startswith('assert('):
        e = find_matching(s, len('assert'))
        inner = s[len('assert('):e]
        parts = split_top(inner)
        cond = parts[0].strip()
        expected = True
        if cond.startswith('!'):
            expected = False
            cond = cond[1:]
        msg = parts[1].strip() if len(parts) > 1 else ''
        tg = _parse_targets(s[e + 1:].strip().lstrip('->').strip())
        return Term('assert', parse_operand(cond), expected, msg, tg.get('success'), raw=s)
    if s.startswith('falseEdge') or s.startswith('falseUnwind'):
        m = re.search(r'real: (bb\d+)', s)
        return Term('goto', m.group(1), raw=s)
    if s.startswith('yield(') or s.startswith('coroutine_drop') or s.startswith('tailcall'):
        return Term('unsupported', raw=s)
    # call:  [PLACE = ]CALLEE(ARGS) -> TARGETS
    k = _find_arrow(s)
    if k < 0:
        raise MirParseError('unrecognised terminator %r' % s)
    head = s[:k].rstrip()
    tg = _parse_targets(s[k + 2:].strip())
    dest = None
    ka = _find_assign(head)
    if ka >= 0:
        dest = parse_place(head[:ka])
        head = head[ka + 3:].strip()
    if not head.endswith(')'):
        raise MirParseError('call without args %r' % s)
    ko = _match_back(head, len(head) - 1)
    callee = head[:ko].strip()
    args = [parse_operand(a) for a in split_top(head[ko + 1:-1]) if a != '']
    if callee.startswith('move ') or callee.startswith('copy '):
        callee_op = parse_operand(callee)
        return Term('call', callee_op, args, dest, tg.get('return'), raw=s)
    return Term('call', callee, args, dest, tg.get('return'), raw=s)


def _parse_switch_val(key):
    key = key.strip()
    m = re.match(r'^(-?\d+)', key)
    if m:
        return int(m.group(1))
    if key == 'false':
        return 0
    if key == 'true':
        return 1
    raise MirParseError('bad switch value %r' % key)


def _find_arrow(s):
    """index of the last top-level ' -> ' (the one introducing call targets)."""
    depth = 0
    angle = 0
    i = 0
    n = len(s)
    found = -1
    while i < n:
        c = s[i]
        if c == '"' or (c == "'" and _is_char_lit(s, i)):
            i = _skip_string(s, i)
            continue
        if c in OPEN:
            depth += 1
        elif c in CLOSE:
            depth -= 1
        elif depth == 0 and s.startswith(' -> ', i):
            found = i + 1
        i += 1
    return found
