"""A small model of the `regex` crate for *concrete* patterns over symbolic haystacks.

The crate's engine is not encoded; this is a reference backtracking matcher with the
crate's documented leftmost-first semantics for the syntax subset below.  Anything outside
the subset is `Unmodelled` (the check becomes inconclusive, never a verdict).
Subset: literals, escapes \\d \\w \\s \\D \\W \\S and escaped punctuation, `.`, classes
[...] with ranges and negation, groups ( ), (?: ), (?P<n> ), (?<n> ), alternation,
greedy and lazy * + ? {m} {m,} {m,n}, anchors ^ $, leading inline flags (?i) (?s) (?m).
"""
import z3

from .values import *
from .models import reg, as_sstr, opt, sym_or, sym_and, sym_not
from .strmodels import chars_of, sub, char_is_ws, byte_between

META = set('\\.+*?()|[]{}^$')


class RexError(Exception):
    pass


class RexUnsupported(Exception):
    pass


class Node:
    def __init__(self, kind, **kw):
        self.kind = kind
        self.__dict__.update(kw)


def parse(pat):
    """pattern (str) -> (ast, ngroups, names dict, flags). Raises RexError on patterns the
    regex crate rejects, RexUnsupported on valid syntax outside the subset."""
    st = dict(i=0, ngroups=0, names={}, flags=set())
    n = len(pat)

    def peek():
        return pat[st['i']] if st['i'] < n else None

    def eat():
        c = pat[st['i']]
        st['i'] += 1
        return c

    # leading inline flags
    while pat.startswith('(?', st['i']):
        j = st['i'] + 2
        k = j
        while k < n and pat[k] in 'imsxuU-':
            k += 1
        if k < n and pat[k] == ')' and k > j:
            fl = pat[j:k]
            if '-' in fl or 'x' in fl or 'U' in fl:
                raise RexUnsupported('flags %r' % fl)
            st['flags'].update(fl)
            st['i'] = k + 1
        else:
            break

    def parse_alt():
        alts = [parse_concat()]
        while peek() == '|':
            eat()
            alts.append(parse_concat())
        return alts[0] if len(alts) == 1 else Node('alt', alts=alts)

    def parse_concat():
        items = []
        while peek() is not None and peek() not in '|)':
            items.append(parse_repeat())
        return Node('cat', items=items)

    def parse_repeat():
        atom = parse_atom()
        while True:
            c = peek()
            if c in ('*', '+', '?'):
                eat()
                lo, hi = {'*': (0, None), '+': (1, None), '?': (0, 1)}[c]
            elif c == '{':
                j = pat.find('}', st['i'])
                body = pat[st['i'] + 1:j] if j > 0 else None
                import re as _re
                m = _re.match(r'^(\d+)(?:(,)(\d*))?$', body or '')
                if not m:
                    raise RexError('repetition quantifier expects a valid decimal')
                st['i'] = j + 1
                lo = int(m.group(1))
                hi = lo if not m.group(2) else (int(m.group(3)) if m.group(3) else None)
                if hi is not None and hi < lo:
                    raise RexError('invalid repetition count range')
            else:
                return atom
            if atom.kind in ('bol', 'eol') or atom.kind == 'empty':
                if atom.kind == 'empty':
                    raise RexError('repetition operator missing expression')
            lazy = False
            if peek() == '?':
                eat()
                lazy = True
            atom = Node('rep', sub=atom, lo=lo, hi=hi, lazy=lazy)

    def parse_atom():
        c = peek()
        if c is None:
            return Node('empty')
        if c in '*+?':
            raise RexError('repetition operator missing expression')
        if c == '{':
            raise RexError('repetition operator missing expression')
        if c == '(':
            eat()
            name = None
            capture = True
            if peek() == '?':
                eat()
                c2 = peek()
                if c2 == ':':
                    eat()
                    capture = False
                elif c2 == 'P' or c2 == '<':
                    if c2 == 'P':
                        eat()
                        if peek() != '<':
                            if peek() in ('=', '>'):
                                raise RexUnsupported('backreference syntax')
                            raise RexError('invalid group syntax')
                    eat()
                    if peek() in ('=', '!'):
                        raise RexError('look-around is not supported')
                    j = pat.find('>', st['i'])
                    if j < 0:
                        raise RexError('unclosed capture group name')
                    name = pat[st['i']:j]
                    import re as _re
                    if not _re.match(r'^[A-Za-z_][A-Za-z0-9_.\[\]]*$', name):
                        raise RexError('invalid capture group character')
                    if name in st['names']:
                        raise RexError('duplicate capture group name')
                    st['i'] = j + 1
                elif c2 in ('=', '!'):
                    raise RexError('look-around is not supported')
                else:
                    raise RexUnsupported('group flags')
            idx = None
            if capture:
                st['ngroups'] += 1
                idx = st['ngroups']
                if name:
                    st['names'][name] = idx
            inner = parse_alt()
            if peek() != ')':
                raise RexError('unclosed group')
            eat()
            return Node('group', sub=inner, idx=idx)
        if c == ')':
            raise RexError('unopened group')
        if c == '[':
            return parse_class()
        if c == '.':
            eat()
            return Node('any')
        if c == '^':
            eat()
            return Node('bol')
        if c == '$':
            eat()
            return Node('eol')
        if c == '\\':
            eat()
            if peek() is None:
                raise RexError('incomplete escape sequence')
            e = eat()
            if e in 'dDwWsS':
                return Node('cls', items=[('esc', e)], neg=False)
            if e in 'bBAzZ':
                raise RexUnsupported('assertion \\%s' % e)
            if e == 'n':
                return Node('lit', c=10)
            if e == 't':
                return Node('lit', c=9)
            if e == 'r':
                return Node('lit', c=13)
            if e in 'pPxuU0123456789':
                raise RexUnsupported('escape \\%s' % e)
            if e.isalnum():
                raise RexError('unrecognized escape sequence')
            return Node('lit', c=ord(e))
        eat()
        return Node('lit', c=ord(c))

    def parse_class():
        eat()
        neg = False
        if peek() == '^':
            eat()
            neg = True
        items = []
        first = True
        while True:
            c = peek()
            if c is None:
                raise RexError('unclosed character class')
            if c == ']' and not first:
                eat()
                break
            first = False
            if c == '[':
                raise RexUnsupported('nested class / posix class')
            if c == '\\':
                eat()
                if peek() is None:
                    raise RexError('incomplete escape sequence')
                e = eat()
                if e in 'dDwWsS':
                    items.append(('esc', e))
                    continue
                lo = {'n': 10, 't': 9, 'r': 13}.get(e, ord(e))
                if e.isalnum() and e not in 'ntr':
                    raise RexUnsupported('class escape \\%s' % e)
            else:
                eat()
                lo = ord(c)
            if peek() == '-' and st['i'] + 1 < n and pat[st['i'] + 1] != ']':
                eat()
                h = eat()
                if h == '\\':
                    h = eat()
                hi = ord(h)
                if hi < lo:
                    raise RexError('invalid character class range')
                items.append(('range', lo, hi))
            else:
                items.append(('range', lo, lo))
        return Node('cls', items=items, neg=neg)

    ast = parse_alt()
    if st['i'] < n:
        if pat[st['i']] == ')':
            raise RexError('unopened group')
        raise RexError('unexpected input')
    return ast, st['ngroups'], st['names'], st['flags']


# ------------------------------------------------------------------ matching

def _cp_in_esc(cp, e):
    neg = e.isupper()
    e = e.lower()
    if isinstance(cp, int):
        ch = chr(cp)
        r = {'d': ch.isdigit(), 'w': ch.isalnum() or ch == '_', 's': char_is_ws(cp) is True}[e]
        return (not r) if neg else r
    if e == 'd':
        r = byte_between(cp, 48, 57)
    elif e == 'w':
        r = z3.Or(byte_between(cp, 48, 57), byte_between(cp, 65, 90), byte_between(cp, 97, 122), cp == 95)
    else:
        r = z3.Or(*[cp == v for v in (9, 10, 11, 12, 13, 32)])
    return z3.Not(r) if neg else r


def _fold(c):
    if 65 <= c <= 90:
        return (c, c + 32)
    if 97 <= c <= 122:
        return (c, c - 32)
    return (c,)


class Matcher:
    def __init__(self, I, pat_bytes):
        self.I = I
        try:
            pat = bytes(pat_bytes).decode('utf-8')
        except UnicodeDecodeError:
            raise Unmodelled('non-UTF-8 regex pattern')
        self.pat = pat
        self.ast, self.ngroups, self.names, self.flags = parse(pat)
        self.icase = 'i' in self.flags
        self.dotall = 's' in self.flags
        self.multiline = 'm' in self.flags
        self.steps = 0

    def char_test(self, node, cp):
        """(possibly symbolic) condition that code point cp matches a single-char node."""
        if node.kind == 'lit':
            alts = _fold(node.c) if self.icase else (node.c,)
            if isinstance(cp, int):
                return cp in alts
            return z3.Or(*[cp == a for a in alts]) if len(alts) > 1 else cp == alts[0]
        if node.kind == 'any':
            if self.dotall:
                return True
            return (cp != 10) if isinstance(cp, int) else cp != 10
        if node.kind == 'cls':
            r = False
            for it in node.items:
                if it[0] == 'esc':
                    c = _cp_in_esc(cp, it[1])
                else:
                    lo, hi = it[1], it[2]
                    if isinstance(cp, int):
                        c = lo <= cp <= hi
                        if self.icase and not c:
                            c = any(lo <= f <= hi for f in _fold(cp))
                    else:
                        c = z3.And(cp >= lo, cp <= hi)
                        if self.icase:
                            # ASCII case folding of the symbolic byte
                            c = z3.Or(c, z3.And(cp >= 65, cp <= 90, cp + 32 >= lo, cp + 32 <= hi),
                                      z3.And(cp >= 97, cp <= 122, cp - 32 >= lo, cp - 32 <= hi))
                r = sym_or(r, c)
            return sym_not(r) if node.neg else r
        raise EngineError(node.kind)

    def m(self, node, chars, k, caps, cont):
        """Try to match node at char index k; on success call cont(k', caps)."""
        self.steps += 1
        if self.steps > 200000:
            raise Truncated('regex model step bound')
        I = self.I
        kind = node.kind
        if kind in ('lit', 'any', 'cls'):
            if k >= len(chars):
                return None
            c = self.char_test(node, chars[k][1])
            if c is False:
                return None
            if I.branch(c):
                return cont(k + 1, caps)
            return None
        if kind == 'empty':
            return cont(k, caps)
        if kind == 'cat':
            items = node.items

            def step(i, kk, cc):
                if i == len(items):
                    return cont(kk, cc)
                return self.m(items[i], chars, kk, cc, lambda k2, c2: step(i + 1, k2, c2))
            return step(0, k, caps)
        if kind == 'alt':
            for a in node.alts:
                r = self.m(a, chars, k, caps, cont)
                if r is not None:
                    return r
            return None
        if kind == 'group':
            def after(k2, c2):
                if node.idx is not None:
                    c2 = dict(c2)
                    c2[node.idx] = (k, k2)
                return cont(k2, c2)
            return self.m(node.sub, chars, k, caps, after)
        if kind == 'bol':
            ok = (k == 0)
            if not ok and self.multiline:
                prev = chars[k - 1][1]
                ok = I.branch(prev == 10) if not isinstance(prev, int) else prev == 10
            return cont(k, caps) if ok else None
        if kind == 'eol':
            ok = (k == len(chars))
            if not ok and self.multiline:
                nx = chars[k][1]
                ok = I.branch(nx == 10) if not isinstance(nx, int) else nx == 10
            return cont(k, caps) if ok else None
        if kind == 'rep':
            lo, hi, lazy = node.lo, node.hi, (node.lazy or getattr(self, 'all_lazy', False))

            def rep(count, kk, cc):
                def more():
                    if hi is not None and count >= hi:
                        return None

                    def nxt(k2, c2):
                        if k2 == kk and count >= lo:
                            return None       # empty iteration: stop
                        return rep(count + 1, k2, c2)
                    return self.m(node.sub, chars, kk, cc, nxt)

                def stop():
                    if count < lo:
                        return None
                    return cont(kk, cc)
                if lazy:
                    r = stop()
                    if r is not None:
                        return r
                    return more()
                r = more()
                if r is not None:
                    return r
                return stop()
            return rep(0, k, caps)
        raise EngineError('regex node %s' % kind)

    def search(self, s):
        """Leftmost-first search. Returns dict group idx -> (byte start, byte end) or None."""
        bs = s.b
        chars = chars_of(bs)
        offs = [c[0] for c in chars] + [len(bs)]
        for start in range(0, len(chars) + 1):
            r = self.m(self.ast, chars, start, {}, lambda k2, c2: (k2, c2))
            if r is not None:
                k2, caps = r
                out = {0: (offs[start], offs[k2])}
                for gi, (a, b) in caps.items():
                    out[gi] = (offs[a], offs[b])
                return out
        return None


def _matcher_of(I, rx):
    rx = I.deref_value(rx) if isinstance(rx, Ref) else rx
    return rx.f[0]


@reg('Regex::new')
def _regex_new(I, a, ci, dt):
    p = as_sstr(I, a[0]).b
    if not all(isinstance(b, int) for b in p):
        raise Unmodelled('symbolic regex pattern')
    try:
        m = Matcher(I, p)
    except RexError as e:
        return Err(Opaque('regex::Error', str(e)))
    except RexUnsupported as e:
        raise Unmodelled('regex syntax outside the modelled subset: %s in %r' % (e, bytes(p)))
    return Ok(Struct('Regex', (m,)))


@reg('Regex::is_match')
def _regex_is_match(I, a, ci, dt):
    m = _matcher_of(I, a[0])
    m.I = I
    return m.search(as_sstr(I, a[1])) is not None


def _mk_match(s, ab):
    return Struct('Match', (s, ab[0], ab[1]))


@reg('Regex::find')
def _regex_find(I, a, ci, dt):
    m = _matcher_of(I, a[0])
    m.I = I
    s = as_sstr(I, a[1])
    r = m.search(s)
    return NONE if r is None else Some(_mk_match(s, r[0]))


@reg('Regex::captures')
def _regex_captures(I, a, ci, dt):
    m = _matcher_of(I, a[0])
    m.I = I
    s = as_sstr(I, a[1])
    r = m.search(s)
    if r is None:
        return NONE
    return Some(Struct('Captures', (s, r, m)))


@reg('Captures::name')
def _captures_name(I, a, ci, dt):
    c = I.deref_value(a[0]) if isinstance(a[0], Ref) else a[0]
    name = bytes(as_sstr(I, a[1]).b).decode()
    idx = c.f[2].names.get(name)
    if idx is None or idx not in c.f[1]:
        return NONE
    return Some(_mk_match(c.f[0], c.f[1][idx]))


@reg('Captures::get')
def _captures_get(I, a, ci, dt):
    c = I.deref_value(a[0]) if isinstance(a[0], Ref) else a[0]
    idx = I.concretize(a[1])
    if idx not in c.f[1]:
        return NONE
    return Some(_mk_match(c.f[0], c.f[1][idx]))


@reg('Match::range')
def _match_range(I, a, ci, dt):
    m = I.deref_value(a[0]) if isinstance(a[0], Ref) else a[0]
    return Struct('Range', (m.f[1], m.f[2]))


@reg('Match::start')
def _match_start(I, a, ci, dt):
    m = I.deref_value(a[0]) if isinstance(a[0], Ref) else a[0]
    return m.f[1]


@reg('Match::end')
def _match_end(I, a, ci, dt):
    m = I.deref_value(a[0]) if isinstance(a[0], Ref) else a[0]
    return m.f[2]


@reg('Match::as_str')
def _match_as_str(I, a, ci, dt):
    m = I.deref_value(a[0]) if isinstance(a[0], Ref) else a[0]
    return sub(m.f[0], m.f[1], m.f[2])


@reg('Match::is_empty')
def _match_is_empty(I, a, ci, dt):
    m = I.deref_value(a[0]) if isinstance(a[0], Ref) else a[0]
    return m.f[1] == m.f[2]


@reg('Regex::shortest_match')
def _regex_shortest_match(I, a, ci, dt):
    """End of the earliest-ending match from the leftmost start: every repetition is run lazily (exact for
    patterns without alternation between branches of different length; a disagreement with the regex crate
    shows up in the per-run validation against the real binary)."""
    m = _matcher_of(I, a[0])
    m.I = I
    m.all_lazy = True
    try:
        r = m.search(as_sstr(I, a[1]))
    finally:
        m.all_lazy = False
    return NONE if r is None else Some(r[0][1])


@reg('Match::len')
def _match_len(I, a, ci, dt):
    m = I.deref_value(a[0]) if isinstance(a[0], Ref) else a[0]
    return m.f[2] - m.f[1]


@reg('Regex::capture_names')
def _regex_capture_names(I, a, ci, dt):
    """Iterator over Option<&str>: group 0 (unnamed) first, then every group in index order."""
    from .models import ListIter
    m = _matcher_of(I, a[0])
    by_idx = {i: n for n, i in m.names.items()}
    items = [NONE]
    for i in range(1, m.ngroups + 1):
        items.append(Some(SStr(tuple(by_idx[i].encode()), -1, 0)) if i in by_idx else NONE)
    return ListIter(items)


@reg('Regex::captures_len')
def _regex_captures_len(I, a, ci, dt):
    return _matcher_of(I, a[0]).ngroups + 1


@reg('Regex::as_str')
def _regex_as_str(I, a, ci, dt):
    return SStr(tuple(_matcher_of(I, a[0]).pat if isinstance(_matcher_of(I, a[0]).pat, (bytes, tuple)) else str(_matcher_of(I, a[0]).pat).encode()), -1, 0)
