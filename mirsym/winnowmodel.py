"""Models of the winnow 0.7 combinators that src/tag_parser.rs is written with (complete `&str`
input).  The *grammar* — which combinators, literals, ranges and character predicates — is the
crate's own MIR (parse_start_tag, parse_end_tag, parse_attributes, parse_attribute_name,
parse_attribute_value and their closures); only the generic combinator semantics are modelled
here, in the same spirit as the std models:

  literal(s)            exact prefix, else backtrack
  take_while(r, pred)   longest prefix of chars satisfying pred, count within r, else backtrack
  take_till(r, ch/pred) longest prefix of chars NOT matching, count within r (whole rest if none matches)
  multispace0/1         space, tab, CR, LF
  (p1, .., pn)          sequence, tuple of outputs
  delimited(a, b, c)    sequence, output of b;   preceded(a, b): output of b;   terminated(a, b): of a
  opt(p)                Some / None (input restored on backtrack)
  alt((p1, .., pn))     first alternative that succeeds (input restored between tries)
  repeat(r, p)          p until it backtracks; `.fold(init, f)` accumulates; fails below r's minimum
  p.map(f), p.void(), p.parse_next(&mut input), p.parse_peek(input)
"""
from .values import *
from .models import reg, as_sstr, call_closure, Some, NONE, Ok, Err, opt, map_insert, map_find
from .strmodels import chars_of, sub, byte_in, bytes_equal


class WP:
    """A winnow parser value built by the combinator constructors."""
    __slots__ = ('kind', 'args')

    def __init__(self, kind, *args):
        self.kind = kind
        self.args = args

    def __repr__(self):
        return 'WP(%s)' % self.kind


class Backtrack(Exception):
    pass


def _range_min_max(I, r):
    r = I.deref_value(r) if isinstance(r, Ref) else r
    if isinstance(r, int):
        return r, r
    nm = r.name
    if nm == 'RangeFrom':
        return I.concretize(r.f[0]), None
    if nm == 'Range':
        return I.concretize(r.f[0]), I.concretize(r.f[1]) - 1
    if nm == 'RangeInclusive':
        return I.concretize(r.f[0]), I.concretize(r.f[1])
    if nm == 'RangeTo':
        return 0, I.concretize(r.f[0]) - 1
    if nm == 'RangeToInclusive':
        return 0, I.concretize(r.f[0])
    if nm == 'RangeFull':
        return 0, None
    raise Unmodelled('winnow range %r' % (r,))


def _pred(I, p):
    """char predicate from a take_while/take_till argument: closure, char, char tuple/array, range."""
    pv = I.deref_value(p) if isinstance(p, Ref) else p
    if isinstance(pv, (Closure, FnItem)):
        return lambda c: call_closure(I, pv, c)
    if isinstance(pv, int) or is_sym(pv):
        return lambda c: (c == pv)
    if isinstance(pv, (VecVal,)):
        return lambda c: _or([c == x for x in pv.items])
    if isinstance(pv, Struct) and pv.name == 'tuple':
        return lambda c: _or([c == x for x in pv.f])
    raise Unmodelled('winnow char set %r' % (pv,))


def _or(xs):
    import z3
    r = False
    for x in xs:
        if x is True:
            return True
        if x is False:
            continue
        r = x if r is False else z3.Or(r, x)
    return r


def run(I, p, s):
    """Run parser value p on input s (SStr). Returns (output, rest) or raises Backtrack."""
    pv = I.deref_value(p) if isinstance(p, Ref) else p
    if isinstance(pv, WP):
        return _run_wp(I, pv, s)
    if isinstance(pv, Struct) and pv.name == 'tuple':
        outs = []
        cur = s
        for q in pv.f:
            o, cur = run(I, q, cur)
            outs.append(o)
        return Struct('tuple', outs), cur
    if isinstance(pv, FnItem):
        last = pv.path.split('<')[0].split('::')[-1].strip()
        if last.startswith('multispace'):
            return _multispace(I, s, 1 if last == 'multispace1' else 0)
        if last in LEAVES:
            kw = LEAVES[last]
            if 'chars' in kw:
                return _take(I, s, (kw['minimum'], None), lambda c: byte_in(c, kw['chars']), True)
            return _take(I, s, (kw['minimum'], None), kw['pred'], True)
        # a crate function `fn(&mut &str) -> Result<T, E>`
        cell = Cell(s)
        r = I.call_value(pv, [Ref(cell, ())])
        if r.v != 0:
            raise Backtrack()
        return r.f[0], cell.v
    if isinstance(pv, Closure) and pv.span.startswith('{closure@') and '.rs:' not in pv.span.split('<')[0]:
        # a zero-sized winnow parser constant (`opt(multispace0)` captures only a fn item): rebuilt from its type
        return run(I, _from_type(pv.span), s)
    if isinstance(pv, Closure):
        cell = Cell(s)
        r = I.call_value(pv, [Ref(cell, ())])
        if r.v != 0:
            raise Backtrack()
        return r.f[0], cell.v
    raise Unmodelled('winnow parser value %r' % (pv,))


def _split_top(s):
    out, depth, cur = [], 0, ''
    i = 0
    while i < len(s):
        c = s[i]
        if c == '-' and s[i:i + 2] == '->':
            cur += '->'
            i += 2
            continue
        if c in '<([{':
            depth += 1
        elif c in '>)]}':
            depth -= 1
        if c == ',' and depth == 0:
            out.append(cur.strip())
            cur = ''
        else:
            cur += c
        i += 1
    if cur.strip():
        out.append(cur.strip())
    return out


_NPARSERS = {'opt': 1, 'preceded': 2, 'terminated': 2, 'delimited': 3, 'separated_pair': 3}


def _from_type(t):
    """Parser value of a zero-sized parser *type* (fn items and combinators over them)."""
    t = t.strip()
    if t.startswith('{closure@'):
        body = t[len('{closure@'):]
        name = body.split('<')[0].split('::')[-1]
        k = body.find('<')
        # generic argument list up to the matching '>'
        depth, j = 0, k
        while j < len(body):
            if body[j] == '-' and body[j:j + 2] == '->':
                j += 2
                continue
            if body[j] == '<':
                depth += 1
            elif body[j] == '>':
                depth -= 1
                if depth == 0:
                    break
            j += 1
        gen = _split_top(body[k + 1:j])
        n = _NPARSERS.get(name)
        if n is None:
            raise Unmodelled('zero-sized winnow parser type %s' % t[:80])
        return WP(name, *[_from_type(x) for x in gen[-n:]])
    if t.startswith('(') and t.endswith(')'):
        return Struct('tuple', tuple(_from_type(x) for x in _split_top(t[1:-1])))
    if t.endswith('}') and ' {' in t:
        return FnItem(t[t.rfind(' {') + 2:-1].strip())
    raise Unmodelled('zero-sized winnow parser type %s' % t[:80])


def _acc_kind(ci):
    """Accumulator type of repeat::<I, O, C, ..> / separated::<I, O, C, ..>: the third generic argument."""
    raw = ci.raw
    k = raw.find('::<')
    if k < 0:
        return 'vec'
    depth, j = 0, k + 2
    while j < len(raw):
        if raw[j] == '-' and raw[j:j + 2] == '->':
            j += 2
            continue
        if raw[j] == '<':
            depth += 1
        elif raw[j] == '>':
            depth -= 1
            if depth == 0:
                break
        j += 1
    gen = _split_top(raw[k + 3:j])
    t = gen[2] if len(gen) > 2 else ''
    if t == '()':
        return 'unit'
    t0 = t.split('<')[0].split('::')[-1]
    if t0 in ('HashMap', 'BTreeMap'):
        return t0
    if t0 in ('HashSet', 'BTreeSet'):
        return t0
    if t0 == 'String':
        return 'string'
    if t0 == 'usize':
        return 'count'
    return 'vec'


def _accumulate(I, kind, outs):
    if kind == 'vec':
        return VecVal(outs)
    if kind == 'unit':
        return UNIT
    if kind == 'count':
        return len(outs)
    if kind in ('HashMap', 'BTreeMap'):
        cell = Cell(MapVal((), kind))
        for o in outs:
            map_insert(I, Ref(cell, ()), o.f[0], o.f[1])
        return cell.v
    if kind in ('HashSet', 'BTreeSet'):
        cell = Cell(MapVal((), kind))
        for o in outs:
            if map_find(I, cell.v, o) < 0:
                cell.v = MapVal(cell.v.entries + (Struct('tuple', (o, UNIT)),), kind)
        return cell.v
    raise Unmodelled('winnow accumulator %s' % kind)


def _multispace(I, s, minimum):
    chars = chars_of(s.b)
    k = 0
    while k < len(chars) and I.branch(byte_in(chars[k][1], (32, 9, 13, 10))):
        k += 1
    if k < minimum:
        raise Backtrack()
    end = chars[k][0] if k < len(chars) else len(s.b)
    return sub(s, 0, end), sub(s, end, len(s.b))


def _take(I, s, rng, pred, want):
    lo, hi = rng
    chars = chars_of(s.b)
    k = 0
    while k < len(chars) and (hi is None or k < hi):
        c = pred(chars[k][1])
        ok = I.branch(c) if not isinstance(c, bool) else c
        if ok != want:
            break
        k += 1
    if k < lo:
        raise Backtrack()
    end = chars[k][0] if k < len(chars) else len(s.b)
    return sub(s, 0, end), sub(s, end, len(s.b))


def _run_wp(I, p, s):
    k = p.kind
    a = p.args
    if k == 'literal':
        lit = as_sstr(I, a[0]).b if not isinstance(a[0], int) else None
        if lit is None:
            from .strmodels import encode_cp
            lit = encode_cp(a[0])
        n = len(lit)
        if n > len(s.b):
            raise Backtrack()
        c = bytes_equal(s.b[:n], lit)
        if not (I.branch(c) if not isinstance(c, bool) else c):
            raise Backtrack()
        return sub(s, 0, n), sub(s, n, len(s.b))
    if k == 'take_while':
        return _take(I, s, a[0], a[1], True)
    if k == 'take_till':
        return _take(I, s, a[0], a[1], False)
    if k == 'delimited':
        _o, cur = run(I, a[0], s)
        out, cur = run(I, a[1], cur)
        _o, cur = run(I, a[2], cur)
        return out, cur
    if k == 'preceded':
        _o, cur = run(I, a[0], s)
        return run(I, a[1], cur)
    if k == 'terminated':
        out, cur = run(I, a[0], s)
        _o, cur = run(I, a[1], cur)
        return out, cur
    if k == 'separated_pair':
        o1, cur = run(I, a[0], s)
        _o, cur = run(I, a[1], cur)
        o2, cur = run(I, a[2], cur)
        return Struct('tuple', (o1, o2)), cur
    if k == 'opt':
        try:
            out, cur = run(I, a[0], s)
            return Some(out), cur
        except Backtrack:
            return NONE, s
    if k == 'alt':
        alts = I.deref_value(a[0]) if isinstance(a[0], Ref) else a[0]
        for q in alts.f:
            try:
                return run(I, q, s)
            except Backtrack:
                continue
        raise Backtrack()
    if k == 'repeat':
        lo, hi = a[0]
        outs = []
        cur = s
        while hi is None or len(outs) < hi:
            try:
                out, nxt = run(I, a[1], cur)
            except Backtrack:
                break
            if len(nxt.b) == len(cur.b):
                raise Panic('winnow repeat: parser succeeded without consuming input')
            outs.append(out)
            cur = nxt
            if len(outs) > 64:
                raise Truncated('winnow repeat bound')
        if len(outs) < lo:
            raise Backtrack()
        return _accumulate(I, a[2], outs), cur
    if k == 'separated':
        lo, hi = a[0]
        outs = []
        cur = s
        try:
            out, cur = run(I, a[1], cur)
            outs.append(out)
        except Backtrack:
            pass
        while outs and (hi is None or len(outs) < hi):
            try:
                _o, nxt = run(I, a[2], cur)
                out, nxt = run(I, a[1], nxt)
            except Backtrack:
                break
            if len(nxt.b) == len(cur.b):
                raise Panic('winnow separated: parsers succeeded without consuming input')
            outs.append(out)
            cur = nxt
            if len(outs) > 64:
                raise Truncated('winnow separated bound')
        if len(outs) < lo:
            raise Backtrack()
        return _accumulate(I, a[3], outs), cur
    if k == 'fold':
        rep, init, f = a
        rp = I.deref_value(rep) if isinstance(rep, Ref) else rep
        outs, cur = run(I, WP('repeat', rp.args[0], rp.args[1], 'vec'), s)
        acc = I.call_value(init, [])
        for o in outs.items:
            acc = I.call_value(f, [acc, o])
        return acc, cur
    if k == 'map':
        out, cur = run(I, a[0], s)
        return I.call_value(a[1], [out]), cur
    if k == 'void':
        _o, cur = run(I, a[0], s)
        return UNIT, cur
    if k == 'take':
        out, cur = run(I, a[0], s)
        return sub(s, 0, len(s.b) - len(cur.b)), cur
    raise Unmodelled('winnow combinator %s' % k)


# ------------------------------------------------------------------ constructors

@reg('literal', 'token::literal', 'tag')
def _literal(I, a, ci, dt):
    return WP('literal', a[0])


@reg('take_while', 'token::take_while')
def _take_while(I, a, ci, dt):
    return WP('take_while', _range_min_max(I, a[0]), _pred(I, a[1]))


@reg('take_till', 'token::take_till')
def _take_till(I, a, ci, dt):
    return WP('take_till', _range_min_max(I, a[0]), _pred(I, a[1]))


@reg('delimited', 'combinator::delimited')
def _delimited(I, a, ci, dt):
    return WP('delimited', a[0], a[1], a[2])


@reg('preceded', 'combinator::preceded')
def _preceded(I, a, ci, dt):
    return WP('preceded', a[0], a[1])


@reg('terminated', 'combinator::terminated')
def _terminated(I, a, ci, dt):
    return WP('terminated', a[0], a[1])


@reg('separated_pair', 'combinator::separated_pair')
def _separated_pair(I, a, ci, dt):
    return WP('separated_pair', a[0], a[1], a[2])


@reg('opt', 'combinator::opt')
def _opt(I, a, ci, dt):
    return WP('opt', a[0])


@reg('alt', 'combinator::alt')
def _alt(I, a, ci, dt):
    return WP('alt', a[0])


@reg('repeat', 'combinator::repeat')
def _repeat(I, a, ci, dt):
    return WP('repeat', _range_min_max(I, a[0]), a[1], _acc_kind(ci))


@reg('separated', 'combinator::separated')
def _separated(I, a, ci, dt):
    return WP('separated', _range_min_max(I, a[0]), a[1], a[2], _acc_kind(ci))


@reg('Repeat::fold')
def _repeat_fold(I, a, ci, dt):
    return WP('fold', a[0], a[1], a[2])


@reg('Parser::map', 'Parser::output_into')
def _p_map(I, a, ci, dt):
    if ci.method == 'output_into':
        return a[0]
    return WP('map', a[0], a[1])


@reg('Parser::void')
def _p_void(I, a, ci, dt):
    return WP('void', a[0])


@reg('Parser::take', 'Parser::recognize')
def _p_take(I, a, ci, dt):
    return WP('take', a[0])


@reg('Parser::by_ref')
def _p_by_ref(I, a, ci, dt):
    return a[0]


@reg('Parser::parse_next')
def _p_parse_next(I, a, ci, dt):
    inp = a[1]
    s = as_sstr(I, I.load(inp))
    try:
        out, rest = run(I, a[0], s)
    except Backtrack:
        return Err(Opaque('ContextError'))
    I.store(inp, rest)
    return Ok(out)


@reg('Parser::parse_peek')
def _p_parse_peek(I, a, ci, dt):
    s = as_sstr(I, a[1])
    try:
        out, rest = run(I, a[0], s)
    except Backtrack:
        return Err(Opaque('ContextError'))
    return Ok(Struct('tuple', (rest, out)))


def _leaf(name, chars=None, pred=None, minimum=0):
    def model(I, a, ci, dt):
        inp = a[0]
        s = as_sstr(I, I.load(inp))
        try:
            if chars is not None:
                out, rest = _take(I, s, (minimum, None), lambda c: byte_in(c, chars), True)
            else:
                out, rest = _take(I, s, (minimum, None), pred, True)
        except Backtrack:
            return Err(Opaque('ContextError'))
        I.store(inp, rest)
        return Ok(out)
    return model


def _is_alpha(c):
    import z3
    from .strmodels import byte_between, conc
    if conc(c):
        return (65 <= c <= 90) or (97 <= c <= 122)
    return z3.Or(byte_between(c, 65, 90), byte_between(c, 97, 122))


def _is_digit(c):
    from .strmodels import byte_between, conc
    if conc(c):
        return 48 <= c <= 57
    return byte_between(c, 48, 57)


def _is_alnum_ascii(c):
    import z3
    a, d = _is_alpha(c), _is_digit(c)
    if isinstance(a, bool) and isinstance(d, bool):
        return a or d
    return z3.Or(a, d)


LEAVES = {
    'space0': dict(chars=(32, 9), minimum=0), 'space1': dict(chars=(32, 9), minimum=1),
    'alpha0': dict(pred=_is_alpha, minimum=0), 'alpha1': dict(pred=_is_alpha, minimum=1),
    'digit0': dict(pred=_is_digit, minimum=0), 'digit1': dict(pred=_is_digit, minimum=1),
    'alphanumeric0': dict(pred=_is_alnum_ascii, minimum=0), 'alphanumeric1': dict(pred=_is_alnum_ascii, minimum=1),
}
for _n, _kw in LEAVES.items():
    reg(_n, 'ascii::' + _n)(_leaf(_n, **_kw))


@reg('multispace0', 'ascii::multispace0')
def _ms0(I, a, ci, dt):
    inp = a[0]
    s = as_sstr(I, I.load(inp))
    out, rest = _multispace(I, s, 0)
    I.store(inp, rest)
    return Ok(out)


@reg('multispace1', 'ascii::multispace1')
def _ms1(I, a, ci, dt):
    inp = a[0]
    s = as_sstr(I, I.load(inp))
    try:
        out, rest = _multispace(I, s, 1)
    except Backtrack:
        return Err(Opaque('ContextError'))
    I.store(inp, rest)
    return Ok(out)
