"""mirsym: bounded, path-based symbolic execution of rustc MIR text, Z3 deciding.

One path at a time by re-execution under a decision prefix (DART style).  The heap is
ordinary Python state; nothing is cloned.  Every symbolic branch outcome is recorded in
the prefix (forced or not) so that re-execution is deterministic.
"""
import re
import time
import z3

from . import mirparse as mp
from .values import *

STD_ENUMS = {
    'Option': [('None', 0), ('Some', 1)],
    'Result': [('Ok', 0), ('Err', 1)],
    'ControlFlow': [('Continue', 0), ('Break', 1)],
    'Ordering': [('Less', -1), ('Equal', 0), ('Greater', 1)],
    'Cow': [('Borrowed', 0), ('Owned', 1)],
    'Entry': [('Occupied', 0), ('Vacant', 1)],
    'DiffOp': [('Equal', 0), ('Delete', 1), ('Insert', 2), ('Replace', 3)],
    'Bound': [('Included', 0), ('Excluded', 1), ('Unbounded', 2)],
    'Poll': [('Ready', 0), ('Pending', 1)],
}

INT_BITS = {'u8': 8, 'u16': 16, 'u32': 32, 'u64': 64, 'u128': 128, 'usize': 64,
            'i8': 8, 'i16': 16, 'i32': 32, 'i64': 64, 'i128': 128, 'isize': 64}


def int_range(ty):
    bits = INT_BITS[ty]
    if ty[0] == 'u':
        return 0, (1 << bits) - 1
    return -(1 << (bits - 1)), (1 << (bits - 1)) - 1


def LESS():
    return Enum('Ordering', 0, 'Less')


def EQUAL():
    return Enum('Ordering', 1, 'Equal')


def GREATER():
    return Enum('Ordering', 2, 'Greater')


class CallInfo:
    __slots__ = ('raw', 'self_ty', 'trait', 'trait_raw', 'segs', 'method', 'generics', 'dest_ty', 'key', 'keys')


_LIFETIME_RE = re.compile(r"'[a-z_][a-z0-9_]*\s*,?\s*")


def _last_seg(t):
    t = t.strip()
    while t.startswith('&') or t.startswith('*'):
        t = t.lstrip('&*').strip()
        if t.startswith('mut '):
            t = t[4:].strip()
        if t.startswith('const '):
            t = t[6:].strip()
        t = _LIFETIME_RE.sub('', t, count=1) if t.startswith("'") else t
    if t.startswith('dyn '):
        t = t[4:]
    if t.startswith('['):
        return '[]'
    if t.startswith('('):
        return '()'
    if t.startswith('{closure@'):
        return t
    t = mp.strip_generics(t)
    return t.split('::')[-1].strip()


def parse_callee(raw):
    ci = CallInfo()
    ci.raw = raw
    ci.self_ty = None
    ci.trait = None
    ci.trait_raw = None
    ci.generics = None
    ci.dest_ty = None
    s = raw.strip()
    # trailing turbofish on the method
    if s.startswith('<'):
        # <T as Trait>::method::<G>
        depth = 0
        j = 0
        for j, c in enumerate(s):
            if c == '<':
                depth += 1
            elif c == '>' and not (j > 0 and s[j - 1] in '-='):
                depth -= 1
                if depth == 0:
                    break
        inner = s[1:j]
        rest = s[j + 1:]
        k = mp._rfind_top(inner, ' as ')
        if k >= 0:
            ci.self_ty = inner[:k].strip()
            ci.trait_raw = inner[k + 4:].strip()
            ci.trait = _last_seg(ci.trait_raw)
        else:
            ci.self_ty = inner.strip()
        rest = rest.lstrip(':')
        m = re.match(r'^([A-Za-z_][A-Za-z0-9_]*)(?:::<(.*)>)?$', rest, re.S)
        if not m:
            # e.g. <T as Trait>::method::{closure#0}
            ci.method = mp.strip_generics(rest)
        else:
            ci.method = m.group(1)
            ci.generics = m.group(2)
        ci.segs = [ci.method]
        st = _last_seg(ci.self_ty)
        ci.keys = []
        if ci.trait:
            ci.keys.append('<%s as %s>::%s' % (st, ci.trait, ci.method))
            ci.keys.append('%s::%s' % (ci.trait, ci.method))
        ci.keys.append('%s::%s' % (st, ci.method))
        ci.key = ci.keys[0]
        return ci
    # plain path; remember the turbofish of the last segment
    m = re.search(r'::<(.*)>$', s, re.S)
    if m and _balanced_tail(s):
        k = _tail_generic_start(s)
        ci.generics = s[k + 3:-1]
        s_nog = s[:k]
    else:
        s_nog = s
    stripped = mp.strip_generics(s_nog)
    segs = _split_path(stripped)
    ci.segs = segs
    ci.method = segs[-1]
    # `core::str::<impl str>::trim` -> self type 'str'
    self_seg = segs[-2] if len(segs) >= 2 else None
    if self_seg and self_seg.startswith('<impl '):
        t = self_seg[6:-1].strip()
        if t.startswith('at '):
            ci.self_ty = self_seg
        else:
            ci.self_ty = _last_seg(t)
    elif self_seg:
        ci.self_ty = self_seg
    ci.keys = []
    if ci.self_ty and not ci.self_ty.startswith('<impl'):
        ci.keys.append('%s::%s' % (ci.self_ty, ci.method))
    ci.keys.append(ci.method)
    ci.key = ci.keys[0]
    return ci


def _balanced_tail(s):
    return s.endswith('>') and not s.endswith('->')


def _tail_generic_start(s):
    depth = 0
    j = len(s) - 1
    while j >= 0:
        c = s[j]
        if c == '>' and not (j > 0 and s[j - 1] in '-='):
            depth += 1
        elif c == '<':
            depth -= 1
            if depth == 0:
                return j - 2
        j -= 1
    raise mp.MirParseError('bad turbofish %r' % s)


def _split_path(s):
    segs = []
    depth = 0
    cur = []
    i = 0
    while i < len(s):
        c = s[i]
        if c in '<{(':
            depth += 1
        elif c in '})' or (c == '>' and not (i > 0 and s[i - 1] in '-=')):
            depth -= 1
        if depth == 0 and s.startswith('::', i):
            segs.append(''.join(cur))
            cur = []
            i += 2
            continue
        cur.append(c)
        i += 1
    segs.append(''.join(cur))
    return [x for x in segs if x != '']


class Program:
    """Parsed MIR dump(s) + source info + resolution index."""

    def __init__(self, mir_texts, srcinfo):
        self.src = srcinfo
        self.fns = {}
        for t in mir_texts:
            for name, lst in mp.parse_mir_file(t).items():
                self.fns.setdefault(name, []).extend(lst)
        self.by_span_closure = {}   # '{closure@src/x.rs:..}' -> MirFn
        self.by_coroutine = {}      # 'src/x.rs:L:C: L:C' (async block span) -> poll MirFn
        self.impl_index = {}        # (self_ty, method) -> [(trait, derive, MirFn)]
        self.free_index = {}        # last segment -> [MirFn]
        self.enum_index = dict(STD_ENUMS)
        for en, variants in srcinfo.enums.items():
            self.enum_index[en] = [(v, d) for (v, d, _f) in variants]
        for name, lst in self.fns.items():
            for f in lst:
                if f.kind != 'fn':
                    continue
                if '{closure#' in name:
                    if f.arg_types:
                        m = re.search(r'\{closure@[^}]*\}', f.arg_types[0])
                        if m:
                            self.by_span_closure[m.group(0)] = f
                        m = re.match(r'^(?:std::pin::)?Pin<&mut \{async (?:block|closure)@([^}]*)\}>$', f.arg_types[0].strip())
                        if m:
                            self.by_coroutine[m.group(1)] = f
                    continue
                m = re.search(r'<impl at (src/[^:]+:\d+:\d+): \d+:\d+>::([A-Za-z_][A-Za-z0-9_]*)$', name)
                if m:
                    info = srcinfo.impl_at(m.group(1))
                    self.impl_index.setdefault((info['self_ty'], m.group(2)), []).append(
                        (info['trait'], info['derive'], f))
                    continue
                segs = _split_path(name)
                self.free_index.setdefault(segs[-1], []).append(f)
        self.resolve_cache = {}

    # -------------------------------------------------------------- static lookup
    def find_fn(self, defname):
        lst = self.fns.get(defname)
        if not lst:
            raise EngineError('function %r not in the MIR dump' % defname)
        return lst[0]

    def find_method(self, self_ty, method, trait=None):
        """Crate impl fn for (self type, method[, trait]) or None."""
        cands = self.impl_index.get((self_ty, method), [])
        if trait is not None:
            exact = [f for (t, d, f) in cands if t == trait]
            if exact:
                return exact[0]
            der = [f for (t, d, f) in cands if d]
            if len(der) == 1:
                return der[0]
            if len(cands) == 1 and cands[0][0] is None:
                return None
            return None
        inh = [f for (t, d, f) in cands if t is None]
        if inh:
            return inh[0]
        if len(cands) == 1:
            return cands[0][2]
        return None

    def find_free(self, segs):
        cands = self.free_index.get(segs[-1], [])
        if not cands:
            return None
        if len(cands) == 1 and len(segs) == 1:
            return cands[0]
        # match by longest common module suffix
        best = None
        for f in cands:
            dsegs = _split_path(f.name)
            k = 0
            while k < min(len(dsegs), len(segs)) and dsegs[-1 - k] == segs[-1 - k]:
                k += 1
            if k == min(len(dsegs), len(segs)):
                if best is None or k > best[0]:
                    best = (k, f)
        if best:
            return best[1]
        return None

    def variant_index(self, enum, vname):
        vs = self.enum_index.get(enum)
        if vs is None:
            raise EngineError('unknown enum %r (variant %r)' % (enum, vname))
        for i, (n, _d) in enumerate(vs):
            if n == vname:
                return i
        raise EngineError('unknown variant %s::%s' % (enum, vname))

    def discr_of(self, e):
        vs = self.enum_index.get(e.name)
        if vs is None:
            return e.v
        return vs[e.v][1]


class Frame:
    __slots__ = ('fn', 'cells')


class PathStats:
    def __init__(self):
        self.paths = 0
        self.blocks = 0
        self.queries = 0
        self.solver_s = 0.0
        self.truncated = 0
        self.fns_used = {}


class Interp:
    def __init__(self, prog, models, prefix=(), stats=None, solver=None, max_steps=200000):
        self.prog = prog
        self.models = models
        self.prefix = list(prefix)
        self.pos = 0
        self.decisions = []
        self.alternatives = []
        self.solver = solver if solver is not None else z3.Solver()
        self.stats = stats if stats is not None else PathStats()
        self.max_steps = max_steps
        self.steps = 0
        self.model = None
        self.pc = []
        self.stubs = {}          # def name or callee key -> python fn(I, args, ci)
        self.alloc_n = 0
        self.map_order = None    # fn(n) -> permutation tuple
        self.trace = None
        self.depth = 0
        self.notes = {}

    # ------------------------------------------------------------------ solver
    def add(self, c):
        if c is True:
            return
        if c is False:
            raise Infeasible()
        self.solver.add(c)
        self.pc.append(c)
        if self.model is not None:
            v = self.model.eval(c, model_completion=True)
            if not z3.is_true(v):
                self.model = None

    def check(self, *extra):
        t = time.time()
        r = self.solver.check(*extra)
        self.stats.queries += 1
        self.stats.solver_s += time.time() - t
        if r == z3.unknown:
            raise EngineError('solver answered unknown: %s' % self.solver.reason_unknown())
        return r == z3.sat

    def ensure_model(self):
        if self.model is None:
            if not self.check():
                raise Infeasible()
            self.model = self.solver.model()
        return self.model

    def assume(self, c):
        """Constrain the path (harness precondition)."""
        if isinstance(c, bool):
            if not c:
                raise Infeasible()
            return
        c = z3.simplify(c)
        if z3.is_true(c):
            return
        if z3.is_false(c):
            raise Infeasible()
        self.add(c)
        if self.pos >= len(self.prefix):
            if self.model is None and not self.check():
                raise Infeasible()

    def branch(self, cond):
        """Decide a possibly symbolic boolean; returns a Python bool."""
        if isinstance(cond, bool):
            return cond
        if not isinstance(cond, z3.ExprRef):
            raise EngineError('branch on non-boolean %r' % (cond,))
        cond = z3.simplify(cond)
        if z3.is_true(cond):
            return True
        if z3.is_false(cond):
            return False
        if self.pos < len(self.prefix):
            d = self.prefix[self.pos]
            self.pos += 1
            self.decisions.append(d)
            c = cond if d else z3.Not(cond)
            self.solver.add(c)
            self.pc.append(c)
            self.model = None
            return d
        # a new decision
        self.pos += 1
        m = self.ensure_model()
        mv = z3.is_true(m.eval(cond, model_completion=True))
        other = z3.Not(cond) if mv else cond
        if self.check(other):
            # both sides feasible: follow the model side, queue the other
            self.alternatives.append(self.decisions + [not mv])
            forced = False
        else:
            forced = True
        self.decisions.append(mv)
        c = cond if mv else z3.Not(cond)
        self.solver.add(c)
        self.pc.append(c)
        return mv

    def fresh_int(self, name, lo=None, hi=None):
        x = z3.Int(name)
        cs = []
        if lo is not None:
            cs.append(x >= lo)
        if hi is not None:
            cs.append(x <= hi)
        if cs:
            self.add(z3.And(*cs) if len(cs) > 1 else cs[0])
        return x

    def fresh_bool(self, name):
        return z3.Bool(name)

    def fresh_byte(self, name, alphabet):
        x = z3.Int(name)
        alphabet = sorted(set(alphabet))
        self.add(z3.Or(*[x == a for a in alphabet]))
        return x

    def concretize(self, x, what='value'):
        """Fork until x is a concrete int (used where shapes must be concrete)."""
        if isinstance(x, bool):
            return int(x)
        if isinstance(x, int):
            return x
        x = z3.simplify(x)
        if z3.is_int_value(x):
            return x.as_long()
        m = self.ensure_model()
        guard = 0
        while True:
            v = self.ensure_model().eval(x, model_completion=True).as_long()
            if self.branch(x == v):
                return v
            guard += 1
            if guard > 4096:
                raise Truncated('concretize(%s) did not converge' % what)

    def new_alloc(self):
        self.alloc_n += 1
        return self.alloc_n

    # ------------------------------------------------------------------ memory
    def load(self, ref):
        v = ref.cell.v
        for idx in ref.path:
            v = child(v, idx)
        return v

    def store(self, ref, val):
        if not ref.path:
            ref.cell.v = val
        else:
            ref.cell.v = update(ref.cell.v, ref.path, val)

    def deref_value(self, v):
        """Follow a reference-like value to the value it points to."""
        while isinstance(v, Ref):
            v = self.load(v)
        return v

    def place_ref(self, fr, place):
        ref = Ref(fr.cells[place.local], ())
        variant = None
        for p in place.proj:
            k = p[0]
            if k == 'field':
                if variant is not None:
                    # a local of a coroutine saved across a suspension point
                    ref = Ref(ref.cell, ref.path + (('sv', variant, p[1]),))
                    variant = None
                else:
                    ref = Ref(ref.cell, ref.path + (p[1],))
            elif k == 'downcast' and isinstance(p[1], int):
                variant = p[1]          # `variant#N`: only coroutine states are printed that way
            elif k == 'deref':
                v = self.load(ref)
                if isinstance(v, Ref):
                    ref = v
                else:
                    # unsized pointee (str, [T], dyn) held by value: pseudo place
                    ref = Ref(Cell(v), ())
            elif k == 'downcast':
                pass
            elif k == 'index':
                i = self.load(Ref(fr.cells[p[1]], ()))
                i = self.concretize(i, 'index')
                ref = Ref(ref.cell, ref.path + (i,))
            elif k == 'cindex':
                if p[2]:
                    n = len(self.load(ref).items)
                    ref = Ref(ref.cell, ref.path + (n - p[1],))
                else:
                    ref = Ref(ref.cell, ref.path + (p[1],))
            else:
                raise EngineError('unsupported projection %r' % (p,))
        return ref

    def read_place(self, fr, place):
        if not place.proj:
            return fr.cells[place.local].v
        return self.load(self.place_ref(fr, place))

    def operand(self, fr, op):
        if op.kind == 'const':
            return self.const_value(fr, op.const)
        return self.read_place(fr, op.place)

    def const_value(self, fr, c):
        k = c.kind
        if k == 'int':
            return c.value
        if k == 'bool':
            return c.value
        if k == 'str':
            return SStr(tuple(c.value), alloc=-1, off=0)
        if k == 'bytes':
            return Ref(Cell(VecVal(tuple(c.value))), ())
        if k == 'char':
            return c.value
        if k == 'unit':
            return UNIT
        if k == 'zst':
            raw = c.raw
            if raw.startswith('{closure@'):
                return Closure(raw, ())
            return FnItem(raw)
        if k == 'fn':
            return FnItem(c.raw)
        if k == 'path':
            return self.const_path(fr, c.raw)
        raise EngineError('const kind %r' % k)

    def const_path(self, fr, raw):
        # promoted constants of the current function
        m = re.search(r'::promoted\[(\d+)\]$', raw)
        if m:
            name = '%s::promoted[%s]' % (fr.fn.name, m.group(1))
            lst = self.prog.fns.get(name)
            if not lst:
                raise EngineError('promoted %r not found' % name)
            return self.eval_const_item(lst[0])
        if raw.endswith('usize>::MAX') or raw in ('core::num::<impl usize>::MAX', 'usize::MAX'):
            return (1 << 64) - 1
        st = mp.strip_generics(raw)
        segs = _split_path(st)
        # enum unit variant?
        if len(segs) >= 2 and segs[-2] in self.prog.enum_index and \
                any(n == segs[-1] for n, _d in self.prog.enum_index[segs[-2]]):
            vi = self.prog.variant_index(segs[-2], segs[-1])
            return Enum(segs[-2], vi, segs[-1])
        # unit / empty tuple struct constants: `const Foo` / `const Foo()`
        base = re.sub(r'\s*(\(\)|\{+\s*\}+)$', '', segs[-1])
        if base in self.prog.src.structs and len(self.prog.src.structs[base]) == 0:
            return Struct(base, ())
        m2 = re.match(r'^(.*)::\{constant#\d+\}$', st)
        # named constants
        for cand in (st, '::'.join(segs[-2:]), segs[-1]):
            lst = self.prog.fns.get(cand)
            if lst and lst[0].kind == 'const':
                return self.eval_const_item(lst[0])
        fn = self.models.const_model(raw, segs)
        if fn is not None:
            return fn
        # an associated constant of a crate type: defined as `<impl at SPAN>::NAME`, used as `Type::NAME`
        if len(segs) >= 2:
            for name, lst in self.prog.fns.items():
                if lst[0].kind != 'const' or not name.endswith('>::' + segs[-1]):
                    continue
                m3 = re.search(r'<impl at (src/[^:]+:\d+:\d+): \d+:\d+>::%s$' % re.escape(segs[-1]), name)
                if m3 and self.prog.src.impl_at(m3.group(1)).get('self_ty') == segs[-2]:
                    return self.eval_const_item(lst[0])
        raise Unmodelled('constant %r' % raw)

    def eval_const_item(self, f):
        f.ensure_parsed()
        if f.blocks:
            return self.call_fn(f, [])
        # `const NAME: T = const VALUE;` items have no body: header carries the value
        m = re.search(r'= const (.*);$', f.header)
        if m:
            return self.const_value(None, mp.parse_const(m.group(1)))
        raise EngineError('cannot evaluate const item %s' % f.name)

    # ------------------------------------------------------------------ arithmetic
    def type_of_operand(self, fr, op):
        if op.kind == 'const':
            return op.const.ty
        pl = op.place
        if not pl.proj:
            return fr.fn.local_types.get(pl.local)
        last = pl.proj[-1]
        if last[0] == 'field':
            return last[2]
        if last[0] == 'deref' and len(pl.proj) == 1:
            t = fr.fn.local_types.get(pl.local, '')
            t = t.strip()
            if t.startswith('&'):
                t = t[1:].strip()
                t = re.sub(r"^'[a-z_0-9]+\s+", '', t)
                if t.startswith('mut '):
                    t = t[4:]
                return t
        return None

    def binop(self, fr, rv, dest_place):
        op = rv.a
        a = self.operand(fr, rv.b)
        b = self.operand(fr, rv.c)
        if op in ('AddWithOverflow', 'SubWithOverflow', 'MulWithOverflow'):
            ty = self.type_of_operand(fr, rv.b) or self.type_of_operand(fr, rv.c)
            if ty not in INT_BITS:
                dt = fr.fn.local_types.get(dest_place.local, '')
                m = re.match(r'^\((\w+), bool\)$', dt)
                ty = m.group(1) if m else None
            if ty not in INT_BITS:
                raise EngineError('cannot type %s' % (rv,))
            lo, hi = int_range(ty)
            if op[0] == 'A':
                r = a + b
            elif op[0] == 'S':
                r = a - b
            else:
                r = a * b
            if is_concrete_int(r):
                ovf = not (lo <= r <= hi)
                if ovf:
                    r = wrap(r, ty)
            else:
                ovf = z3.Or(r < lo, r > hi)
                # the wrapped value is never used after a failed overflow assert
            return Tuple(r, ovf)
        if op in ('Add', 'Sub', 'Mul', 'AddUnchecked', 'SubUnchecked', 'MulUnchecked'):
            ty = self.type_of_operand(fr, rv.b) or self.type_of_operand(fr, rv.c)
            if op[0] == 'A':
                r = a + b
            elif op[0] == 'S':
                r = a - b
            else:
                r = a * b
            if ty in INT_BITS:
                return wrap(r, ty)
            return r
        if op in ('Eq', 'Ne', 'Lt', 'Le', 'Gt', 'Ge'):
            return cmp_scalar(op, a, b)
        if op == 'Div' or op == 'Rem':
            if is_concrete_int(a) and is_concrete_int(b):
                if b == 0:
                    raise Panic('division by zero')
                q = abs(a) // abs(b)
                if (a < 0) != (b < 0):
                    q = -q
                return q if op == 'Div' else a - q * b
            # unsigned only
            return (a / b) if op == 'Div' else (a % b)
        if op in ('BitAnd', 'BitOr', 'BitXor'):
            if isinstance(a, bool) or isinstance(b, bool) or z3.is_bool(a) or z3.is_bool(b):
                if op == 'BitAnd':
                    return sym_and(a, b)
                if op == 'BitOr':
                    return sym_or(a, b)
                return sym_xor(a, b)
            if is_concrete_int(a) and is_concrete_int(b):
                return {'BitAnd': a & b, 'BitOr': a | b, 'BitXor': a ^ b}[op]
            raise Unmodelled('symbolic bit operation %s' % op)
        if op in ('Shl', 'Shr', 'ShlUnchecked', 'ShrUnchecked'):
            if is_concrete_int(a) and is_concrete_int(b):
                ty = self.type_of_operand(fr, rv.b)
                r = (a << b) if op.startswith('Shl') else (a >> b)
                return wrap(r, ty) if ty in INT_BITS else r
            raise Unmodelled('symbolic shift')
        if op == 'Cmp':
            lt = cmp_scalar('Lt', a, b)
            if self.branch(lt):
                return LESS()
            if self.branch(cmp_scalar('Eq', a, b)):
                return EQUAL()
            return GREATER()
        raise Unmodelled('binop %s' % op)

    # ------------------------------------------------------------------ rvalues
    def rvalue(self, fr, rv, dest_place):
        k = rv.kind
        if k == 'use':
            return self.operand(fr, rv.a)
        if k == 'ref' or k == 'rawref':
            pl = rv.a
            if pl.proj and pl.proj[-1][0] == 'deref':
                # reborrow: &(*p)
                base = mp.Place(pl.local, pl.proj[:-1])
                v = self.read_place(fr, base)
                return v
            return self.place_ref(fr, pl)
        if k == 'binop':
            return self.binop(fr, rv, dest_place)
        if k == 'unop':
            a = self.operand(fr, rv.b)
            if rv.a == 'Not':
                if isinstance(a, bool):
                    return not a
                if z3.is_bool(a):
                    return z3.Not(a)
                if is_concrete_int(a):
                    ty = self.type_of_operand(fr, rv.b)
                    return wrap(~a, ty) if ty in INT_BITS else ~a
                raise Unmodelled('Not on %r' % (a,))
            if rv.a == 'Neg':
                return -a
            if rv.a == 'PtrMetadata':
                v = a
                if isinstance(v, SStr):
                    return len(v.b)
                v = self.deref_value(v)
                if isinstance(v, VecVal):
                    return len(v.items)
                if isinstance(v, (SStr, SString)):
                    return len(v.b)
                raise Unmodelled('PtrMetadata of %r' % (v,))
        if k == 'discriminant':
            v = self.read_place(fr, rv.a)
            if isinstance(v, Enum):
                return self.prog.discr_of(v)
            if isinstance(v, Coro):
                return v.state
            raise EngineError('discriminant of non-enum %r in %s' % (v, fr.fn.name))
        if k == 'len':
            v = self.read_place(fr, rv.a)
            v = self.deref_value(v)
            return len(v.items)
        if k == 'cast':
            return self.cast(fr, rv)
        if k == 'tuple':
            return Struct('tuple', [self.operand(fr, o) for o in rv.a])
        if k == 'array':
            return VecVal([self.operand(fr, o) for o in rv.a])
        if k == 'repeat':
            v = self.operand(fr, rv.a)
            m = re.match(r'^(?:const )?(\d+)', rv.b)
            return VecVal([v] * int(m.group(1)))
        if k == 'closure' and rv.a.startswith('{coroutine@'):
            return self.make_coroutine(fr, rv)
        if k == 'closure':
            caps = [self.operand(fr, o) for o in rv.b]
            need = self.closure_ncaptures(rv.a)
            if need is not None and len(caps) < need:
                caps = caps + self.missing_captures(fr, rv, need - len(caps))
            return Closure(rv.a, caps)
        if k == 'aggregate':
            return self.aggregate(fr, rv, dest_place)
        raise EngineError('rvalue kind %r' % k)

    def make_coroutine(self, fr, rv):
        span = re.sub(r'\s*\(#\d+\)\}$', '', rv.a[len('{coroutine@'):]).rstrip('}')
        f = self.prog.by_coroutine.get(span)
        if f is None:
            # `async fn` bodies carry no span in their type: the poll function is a `{closure#N}` of
            # the function that builds the coroutine
            cands = []
            for name, lst in self.prog.fns.items():
                if name.startswith(fr.fn.name + '::{closure#') and name.count('{closure#') == fr.fn.name.count('{closure#') + 1:
                    for g in lst:
                        if g.arg_types and re.match(r'^(?:std::pin::)?Pin<&mut \{async ', g.arg_types[0].strip()) \
                                and g.arg_types[0].strip() not in ['Pin<&mut {async block@%s}>' % k for k in self.prog.by_coroutine]:
                            cands.append(g)
            if len(cands) != 1:
                raise EngineError('cannot find the poll function of coroutine %s (built in %s)' % (span, fr.fn.name))
            f = cands[0]
        caps = [self.operand(fr, o) for o in rv.b]
        f.ensure_parsed()
        # number of upvars the poll function reads: ((*_N).K: T) where _N = copy (_1.0: &mut {async ..})
        m = re.search(r'(_\d+) = (?:copy|move) \(_1\.0: &mut \{async', f.text)
        if m:
            idx = [int(x) for x in re.findall(r'\(\(\*%s\)\.(\d+): ' % re.escape(m.group(1)), f.text)]
            need = (max(idx) + 1) if idx else 0
            if len(caps) < need:
                caps = caps + self.missing_captures(fr, rv, need - len(caps))
        return Coro(span, f, caps)

    def poll_coroutine(self, ref, cx):
        """One resumption of the coroutine held in the cell `ref` points to."""
        co = self.load(ref)
        return self.call_fn(co.fn, [ref, cx])

    def closure_ncaptures(self, span):
        f = self.prog.by_span_closure.get(span)
        if f is None:
            return None
        idx = [int(x) for x in re.findall(r'\(\*?_1\)?\.(\d+): ', f.text)]
        idx += [int(x) for x in re.findall(r'\(_1\.(\d+): ', f.text)]
        return (max(idx) + 1) if idx else 0

    def missing_captures(self, fr, rv, n):
        """rustc's MIR printer zips the *variables* a closure mentions with its capture operands, so
        when several fields of one variable are captured separately the trailing operands are not
        printed.  They are the locals assigned in the current block that nothing else reads."""
        cur = getattr(self, '_cur_block', None)
        if cur is None:
            raise EngineError('closure aggregate with unprinted captures outside a block context')
        blk, upto = cur
        printed = set(o.place.local for o in rv.b if o.kind != 'const' and not o.place.proj)
        text = fr.fn.text
        cands = []
        for st in blk.stmts[:upto]:
            if st.kind != 'assign' or st.place.proj:
                continue
            loc = st.place.local
            if loc in printed or loc in cands:
                continue
            uses = len(re.findall(r'(?<![\w])_%d(?!\d)' % loc, text))
            decl = len(re.findall(r'let (?:mut )?_%d:' % loc, text))
            if uses - decl == 1:
                cands.append(loc)
        cands.sort()
        if len(cands) < n:
            raise EngineError('cannot reconstruct %d unprinted closure captures in %s' % (n, fr.fn.name))
        return [fr.cells[c].v for c in cands[:n]]

    def aggregate(self, fr, rv, dest_place=None):
        path = mp.strip_generics(rv.a)
        segs = _split_path(path)
        vals = [self.operand(fr, o) for o in rv.b]
        if len(segs) >= 2 and segs[-2] in self.prog.enum_index:
            vi = self.prog.variant_index(segs[-2], segs[-1])
            return Enum(segs[-2], vi, segs[-1], vals)
        if len(segs) == 1 and segs[0] not in self.prog.src.structs:
            # bare variant name (`_0 = Equal;`): the destination's type names the enum
            ty = None
            if dest_place is not None:
                if not dest_place.proj:
                    ty = fr.fn.local_types.get(dest_place.local)
                elif dest_place.proj[-1][0] == 'field':
                    ty = dest_place.proj[-1][2]
            en = _last_seg(ty) if ty else None
            if en in self.prog.enum_index and any(n == segs[0] for n, _d in self.prog.enum_index[en]):
                return Enum(en, self.prog.variant_index(en, segs[0]), segs[0], vals)
            cands = [e for e, vs in self.prog.enum_index.items() if any(n == segs[0] for n, _d in vs)]
            if len(cands) == 1:
                return Enum(cands[0], self.prog.variant_index(cands[0], segs[0]), segs[0], vals)
            if cands:
                raise EngineError('ambiguous bare variant %r (dest type %r)' % (segs[0], ty))
        return Struct(segs[-1], vals)

    def cast(self, fr, rv):
        v = self.operand(fr, rv.a)
        ty = rv.b.strip()
        kind = rv.c
        if kind == 'IntToInt':
            if isinstance(v, bool):
                v = 1 if v else 0
            elif z3.is_bool(v):
                v = z3.If(v, z3.IntVal(1), z3.IntVal(0))
            if isinstance(v, Enum):
                v = self.prog.discr_of(v)
            if ty in INT_BITS:
                if is_concrete_int(v):
                    return wrap(v, ty)
                src = self.type_of_operand(fr, rv.a)
                if src in INT_BITS:
                    slo, shi = int_range(src)
                    lo, hi = int_range(ty)
                    if lo <= slo and shi <= hi:
                        return v
                return wrap(v, ty)
            if ty == 'char':
                return v
            return v
        if kind.startswith('PointerCoercion') or kind in ('Subtype', 'PtrToPtr', 'FnPtrToPtr'):
            return v
        if kind in ('PointerExposeProvenance', 'Transmute'):
            if isinstance(v, Ptr):
                return v.alloc * (1 << 40) + v.off
            return v
        if kind == 'PointerWithExposedProvenance':
            return v
        raise Unmodelled('cast kind %s' % kind)

    # ------------------------------------------------------------------ execution
    def call_fn(self, f, args):
        f.ensure_parsed()
        if not f.blocks:
            raise EngineError('function %s has no body' % f.name)
        st = self.stats
        st.fns_used[f.name] = f.sha
        fr = Frame()
        fr.fn = f
        nloc = max(f.local_types.keys()) + 1 if f.local_types else 1
        fr.cells = [Cell() for _ in range(nloc + 1)]
        if len(args) != f.nargs:
            raise EngineError('arity mismatch calling %s: %d vs %d' % (f.name, len(args), f.nargs))
        # zero-sized locals (fn items, capture-less closures, unit) are never assigned in MIR
        zst = getattr(f, '_zst_locals', None)
        if zst is None:
            zst = {}
            for loc, ty in f.local_types.items():
                t = ty.strip()
                m = None
                if re.match(r'^(for<[^>]*> )?(unsafe )?(extern "[^"]*" )?fn\(', t) and t.endswith('}'):
                    # fn item type: `for<'a> fn(&'a mut &str) -> R {path::to::function}`
                    k = t.rfind(' {')
                    if k > 0:
                        m = t[k + 2:-1]
                if m:
                    zst[loc] = ('fn', m.strip())
                elif t == '()':
                    zst[loc] = ('unit', None)
                elif t.startswith('{closure@') and t.endswith('}') and loc > f.nargs:
                    # a capture-less closure is zero-sized too: it may be called without ever being
                    # assigned (closures with captures are assigned before use and overwrite this)
                    zst[loc] = ('closure', t)
            f._zst_locals = zst
        for loc, (kind, path) in zst.items():
            fr.cells[loc].v = FnItem(path) if kind == 'fn' else (Closure(path, ()) if kind == 'closure' else UNIT)
        for i, a in enumerate(args):
            fr.cells[i + 1].v = a
        bname = 'bb0'
        self.depth += 1
        if self.depth > getattr(self, 'max_depth', 0):
            self.max_depth = self.depth
        if self.depth > 200:
            raise Truncated('call depth')
        try:
            while True:
                self.steps += 1
                st.blocks += 1
                if self.steps > self.max_steps:
                    raise Truncated('step bound %d in %s' % (self.max_steps, f.name))
                b = mp.block_parsed(f, bname)
                for si, s in enumerate(b.stmts):
                    if s.kind == 'assign':
                        if s.rv.kind == 'closure':
                            self._cur_block = (b, si)
                        val = self.rvalue(fr, s.rv, s.place)
                        if not s.place.proj:
                            fr.cells[s.place.local].v = val
                        else:
                            self.store(self.place_ref(fr, s.place), val)
                    elif s.kind == 'setdisc':
                        r = self.place_ref(fr, s.place)
                        cur = self.load(r)
                        if not isinstance(cur, Coro):
                            raise EngineError('SetDiscriminant on %r in %s' % (cur, f.name))
                        self.store(r, Coro(cur.span, cur.fn, cur.caps, s.rv, cur.saved))
                t = b.term
                k = t.kind
                if k == 'goto':
                    bname = t.a
                elif k == 'switch':
                    bname = self.do_switch(fr, t)
                elif k == 'call':
                    dest, nxt = t.c, t.d
                    val = self.do_call(fr, t)
                    if nxt is None:
                        raise EngineError('diverging call returned: %s' % t.raw)
                    if dest is not None:
                        if not dest.proj:
                            fr.cells[dest.local].v = val
                        else:
                            self.store(self.place_ref(fr, dest), val)
                    bname = nxt
                elif k == 'return':
                    return fr.cells[0].v
                elif k == 'drop':
                    bname = t.b
                elif k == 'assert':
                    c = self.operand(fr, t.a)
                    ok = c if t.b else sym_not(c)
                    if self.branch(ok):
                        bname = t.d
                    else:
                        raise Panic('MIR assert failed: %s' % t.c, where=f.name)
                elif k == 'unreachable':
                    raise EngineError('reached `unreachable` in %s %s' % (f.name, bname))
                elif k == 'resume':
                    raise EngineError('reached unwind resume in %s' % f.name)
                else:
                    raise EngineError('unsupported terminator %s in %s' % (t.raw, f.name))
        finally:
            self.depth -= 1

    def do_switch(self, fr, t):
        v = self.operand(fr, t.a)
        if isinstance(v, bool):
            v = 1 if v else 0
        if is_concrete_int(v):
            for val, bb in t.b:
                if val == v:
                    return bb
                # unsigned print of negative discriminants (i8 -1 == 255)
                if val >= 128 and v < 0 and (val - 256 == v or val - (1 << 64) == v):
                    return bb
            if t.c is None:
                raise EngineError('switch without otherwise: %s' % t.raw)
            return t.c
        if z3.is_bool(v):
            # [0: bbF, otherwise: bbT]
            tv = self.branch(v)
            iv = 1 if tv else 0
            for val, bb in t.b:
                if val == iv:
                    return bb
            return t.c
        for val, bb in t.b:
            if self.branch(v == val):
                return bb
        return t.c

    # ------------------------------------------------------------------ calls
    def do_call(self, fr, t):
        args = [self.operand(fr, a) for a in t.b]
        callee = t.a
        if not isinstance(callee, str):
            fv = self.operand(fr, callee)
            return self.call_value(fv, args)
        ci = self.prog.resolve_cache.get(callee)
        if ci is None:
            ci = parse_callee(callee)
            self.prog.resolve_cache[callee] = ci
        dest = t.c
        dest_ty = None
        if dest is not None and not dest.proj:
            dest_ty = fr.fn.local_types.get(dest.local)
        return self.dispatch(ci, args, dest_ty)

    def dispatch(self, ci, args, dest_ty=None):
        # 1. harness stubs
        for k in ci.keys:
            st = self.stubs.get(k)
            if st is not None:
                return st(self, args, ci, dest_ty)
        # 2. crate functions
        f = self.lookup_crate_fn(ci, args)
        if f is not None:
            st = self.stubs.get(f.name)
            if st is not None:
                return st(self, args, ci, dest_ty)
            return self.call_fn(f, args)
        # 3. models
        m = self.models.lookup(ci)
        if m is None:
            raise Unmodelled('callee %s  (keys %s)' % (ci.raw, ci.keys))
        return m(self, args, ci, dest_ty)

    def lookup_crate_fn(self, ci, args):
        prog = self.prog
        if ci.trait is not None or (ci.self_ty is not None and ci.raw.startswith('<')):
            st = _last_seg(ci.self_ty)
            if args and ci.trait in ('Iterator', 'DoubleEndedIterator', 'IntoIterator'):
                # a harness stub handed out a model iterator where the crate's own iterator type is declared
                rv = args[0]
                for _ in range(3):
                    if isinstance(rv, Ref):
                        rv = self.load(rv)
                if isinstance(rv, IterVal):
                    return None
            f = prog.find_method(st, ci.method, ci.trait)
            if f is not None:
                return f
            # dynamic dispatch on the receiver's runtime type
            if args:
                recv = self.deref_value(args[0])
                while isinstance(recv, Struct) and recv.name in ('Box', 'RefCell', 'RefMut', 'Rc'):
                    recv = self.deref_value(recv.f[0])
                if isinstance(recv, (Struct, Enum)):
                    f = prog.find_method(recv.name, ci.method, ci.trait)
                    if f is not None:
                        return f
            return None
        if ci.self_ty is not None and not ci.self_ty.startswith('<impl'):
            f = prog.find_method(ci.self_ty, ci.method, None)
            if f is not None:
                return f
            # tuple-struct / variant constructor shims are handled by models.ctor
        if ci.self_ty is None or ci.self_ty not in ('Vec', 'Option', 'Result', 'HashMap', 'String', 'str'):
            f = prog.find_free(ci.segs)
            if f is not None and (len(ci.segs) == 1 or _module_compatible(f.name, ci.segs)):
                return f
        return None

    def call_value(self, fv, args):
        """Call a closure / fn item value with already-spread arguments."""
        fv = self.deref_value(fv) if isinstance(fv, Ref) else fv
        if isinstance(fv, Closure):
            f = self.prog.by_span_closure.get(fv.span)
            if f is None:
                raise EngineError('closure %s not in dump' % fv.span)
            f.ensure_parsed()
            # first parameter is the closure itself: by ref, by mut ref or by value
            self_ty = f.arg_types[0].strip()
            if self_ty.startswith('&'):
                selfv = Ref(Cell(Struct('closure', fv.captures)), ())
            else:
                selfv = Struct('closure', fv.captures)
            return self.call_fn(f, [selfv] + list(args))
        if isinstance(fv, FnItem):
            ci = parse_callee(fv.path)
            return self.dispatch(ci, list(args), None)
        if callable(fv):
            return fv(self, list(args))
        raise EngineError('call of non-function value %r' % (fv,))


def _module_compatible(defname, segs):
    dsegs = _split_path(defname)
    k = 0
    while k < min(len(dsegs), len(segs)) and dsegs[-1 - k] == segs[-1 - k]:
        k += 1
    return k >= 1 and (k == len(dsegs) or k == len(segs))


# ---------------------------------------------------------------------- value helpers

def child(v, idx):
    if isinstance(v, (Struct, Enum)):
        return v.f[idx]
    if isinstance(v, VecVal):
        return v.items[idx]
    if isinstance(v, MapVal):
        return v.entries[idx]
    if isinstance(v, Closure):
        return v.captures[idx]
    if isinstance(v, Coro):
        if isinstance(idx, tuple):
            return v.saved.get((idx[1], idx[2]))
        return v.caps[idx]
    if isinstance(v, Ref) and idx == 0:
        # Box<T> -> Unique<T> -> NonNull<T> -> *const T : single-field pointer wrappers
        return v
    raise EngineError('projection .%r into %r' % (idx, v))


def update(v, path, newv):
    if not path:
        return newv
    idx = path[0]
    rest = path[1:]
    if isinstance(v, Struct):
        f = list(v.f)
        f[idx] = update(f[idx], rest, newv)
        return Struct(v.name, f)
    if isinstance(v, Enum):
        f = list(v.f)
        f[idx] = update(f[idx], rest, newv)
        return Enum(v.name, v.v, v.vname, f)
    if isinstance(v, VecVal):
        it = list(v.items)
        it[idx] = update(it[idx], rest, newv)
        return VecVal(it)
    if isinstance(v, MapVal):
        it = list(v.entries)
        it[idx] = update(it[idx], rest, newv)
        return MapVal(it, v.kind)
    if isinstance(v, Closure):
        f = list(v.captures)
        f[idx] = update(f[idx], rest, newv)
        return Closure(v.span, f)
    if isinstance(v, Coro):
        if isinstance(idx, tuple):
            sv = dict(v.saved)
            sv[(idx[1], idx[2])] = update(sv.get((idx[1], idx[2])), rest, newv)
            return Coro(v.span, v.fn, v.caps, v.state, sv)
        c = list(v.caps)
        c[idx] = update(c[idx], rest, newv)
        return Coro(v.span, v.fn, c, v.state, v.saved)
    if v is None:
        # field-wise initialisation of an uninitialised aggregate
        f = [None] * (idx + 1)
        f[idx] = update(None, rest, newv)
        return Struct('?', f)
    raise EngineError('update .%r in %r' % (idx, v))


def wrap(v, ty):
    lo, hi = int_range(ty)
    if is_concrete_int(v):
        if lo <= v <= hi:
            return v
        m = 1 << INT_BITS[ty]
        v = v % m
        if ty[0] == 'i' and v > hi:
            v -= m
        return v
    m = 1 << INT_BITS[ty]
    if ty[0] == 'u':
        return v % m
    return ((v - lo) % m) + lo


def _float_cmp(op, a, b):
    """IEEE comparison of the FloatVal model (strmodels): NaN compares false, -0 == +0."""
    def val(f):
        return f.v
    x, y = val(a), val(b)
    for f in (a, b):
        if f.kind == 'py' and f.v != f.v:
            return op == 'Ne'
    if a.kind == 'py' and b.kind == 'py':
        return {'Eq': x == y, 'Ne': x != y, 'Lt': x < y, 'Le': x <= y, 'Gt': x > y, 'Ge': x >= y}[op]
    for f in (a, b):
        if f.kind == 'py' and (f.v in (float('inf'), float('-inf')) or f.v != int(f.v)):
            raise Unmodelled('mixed symbolic/concrete float comparison')
    x = int(x) if a.kind == 'py' else x
    y = int(y) if b.kind == 'py' else y
    return cmp_scalar(op, x, y)


def cmp_scalar(op, a, b):
    if hasattr(a, 'negzero') and hasattr(b, 'negzero'):
        return _float_cmp(op, a, b)
    if isinstance(a, Enum) and isinstance(b, Enum):
        a, b = a.v, b.v
    if isinstance(a, bool) and not isinstance(b, bool) and not is_sym(b):
        a = int(a)
    if op == 'Eq':
        if (isinstance(a, bool) or z3.is_bool(a)) and (isinstance(b, bool) or z3.is_bool(b)):
            if isinstance(a, bool) and isinstance(b, bool):
                return a == b
            if isinstance(a, bool):
                return b if a else z3.Not(b)
            if isinstance(b, bool):
                return a if b else z3.Not(a)
        return a == b
    if op == 'Ne':
        r = cmp_scalar('Eq', a, b)
        return (not r) if isinstance(r, bool) else z3.Not(r)
    if op == 'Lt':
        return a < b
    if op == 'Le':
        return a <= b
    if op == 'Gt':
        return a > b
    if op == 'Ge':
        return a >= b
    raise EngineError(op)


def sym_not(a):
    if isinstance(a, bool):
        return not a
    return z3.Not(a)


def sym_and(a, b):
    if isinstance(a, bool):
        return b if a else False
    if isinstance(b, bool):
        return a if b else False
    return z3.And(a, b)


def sym_or(a, b):
    if isinstance(a, bool):
        return True if a else b
    if isinstance(b, bool):
        return True if b else a
    return z3.Or(a, b)


def sym_xor(a, b):
    if isinstance(a, bool) and isinstance(b, bool):
        return a != b
    if isinstance(a, bool):
        return sym_not(b) if a else b
    if isinstance(b, bool):
        return sym_not(a) if b else a
    return z3.Xor(a, b)


# ---------------------------------------------------------------------- exploration

class PathOutcome:
    __slots__ = ('kind', 'value', 'interp', 'decisions')


def explore(prog, models, run_path, stats=None, max_paths=1000000, max_steps=200000,
            setup=None, time_limit=None):
    """Enumerate all feasible paths of `run_path(I)` (a Python function that builds the
    symbolic inputs, calls into the MIR and checks the post-condition).
    Yields (I, kind, value) with kind in {'ok','panic','exit'}; infeasible paths are
    skipped.  Raises Truncated/EngineError upward (fail closed)."""
    stats = stats if stats is not None else PathStats()
    if time_limit is None:
        import os
        time_limit = float(os.environ.get('VERIF_TASK_TIMEOUT', '1500'))
    solver = z3.Solver()
    work = [[]]
    t0 = time.time()
    while work:
        prefix = work.pop()
        if stats.paths >= max_paths:
            raise Truncated('path bound %d' % max_paths)
        if time_limit is not None and time.time() - t0 > time_limit:
            raise Truncated('time limit %ss' % time_limit)
        solver.push()
        I = Interp(prog, models, prefix, stats=stats, solver=solver, max_steps=max_steps)
        if setup is not None:
            setup(I)
        try:
            try:
                val = run_path(I)
                kind = 'ok'
            except Panic as p:
                val = p
                kind = 'panic'
            except ProcessExit as e:
                val = e
                kind = 'exit'
            except Infeasible:
                kind = None
            if kind is not None:
                stats.paths += 1
                yield I, kind, val
            work.extend(I.alternatives)
        finally:
            solver.pop()
