"""Build pipeline shared by all checks: MIR dump and real binary, both regenerated from
/repo's *current working tree* and cached by the SHA-256 of the sources they came from.
"""
import fcntl
import hashlib
import json
import os
import shutil
import subprocess
import sys
import time

VERIF = os.path.dirname(os.path.dirname(os.path.abspath(__file__)))
REPO = os.environ.get('VERIF_REPO', '/repo')
# the cache of dumps and binaries (per tree hash); tools that run several trees in parallel give each
# worker its own (VERIF_CACHE_DIR) so that their cargo builds do not queue on one lock
CACHE = os.environ.get('VERIF_CACHE_DIR') or os.path.join(VERIF, '.cache')
SCRATCH_BASE = os.environ.get('VERIF_SCRATCH', '/var/tmp')

ENV = dict(os.environ)
ENV['CARGO_NET_OFFLINE'] = 'true'


class BuildError(Exception):
    pass


def tree_sha(repo=REPO):
    h = hashlib.sha256()
    files = ['Cargo.toml', 'Cargo.lock']
    for dp, dn, fn in os.walk(os.path.join(repo, 'src')):
        dn.sort()
        for f in sorted(fn):
            files.append(os.path.relpath(os.path.join(dp, f), repo))
    for rel in files:
        p = os.path.join(repo, rel)
        if os.path.exists(p):
            h.update(rel.encode())
            h.update(b'\0')
            h.update(open(p, 'rb').read())
            h.update(b'\0')
    return h.hexdigest()[:20]


class _Lock:
    def __init__(self, name):
        os.makedirs(CACHE, exist_ok=True)
        self.path = os.path.join(CACHE, name + '.lock')

    def __enter__(self):
        self.f = open(self.path, 'w')
        fcntl.flock(self.f, fcntl.LOCK_EX)
        return self

    def __exit__(self, *a):
        fcntl.flock(self.f, fcntl.LOCK_UN)
        self.f.close()


def _copy_tree(repo, dst):
    os.makedirs(dst, exist_ok=True)
    for f in ('Cargo.toml', 'Cargo.lock'):
        shutil.copy2(os.path.join(repo, f), os.path.join(dst, f))
    shutil.copytree(os.path.join(repo, 'src'), os.path.join(dst, 'src'))


def _prune(d, keep=14):
    try:
        ents = [(os.path.getmtime(os.path.join(d, e)), e) for e in os.listdir(d)]
    except FileNotFoundError:
        return
    ents.sort(reverse=True)
    for _t, e in ents[keep:]:
        shutil.rmtree(os.path.join(d, e), ignore_errors=True)


def mir_dump(repo=REPO, want_bin=True):
    """Returns the directory holding lib.mir, bin.mir and a copy of src/ for this tree."""
    sha = tree_sha(repo)
    out = os.path.join(CACHE, 'dumps', sha)
    ok = os.path.join(out, 'OK')
    if os.path.exists(ok):
        os.utime(out)
        return out
    with _Lock('mir'):
        if os.path.exists(ok):
            return out
        scratch = os.path.join(SCRATCH_BASE, 'bwverif.mir.%s.%d' % (sha, os.getpid()))
        shutil.rmtree(scratch, ignore_errors=True)
        try:
            _copy_tree(repo, scratch)
            for dp, _dn, fn in os.walk(os.path.join(scratch, 'src')):
                for f in fn:
                    os.utime(os.path.join(dp, f))
            env = dict(ENV)
            env['CARGO_TARGET_DIR'] = os.path.join(CACHE, 'target-mir')
            os.makedirs(out, exist_ok=True)
            for kind, args in (('lib', ['--lib']), ('bin', ['--bin', 'blockwatch'])):
                if kind == 'bin' and not want_bin:
                    continue
                os.utime(os.path.join(scratch, 'src', 'lib.rs' if kind == 'lib' else 'main.rs'))
                cmd = ['cargo', '+nightly', 'rustc', '--offline'] + args + [
                    '--', '-Zunpretty=mir', '-C', 'debug-assertions=off', '-C', 'overflow-checks=on']
                p = subprocess.run(cmd, cwd=scratch, env=env, stdout=subprocess.PIPE, stderr=subprocess.PIPE)
                if p.returncode != 0 or not p.stdout.strip():
                    raise BuildError('MIR dump (%s) failed:\n%s' % (kind, p.stderr.decode(errors='replace')[-3000:]))
                with open(os.path.join(out, kind + '.mir'), 'wb') as f:
                    f.write(p.stdout)
            shutil.rmtree(os.path.join(out, 'src'), ignore_errors=True)
            shutil.copytree(os.path.join(scratch, 'src'), os.path.join(out, 'src'))
            open(ok, 'w').write(sha)
        finally:
            shutil.rmtree(scratch, ignore_errors=True)
        _prune(os.path.join(CACHE, 'dumps'))
    return out


def real_binary(repo=REPO, release=False):
    """Builds the real blockwatch binary from the current tree; returns its path."""
    sha = tree_sha(repo)
    prof = 'release' if release else 'debug'
    out = os.path.join(CACHE, 'bins', sha + '-' + prof)
    binp = os.path.join(out, 'blockwatch')
    if os.path.exists(binp):
        os.utime(out)
        return binp
    with _Lock('bin-' + prof):
        if os.path.exists(binp):
            return binp
        # the scratch path carries the tree's hash and every source file gets a fresh mtime: cargo decides
        # freshness by (package path, source mtimes), and a copy that keeps old mtimes in a path an
        # earlier build used (process ids are reused) would be taken for up to date - the binary of
        # ANOTHER tree would then be filed under this hash
        scratch = os.path.join(SCRATCH_BASE, 'bwverif.bin.%s.%d' % (sha, os.getpid()))
        shutil.rmtree(scratch, ignore_errors=True)
        try:
            _copy_tree(repo, scratch)
            for dp, _dn, fn in os.walk(os.path.join(scratch, 'src')):
                for f in fn:
                    os.utime(os.path.join(dp, f))
            env = dict(ENV)
            tdir = os.path.join(CACHE, 'target-bin')
            env['CARGO_TARGET_DIR'] = tdir
            cmd = ['cargo', 'build', '--offline', '--bin', 'blockwatch'] + (['--release'] if release else [])
            t_build = time.time() - 1
            p = subprocess.run(cmd, cwd=scratch, env=env, stdout=subprocess.PIPE, stderr=subprocess.PIPE)
            if p.returncode != 0:
                raise BuildError('cargo build failed:\n%s' % p.stderr.decode(errors='replace')[-3000:])
            os.makedirs(out, exist_ok=True)
            built = os.path.join(tdir, prof, 'blockwatch')
            if os.path.getmtime(built) < t_build:
                raise BuildError('cargo did not relink the binary for this tree (stale %s)' % built)
            shutil.copy2(built, binp + '.tmp')
            subprocess.run(['strip', binp + '.tmp'], stdout=subprocess.DEVNULL, stderr=subprocess.DEVNULL)
            os.rename(binp + '.tmp', binp)
        finally:
            shutil.rmtree(scratch, ignore_errors=True)
        _prune(os.path.join(CACHE, 'bins'))
    return binp


_PROG = None


def load_program(repo=REPO, want_bin=True):
    global _PROG
    if _PROG is not None:
        return _PROG
    from . import interp, srcinfo
    d = mir_dump(repo, want_bin)
    texts = [open(os.path.join(d, 'lib.mir'), encoding='utf-8').read()]
    bp = os.path.join(d, 'bin.mir')
    if want_bin and os.path.exists(bp):
        texts.append(open(bp, encoding='utf-8').read())
    si = srcinfo.SrcInfo(d)
    _PROG = interp.Program(texts, si)
    _PROG.dump_dir = d
    return _PROG


def write_evidence(prop, ev):
    d = os.path.join(VERIF, 'evidence')
    if os.path.realpath(REPO) != '/repo':
        # runs against a scratch worktree (seed matrix, refactoring trials) must not overwrite the
        # evidence of /repo itself
        d = os.path.join(SCRATCH_BASE, 'bwverif.evidence.scratch')
    os.makedirs(d, exist_ok=True)
    p = os.path.join(d, prop + '.json')
    tmp = p + '.tmp.%d' % os.getpid()
    with open(tmp, 'w') as f:
        json.dump(ev, f, indent=1, sort_keys=True, default=str)
    os.rename(tmp, p)
    return p
