"""Futures, pinning and the tokio pieces the crate uses, for the coroutine state machines of the
MIR dump (async fn / async block bodies are ordinary functions `poll(Pin<&mut Coroutine>, &mut
Context) -> Poll<T>` there and are interpreted like any other function).

Scheduling model (stated in every evidence file that uses it): a spawned task runs when the
JoinSet is asked for the next result, to completion, and **which** pending task completes next is
a parameter of the run (`I.task_order`, like the hash-map iteration order) — so "every relative
completion order" is a quantifier of the harness.  Tasks of the crate share no mutable state
(each builds its own interpreter / request), so running one task atomically loses no behaviour of
the property; the interleaving *inside* tasks, worker threads and CPU affinity are outside.
A panic inside a task becomes the JoinError tokio reports.
"""
from .values import *
from .models import reg, Some, NONE, Ok, Err


def Ready(v):
    return Enum('Poll', 0, 'Ready', (v,))


PENDING = Enum('Poll', 1, 'Pending', ())


def future_cell(I, fut):
    """The (cell, path) reference behind any number of &mut / Pin / Box layers around a future."""
    r = fut
    while isinstance(r, Ref):
        v = I.load(r)
        if isinstance(v, Ref):
            r = v
        else:
            return r, v
    # a future held by value (moved into a local): give it a cell of its own
    c = Cell(r)
    return Ref(c, ()), r


def poll_once(I, fut, cx):
    ref, v = future_cell(I, fut)
    if isinstance(v, Coro):
        return I.poll_coroutine(ref, cx)
    if isinstance(v, ReadyFut):
        return Ready(v.value)
    if isinstance(v, JoinNext):
        return v.poll(I, cx)
    if callable(getattr(v, 'poll', None)):
        return v.poll(I, cx)
    raise Unmodelled('poll of %r' % (v,))


def run_to_completion(I, fut, cx=None, what='future'):
    cx = cx if cx is not None else Opaque('Context')
    ref, _v = future_cell(I, fut)
    for _ in range(10000):
        r = poll_once(I, ref, cx)
        if r.v == 0:
            return r.f[0]
        # Pending: only stub futures could make progress later, and they are always ready
        raise EngineError('%s is pending with nothing left to wake it' % what)
    raise Truncated('poll bound')


@reg('Future::poll')
def _future_poll(I, a, ci, dt):
    return poll_once(I, a[0], a[1])


@reg('IntoFuture::into_future')
def _into_future(I, a, ci, dt):
    return a[0]


@reg('Box::pin', 'Pin::new', 'Pin::new_unchecked', 'Pin::as_mut', 'Pin::get_mut', 'Pin::into_inner', 'Pin::get_unchecked_mut',
     'Pin::map_unchecked_mut', 'Pin::as_ref', 'Pin::get_ref')
def _pin(I, a, ci, dt):
    if ci.method == 'pin':
        return Ref(Cell(a[0]), ())
    return a[0]


# ------------------------------------------------------------------ tokio

class JoinNext:
    """The future returned by JoinSet::join_next()."""
    __slots__ = ('set_ref',)

    def __init__(self, set_ref):
        self.set_ref = set_ref

    def poll(self, I, cx):
        js = I.load(self.set_ref)
        tasks = list(js.f[0].items)
        if not tasks:
            return Ready(NONE)
        order = getattr(I, 'task_order', None)
        k = 0
        if order is not None:
            k = order(len(tasks), js.f[1])
        fut = tasks.pop(k)
        I.store(self.set_ref, Struct('JoinSet', (VecVal(tasks), js.f[1] + 1)))
        try:
            out = run_to_completion(I, fut, cx, 'spawned task')
        except Panic as e:
            return Ready(Some(Err(Opaque('JoinError', {'panic': e.msg}))))
        return Ready(Some(Ok(out)))


@reg('JoinSet::new')
def _js_new(I, a, ci, dt):
    return Struct('JoinSet', (VecVal(()), 0))


@reg('JoinSet::spawn', 'JoinSet::spawn_local', 'JoinSet::spawn_on')
def _js_spawn(I, a, ci, dt):
    js = I.load(a[0])
    fut = a[1]
    cell = fut if isinstance(fut, Ref) else Ref(Cell(fut), ())
    I.store(a[0], Struct('JoinSet', (VecVal(js.f[0].items + (cell,)), js.f[1])))
    log = getattr(I, 'spawn_log', None)
    if log is not None:
        log.append(cell)
    return Opaque('AbortHandle')


@reg('JoinSet::join_next')
def _js_join_next(I, a, ci, dt):
    return JoinNext(a[0])


@reg('JoinSet::len')
def _js_len(I, a, ci, dt):
    return len(I.load(a[0]).f[0].items)


@reg('JoinSet::is_empty')
def _js_is_empty(I, a, ci, dt):
    return len(I.load(a[0]).f[0].items) == 0


@reg('JoinSet::abort_all', 'JoinSet::shutdown', 'JoinSet::detach_all')
def _js_abort(I, a, ci, dt):
    js = I.load(a[0])
    I.store(a[0], Struct('JoinSet', (VecVal(()), js.f[1])))
    return ReadyFut(UNIT) if ci.method == 'shutdown' else UNIT


@reg('Runtime::new')
def _rt_new(I, a, ci, dt):
    return Ok(Struct('Runtime', ()))


@reg('Runtime::block_on', 'Handle::block_on')
def _rt_block_on(I, a, ci, dt):
    return run_to_completion(I, a[1], None, 'block_on future')


@reg('task::spawn', 'tokio::spawn', 'Runtime::spawn')
def _tokio_spawn(I, a, ci, dt):
    fut = a[-1]
    # a detached task: run eagerly, the handle is ready with its output
    try:
        out = run_to_completion(I, fut, None, 'spawned task')
    except Panic as e:
        return ReadyFut(Err(Opaque('JoinError', {'panic': e.msg})))
    return ReadyFut(Ok(out))


@reg('task::yield_now')
def _yield_now(I, a, ci, dt):
    return ReadyFut(UNIT)


# ------------------------------------------------------------------ the machine

@reg('available_parallelism', 'thread::available_parallelism')
def _available_parallelism(I, a, ci, dt):
    """The number of cores is an input of the run: one symbolic value in [1, 16] per path."""
    n = getattr(I, '_cores', None)
    if n is None:
        n = I.fresh_int('cores', 1, 16)
        I._cores = n
    return Ok(Struct('NonZero', (n,)))


@reg('NonZero::get', 'NonZeroUsize::get')
def _nonzero_get(I, a, ci, dt):
    v = a[0]
    while isinstance(v, Ref):
        v = I.load(v)
    return v.f[0]


# tokio::runtime::Builder: the configuration that matters for behaviour is the worker count
# (tokio asserts `worker_threads > 0`) and, for `max_blocking_threads`, the same assertion.
@reg('Builder::new_multi_thread', 'Builder::new_current_thread')
def _rtb_new(I, a, ci, dt):
    return Struct('RuntimeBuilder', (ci.method, None))


def _rtb_self(I, v):
    r = v
    while isinstance(I.load(r) if isinstance(r, Ref) else r, Ref):
        r = I.load(r)
    return r


@reg('Builder::worker_threads', 'Builder::max_blocking_threads')
def _rtb_workers(I, a, ci, dt):
    n = a[1]
    if I.branch(n == 0) if is_sym(n) else n == 0:
        raise Panic('Worker threads cannot be set to 0' if ci.method == 'worker_threads' else 'Max blocking threads cannot be set to 0')
    return a[0]


@reg('Builder::enable_all', 'Builder::enable_io', 'Builder::enable_time', 'Builder::thread_name', 'Builder::thread_stack_size',
     'Builder::thread_keep_alive', 'Builder::global_queue_interval', 'Builder::event_interval')
def _rtb_opt(I, a, ci, dt):
    return a[0]


@reg('Builder::build')
def _rtb_build(I, a, ci, dt):
    return Ok(Struct('Runtime', ()))
