"""Information read from the Rust *source* that the MIR text refers to but does not
spell out: struct field names (in declaration order), enum variants (order, explicit
discriminants, field names) and the header of every `impl` block / derive named in
the MIR by its span (`<impl at src/x.rs:L:C: L:C>`).
Regenerated from the current tree on every run, never hard-coded.
"""
import os
import re


def _blank_comments_and_strings(src):
    """Replace comments and string/char literal bodies by spaces, keeping offsets."""
    out = list(src)
    i = 0
    n = len(src)
    while i < n:
        c = src[i]
        if src.startswith('//', i):
            j = src.find('\n', i)
            if j < 0:
                j = n
            for k in range(i, j):
                out[k] = ' '
            i = j
        elif src.startswith('/*', i):
            depth = 1
            j = i + 2
            while j < n and depth:
                if src.startswith('/*', j):
                    depth += 1; j += 2
                elif src.startswith('*/', j):
                    depth -= 1; j += 2
                else:
                    j += 1
            for k in range(i, j):
                if out[k] != '\n':
                    out[k] = ' '
            i = j
        elif c == 'r' and re.match(r'r#*"', src[i:i + 8]) and (i == 0 or not (src[i - 1].isalnum() or src[i - 1] == '_')):
            m = re.match(r'r(#*)"', src[i:])
            closer = '"' + m.group(1)
            j = src.find(closer, i + m.end())
            j = n if j < 0 else j + len(closer)
            for k in range(i + m.end(), j - len(closer)):
                if out[k] != '\n':
                    out[k] = ' '
            i = j
        elif c == '"':
            j = i + 1
            while j < n and src[j] != '"':
                if src[j] == '\\':
                    j += 1
                j += 1
            for k in range(i + 1, j):
                if out[k] != '\n':
                    out[k] = ' '
            i = j + 1
        elif c == "'":
            # char literal or lifetime
            m = re.match(r"'(\\.[^']*|[^'\\])'", src[i:i + 12])
            if m:
                for k in range(i + 1, i + m.end() - 1):
                    out[k] = ' '
                i += m.end()
            else:
                i += 1
        else:
            i += 1
    return ''.join(out)


def _match_brace(s, i, o='{', c='}'):
    depth = 0
    n = len(s)
    j = i
    while j < n:
        if s[j] == o:
            depth += 1
        elif s[j] == c:
            depth -= 1
            if depth == 0:
                return j
        j += 1
    return -1


def _split_top_commas(s):
    out = []
    depth = 0
    cur = []
    i = 0
    while i < len(s):
        c = s[i]
        if c in '([{<':
            depth += 1
        elif c in ')]}':
            depth -= 1
        elif c == '>' and not (i > 0 and s[i - 1] in '-='):
            depth -= 1
        if c == ',' and depth == 0:
            out.append(''.join(cur))
            cur = []
        else:
            cur.append(c)
        i += 1
    if ''.join(cur).strip():
        out.append(''.join(cur))
    return out


_ATTR_RE = re.compile(r'#\[[^\]]*\]')


def _field_names(body):
    names = []
    for part in _split_top_commas(body):
        p = _ATTR_RE.sub(' ', part).strip()
        if not p:
            continue
        m = re.match(r'^(?:pub(?:\([^)]*\))?\s+)?([A-Za-z_][A-Za-z0-9_]*)\s*:', p)
        if m:
            names.append(m.group(1))
    return names


class SrcInfo:
    def __init__(self, root):
        self.root = root
        self.files = {}      # rel path -> (raw, blanked)
        self.structs = {}    # name -> [field names] (tuple structs: ['0','1',..])
        self.enums = {}      # name -> [(variant, discr, [field names])]
        self.impls = {}      # 'src/x.rs:L:C' -> dict(trait=..., self_ty=..., derive=bool)
        for dp, _dn, fn in os.walk(os.path.join(root, 'src')):
            for f in fn:
                if f.endswith('.rs'):
                    p = os.path.join(dp, f)
                    rel = os.path.relpath(p, root)
                    raw = open(p, encoding='utf-8').read()
                    self.files[rel] = (raw, _blank_comments_and_strings(raw))
        for rel, (raw, bl) in self.files.items():
            self._scan_items(rel, raw, bl)

    # ------------------------------------------------------------------ items
    def _scan_items(self, rel, raw, bl):
        for m in re.finditer(r'\bstruct\s+([A-Za-z_][A-Za-z0-9_]*)', bl):
            name = m.group(1)
            j = m.end()
            # skip generics
            while j < len(bl) and bl[j].isspace():
                j += 1
            if j < len(bl) and bl[j] == '<':
                j = _match_brace(bl, j, '<', '>') + 1
            k = j
            while k < len(bl) and bl[k].isspace():
                k += 1
            if k < len(bl) and bl[k] == '(':
                e = _match_brace(bl, k, '(', ')')
                n = len([x for x in _split_top_commas(bl[k + 1:e]) if x.strip()])
                self.structs.setdefault(name, [str(i) for i in range(n)])
                continue
            # where-clause / brace
            b = bl.find('{', k)
            s = bl.find(';', k)
            if b < 0 or (0 <= s < b):
                self.structs.setdefault(name, [])
                continue
            e = _match_brace(bl, b)
            self.structs.setdefault(name, _field_names(bl[b + 1:e]))
        for m in re.finditer(r'\benum\s+([A-Za-z_][A-Za-z0-9_]*)', bl):
            name = m.group(1)
            b = bl.find('{', m.end())
            if b < 0:
                continue
            e = _match_brace(bl, b)
            variants = []
            nextd = 0
            for part in _split_top_commas(bl[b + 1:e]):
                p = _ATTR_RE.sub(' ', part).strip()
                if not p:
                    continue
                vm = re.match(r'^([A-Za-z_][A-Za-z0-9_]*)\s*(.*)$', p, re.S)
                if not vm:
                    continue
                vname, rest = vm.group(1), vm.group(2).strip()
                fields = []
                d = nextd
                if rest.startswith('{'):
                    fields = _field_names(rest[1:_match_brace(rest, 0)])
                elif rest.startswith('('):
                    ee = _match_brace(rest, 0, '(', ')')
                    fields = [str(i) for i in range(len([x for x in _split_top_commas(rest[1:ee]) if x.strip()]))]
                    rest = rest[ee + 1:].strip()
                dm = re.match(r'^=\s*(-?\d+)', rest)
                if dm:
                    d = int(dm.group(1))
                variants.append((vname, d, fields))
                nextd = d + 1
            self.enums.setdefault(name, variants)

    # ------------------------------------------------------------------ impl spans
    def impl_at(self, span):
        """span = 'src/x.rs:L:C' (start). Returns dict(trait, self_ty, derive)."""
        if span in self.impls:
            return self.impls[span]
        m = re.match(r'^(.*):(\d+):(\d+)$', span)
        rel, line, col = m.group(1), int(m.group(2)), int(m.group(3))
        raw, bl = self.files[rel]
        lines = bl.split('\n')
        off = sum(len(x) + 1 for x in lines[:line - 1]) + (col - 1)
        tail = bl[off:]
        res = None
        if tail.startswith('impl'):
            b = tail.find('{')
            hdr = tail[4:b].strip()
            if hdr.startswith('<'):
                hdr = hdr[_match_brace(hdr, 0, '<', '>') + 1:].strip()
            # strip where clause
            hdr = re.split(r'\bwhere\b', hdr)[0].strip()
            parts = re.split(r'\s+for\s+', hdr)
            if len(parts) == 2:
                res = dict(trait=_last_seg(parts[0]), self_ty=_last_seg(parts[1]), derive=False)
            else:
                res = dict(trait=None, self_ty=_last_seg(parts[0]), derive=False)
        else:
            # inside #[derive(...)] : the span text is the derive name; the type is the
            # next struct/enum item
            dm = re.match(r'^([A-Za-z_][A-Za-z0-9_:]*)', tail)
            derive = dm.group(1) if dm else '?'
            im = re.search(r'\b(?:struct|enum)\s+([A-Za-z_][A-Za-z0-9_]*)', tail)
            res = dict(trait=_last_seg(derive), self_ty=im.group(1) if im else None, derive=True)
        self.impls[span] = res
        return res


def _last_seg(t):
    t = t.strip()
    # drop generics
    out = []
    depth = 0
    for i, c in enumerate(t):
        if c == '<':
            depth += 1
        elif c == '>' and not (i > 0 and t[i - 1] in '-='):
            depth -= 1
        elif depth == 0:
            out.append(c)
    t = ''.join(out).strip()
    t = t.lstrip('&').strip()
    if t.startswith('mut '):
        t = t[4:]
    return t.split('::')[-1].strip()
