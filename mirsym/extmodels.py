"""Models of third-party crates' data accessors (unidiff, similar ...).
Field orders are the declaration orders in the pinned crate sources (checked by
tools/check_ext_layout.py against the registry copy at setup time)."""
from .values import *
from .models import reg, as_sstr, bytes_equal, new_string, opt

# unidiff 0.4.0
LINE_FIELDS = ['source_line_no', 'target_line_no', 'diff_line_no', 'line_type', 'value']
HUNK_FIELDS = ['added', 'removed', 'source_start', 'source_length', 'target_start', 'target_length',
               'section_header', 'lines', 'source', 'target']
PFILE_FIELDS = ['source_file', 'source_timestamp', 'target_file', 'target_timestamp', 'hunks']


def mk_line(I, kind, src_no, tgt_no, value=b'', diff_line_no=0):
    return Struct('Line', (opt(src_no), opt(tgt_no), diff_line_no,
                           new_string(I, kind), new_string(I, value)))


def mk_hunk(I, source_start, source_length, target_start, target_length, lines):
    added = sum(1 for l in lines if l.f[3].b == (43,))
    removed = sum(1 for l in lines if l.f[3].b == (45,))
    return Struct('Hunk', (added, removed, source_start, source_length, target_start, target_length,
                           new_string(I, b''), VecVal(lines), VecVal(()), VecVal(())))


def mk_patched_file(I, source_file, target_file, hunks):
    return Struct('PatchedFile', (new_string(I, source_file), NONE, new_string(I, target_file), NONE,
                                  VecVal(hunks)))


def _field(r, i):
    return Ref(r.cell, r.path + (i,))


@reg('PatchedFile::hunks', 'PatchedFile::hunks_mut')
def _pf_hunks(I, a, ci, dt):
    return _field(a[0], 4)


@reg('Hunk::lines', 'Hunk::lines_mut')
def _hunk_lines(I, a, ci, dt):
    return _field(a[0], 7)


def _line_type_is(I, r, ch):
    ln = I.load(r)
    return bytes_equal(ln.f[3].b, (ch,))


@reg('Line::is_added')
def _is_added(I, a, ci, dt):
    return _line_type_is(I, a[0], 43)


@reg('Line::is_removed')
def _is_removed(I, a, ci, dt):
    return _line_type_is(I, a[0], 45)


@reg('Line::is_context')
def _is_context(I, a, ci, dt):
    return _line_type_is(I, a[0], 32)


@reg('PatchedFile::is_removed_file')
def _is_removed_file(I, a, ci, dt):
    pf = I.load(a[0])
    hunks = pf.f[4].items
    if len(hunks) != 1:
        return False
    h = hunks[0]
    from .interp import sym_and, cmp_scalar
    return sym_and(cmp_scalar('Eq', h.f[4], 0), cmp_scalar('Eq', h.f[5], 0))


@reg('PatchedFile::is_added_file')
def _is_added_file(I, a, ci, dt):
    pf = I.load(a[0])
    hunks = pf.f[4].items
    if len(hunks) != 1:
        return False
    h = hunks[0]
    from .interp import sym_and, cmp_scalar
    return sym_and(cmp_scalar('Eq', h.f[2], 0), cmp_scalar('Eq', h.f[3], 0))


@reg('Hunk::len')
def _hunk_len(I, a, ci, dt):
    return len(I.load(a[0]).f[7].items)


@reg('<PatchSet as IntoIterator>::into_iter')
def _patchset_into_iter(I, a, ci, dt):
    from .models import ListIter
    return ListIter(a[0].f[0].items)


@reg('PatchSet::files')
def _patchset_files(I, a, ci, dt):
    return _field(a[0], 0)


@reg('PatchedFile::path')
def _pf_path(I, a, ci, dt):
    """unidiff 0.4.0 PatchedFile::path (transcribed)."""
    pf = I.load(a[0])
    src = pf.f[0].b
    tgt = pf.f[2].b

    def starts(bs, pre):
        return len(bs) >= len(pre) and I.branch(bytes_equal(bs[:len(pre)], tuple(pre)))

    devnull = tuple(b'/dev/null')
    if starts(src, b'a/') and starts(tgt, b'b/'):
        return new_string(I, src[2:])
    if starts(src, b'a/') and len(tgt) == len(devnull) and I.branch(bytes_equal(tgt, devnull)):
        return new_string(I, src[2:])
    if starts(tgt, b'b/') and len(src) == len(devnull) and I.branch(bytes_equal(src, devnull)):
        return new_string(I, tgt[2:])
    return new_string(I, src)
