"""Models of functions outside the crate (std, unidiff, anyhow, ...): the trusted base.

A model is `fn(I, args, ci, dest_ty) -> value`.  Lookup is by the normalised callee keys
computed in interp.parse_callee (most specific first): '<Self as Trait>::m', 'Trait::m',
'Self::m', 'm'.
"""
import re
import z3

from .values import *
from .interp import (LESS, EQUAL, GREATER, cmp_scalar, sym_and, sym_or, sym_not, child,
                     parse_callee, _last_seg, INT_BITS, int_range, wrap)


class Models:
    consts = {}       # constants of external crates: name (full or last segment) -> value

    def __init__(self):
        self.table = {}
        self.used = {}

    def reg(self, *keys):
        def deco(fn):
            for k in keys:
                self.table[k] = fn
            return fn
        return deco

    ALIASES = {
        'OsStr': ['str'], 'OsString': ['String', 'str'], 'Path': ['str'], 'PathBuf': ['String', 'str'], 'String': ['str'],
        'Vec': ['[]', 'VecDeque'], 'VecDeque': ['Vec', '[]'], '[]': ['Vec'], 'slice': ['[]', 'Vec'],
        'HashSet': ['HashMap'], 'BTreeMap': ['HashMap'], 'BTreeSet': ['HashSet', 'HashMap'], 'IndexMap': ['HashMap'],
        'Rc': ['Arc'], 'Arc': ['Rc'], 'u64': ['usize'], 'u32': ['usize'], 'u16': ['usize'], 'u8': ['usize'], 'i64': ['usize'],
        'Cow': ['str'], 'Box': ['str'],
    }

    def lookup(self, ci):
        for k in ci.keys:
            m = self.table.get(k)
            if m is not None:
                self.used[k] = self.used.get(k, 0) + 1
                return m
        # the same method on a sibling type (OsStr::to_ascii_lowercase -> str::to_ascii_lowercase, ...)
        st = ci.self_ty
        if st:
            from .interp import _last_seg
            base = _last_seg(st) if not st.startswith('<impl') else None
            for al in self.ALIASES.get(base, []):
                k = '%s::%s' % (al, ci.method)
                m = self.table.get(k)
                if m is not None:
                    self.used[k] = self.used.get(k, 0) + 1
                    return m
        return None

    def const_model(self, raw, segs):
        if len(segs) >= 2 and segs[-2] == 'kind' and segs[-1] in ('Adhoc', 'Trait', 'Boxed'):
            return Opaque('anyhow_kind')
        if segs[-1] == 'VariantNotFound':
            return Opaque('strum::ParseError')
        if raw.startswith('PhantomData'):
            return UNIT
        if raw in self.consts:
            return self.consts[raw]
        if segs[-1] in self.consts:
            return self.consts[segs[-1]]
        return None


M = Models()
reg = M.reg


# ------------------------------------------------------------------ helpers

def opt(x):
    return NONE if x is None else Some(x)


def is_none(v):
    return isinstance(v, Enum) and v.name == 'Option' and v.v == 0


def load_vec(I, r):
    v = I.deref_value(r)
    if not isinstance(v, VecVal):
        raise EngineError('expected Vec/slice, got %r' % (v,))
    return v


def as_sstr(I, v):
    """Any string-like value (or reference to one) -> SStr."""
    v = I.deref_value(v) if isinstance(v, Ref) else v
    if isinstance(v, SStr):
        return v
    if isinstance(v, SString):
        return SStr(v.b, v.alloc, 0)
    if isinstance(v, Enum) and v.name == 'Cow' and len(v.f) == 1:
        return as_sstr(I, v.f[0])            # Cow<str>: Borrowed(&str) / Owned(String) deref to the text
    if isinstance(v, Opaque) and v.tag in ('formatted', 'fmtargs'):
        # text produced by format!: opaque (no property depends on message text); a fixed
        # placeholder that equals no ordinary string
        return SStr(tuple(b'\xff<formatted text>'), -2, 0)
    raise EngineError('expected string, got %r' % (v,))


def new_string(I, b):
    return SString(tuple(b), I.new_alloc())


def call_closure(I, f, *args):
    return I.call_value(f, list(args))


# ------------------------------------------------------------------ Option / Result

@reg('iter::once', 'once')
def _iter_once(I, a, ci, dt):
    return ListIter([a[0]])


@reg('iter::empty', 'empty')
def _iter_empty(I, a, ci, dt):
    return ListIter([])


@reg('iter::repeat_n', 'repeat_n')
def _iter_repeat_n(I, a, ci, dt):
    return ListIter([a[0]] * I.concretize(a[1]))


@reg('anyhow::Ok')
def _anyhow_ok(I, a, ci, dt):
    return Ok(a[0])


@reg('Option::unwrap', 'Result::unwrap')
def _unwrap(I, a, ci, dt):
    v = a[0]
    if v.name == 'Option':
        if v.v == 0:
            raise Panic('called `Option::unwrap()` on a `None` value')
        return v.f[0]
    if v.v == 1:
        raise Panic('called `Result::unwrap()` on an `Err` value')
    return v.f[0]


@reg('Option::expect', 'Result::expect')
def _expect(I, a, ci, dt):
    v = a[0]
    bad = (v.name == 'Option' and v.v == 0) or (v.name == 'Result' and v.v == 1)
    if bad:
        msg = as_sstr(I, a[1])
        raise Panic('expect failed: %s' % show_bytes(msg.b))
    return v.f[0]


@reg('Option::unwrap_or', 'Result::unwrap_or')
def _unwrap_or(I, a, ci, dt):
    v = a[0]
    if (v.name == 'Option' and v.v == 1) or (v.name == 'Result' and v.v == 0):
        return v.f[0]
    return a[1]


@reg('Option::unwrap_or_else', 'Result::unwrap_or_else')
def _unwrap_or_else(I, a, ci, dt):
    v = a[0]
    if v.name == 'Option':
        return v.f[0] if v.v == 1 else call_closure(I, a[1])
    return v.f[0] if v.v == 0 else call_closure(I, a[1], v.f[0])


@reg('Option::unwrap_or_default', 'Result::unwrap_or_default')
def _unwrap_or_default(I, a, ci, dt):
    v = a[0]
    if (v.name == 'Option' and v.v == 1) or (v.name == 'Result' and v.v == 0):
        return v.f[0]
    if not (dt or '').strip():
        # called as a function value (`.map(Option::unwrap_or_default)`): the type is in the path
        m = re.search(r'(?:Option|Result)::<(.*)>::unwrap_or_default', ci.raw or '')
        if m:
            dt = m.group(1).split(',')[0].strip()
    return default_for(I, dt)


def default_for(I, ty):
    ty = (ty or '').strip()
    if ty in ('&str', "&'static str") or re.match(r"^&('\w+ )?str$", ty):
        return SStr((), -1, 0)
    if ty.endswith('String') or ty.endswith('PathBuf') or ty.endswith('OsString'):
        return new_string(I, ())
    if ty in INT_BITS:
        return 0
    if ty == 'bool':
        return False
    if ty.startswith('std::vec::Vec') or ty.startswith('Vec<'):
        return VecVal(())
    if 'HashMap' in ty.split('<')[0] or 'HashSet' in ty.split('<')[0]:
        return MapVal(())
    raise Unmodelled('Default for %r' % ty)


@reg('Option::is_some')
def _is_some(I, a, ci, dt):
    return I.deref_value(a[0]).v == 1


@reg('Option::is_none')
def _is_none(I, a, ci, dt):
    return I.deref_value(a[0]).v == 0


@reg('Result::is_ok')
def _is_ok(I, a, ci, dt):
    return I.deref_value(a[0]).v == 0


@reg('Result::is_err')
def _is_err(I, a, ci, dt):
    return I.deref_value(a[0]).v == 1


@reg('Option::is_some_and')
def _is_some_and(I, a, ci, dt):
    v = a[0]
    if v.v == 0:
        return False
    return call_closure(I, a[1], v.f[0])


@reg('Option::is_none_or')
def _is_none_or(I, a, ci, dt):
    v = a[0]
    if v.v == 0:
        return True
    return call_closure(I, a[1], v.f[0])


@reg('Result::is_ok_and')
def _is_ok_and(I, a, ci, dt):
    v = a[0]
    if v.v == 1:
        return False
    return call_closure(I, a[1], v.f[0])


@reg('Option::map')
def _opt_map(I, a, ci, dt):
    v = a[0]
    if v.v == 0:
        return NONE
    return Some(call_closure(I, a[1], v.f[0]))


@reg('Result::map')
def _res_map(I, a, ci, dt):
    v = a[0]
    if v.v == 1:
        return v
    return Ok(call_closure(I, a[1], v.f[0]))


@reg('Result::map_err')
def _res_map_err(I, a, ci, dt):
    v = a[0]
    if v.v == 0:
        return v
    return Err(call_closure(I, a[1], v.f[0]))


@reg('Option::map_or')
def _opt_map_or(I, a, ci, dt):
    v = a[0]
    if v.v == 0:
        return a[1]
    return call_closure(I, a[2], v.f[0])


@reg('Option::map_or_else')
def _opt_map_or_else(I, a, ci, dt):
    v = a[0]
    if v.v == 0:
        return call_closure(I, a[1])
    return call_closure(I, a[2], v.f[0])


@reg('Option::and_then')
def _opt_and_then(I, a, ci, dt):
    v = a[0]
    if v.v == 0:
        return NONE
    return call_closure(I, a[1], v.f[0])


@reg('Result::and_then')
def _res_and_then(I, a, ci, dt):
    v = a[0]
    if v.v == 1:
        return v
    return call_closure(I, a[1], v.f[0])


@reg('Option::or_else')
def _opt_or_else(I, a, ci, dt):
    v = a[0]
    if v.v == 1:
        return v
    return call_closure(I, a[1])


@reg('Option::or')
def _opt_or(I, a, ci, dt):
    return a[0] if a[0].v == 1 else a[1]


@reg('Option::filter')
def _opt_filter(I, a, ci, dt):
    v = a[0]
    if v.v == 0:
        return NONE
    r = Ref(Cell(v.f[0]), ())
    return v if I.branch(call_closure(I, a[1], r)) else NONE


@reg('Option::ok_or')
def _ok_or(I, a, ci, dt):
    v = a[0]
    return Ok(v.f[0]) if v.v == 1 else Err(a[1])


@reg('Option::ok_or_else')
def _ok_or_else(I, a, ci, dt):
    v = a[0]
    return Ok(v.f[0]) if v.v == 1 else Err(call_closure(I, a[1]))


@reg('Result::ok')
def _res_ok(I, a, ci, dt):
    v = a[0]
    return Some(v.f[0]) if v.v == 0 else NONE


@reg('Result::err')
def _res_err(I, a, ci, dt):
    v = a[0]
    return Some(v.f[0]) if v.v == 1 else NONE


@reg('Option::as_ref', 'Option::as_mut', 'Result::as_ref')
def _as_ref(I, a, ci, dt):
    r = a[0]
    v = I.load(r)
    if v.name == 'Option':
        return NONE if v.v == 0 else Some(Ref(r.cell, r.path + (0,)))
    return Enum('Result', v.v, v.vname, (Ref(r.cell, r.path + (0,)),))


@reg('Option::as_deref', 'Result::as_deref')
def _as_deref(I, a, ci, dt):
    r = a[0]
    v = I.load(r)
    inner_ok = (v.name == 'Option' and v.v == 1) or (v.name == 'Result' and v.v == 0)
    if not inner_ok:
        if v.name == 'Option':
            return NONE
        return Err(Ref(r.cell, r.path + (0,)))
    inner = v.f[0]
    ir = Ref(r.cell, r.path + (0,))
    if isinstance(inner, SString):
        d = SStr(inner.b, inner.alloc, 0)
    elif isinstance(inner, VecVal):
        d = ir
    elif isinstance(inner, Ref):
        d = inner
    else:
        raise Unmodelled('as_deref of %r' % (inner,))
    return Some(d) if v.name == 'Option' else Ok(d)


@reg('Option::cloned', 'Option::copied')
def _cloned(I, a, ci, dt):
    v = a[0]
    if v.v == 0:
        return NONE
    return Some(clone_value(I, I.deref_value(v.f[0])))


@reg('Option::take')
def _take(I, a, ci, dt):
    v = I.load(a[0])
    I.store(a[0], NONE)
    return v


@reg('Option::then', 'bool::then')
def _then(I, a, ci, dt):
    if I.branch(a[0]):
        return Some(call_closure(I, a[1]))
    return NONE


@reg('bool::then_some')
def _then_some(I, a, ci, dt):
    return Some(a[1]) if I.branch(a[0]) else NONE


@reg('<Result as Try>::branch')
def _try_branch_res(I, a, ci, dt):
    v = a[0]
    if v.v == 0:
        return Enum('ControlFlow', 0, 'Continue', (v.f[0],))
    return Enum('ControlFlow', 1, 'Break', (Err(v.f[0]),))


@reg('<Option as Try>::branch')
def _try_branch_opt(I, a, ci, dt):
    v = a[0]
    if v.v == 1:
        return Enum('ControlFlow', 0, 'Continue', (v.f[0],))
    return Enum('ControlFlow', 1, 'Break', (NONE,))


@reg('<Result as FromResidual>::from_residual')
def _from_residual_res(I, a, ci, dt):
    v = a[0]
    e = v.f[0]
    # `?` converts the error with From; anyhow wraps foreign errors
    if not (isinstance(e, Opaque) and e.tag == 'anyhow'):
        if dt and 'anyhow::Error' in dt:
            e = Opaque('anyhow', {'ctx': [], 'src': e})
    return Err(e)


@reg('<Option as FromResidual>::from_residual')
def _from_residual_opt(I, a, ci, dt):
    return NONE


# ------------------------------------------------------------------ clone / eq / misc

def clone_value(I, v):
    if isinstance(v, SString):
        return SString(v.b, I.new_alloc())
    if isinstance(v, Struct):
        return Struct(v.name, [clone_value(I, x) for x in v.f])
    if isinstance(v, Enum):
        return Enum(v.name, v.v, v.vname, [clone_value(I, x) for x in v.f])
    if isinstance(v, VecVal):
        return VecVal([clone_value(I, x) for x in v.items])
    if isinstance(v, MapVal):
        return MapVal([clone_value(I, x) for x in v.entries], v.kind)
    return v  # scalars, refs (Rc/Arc/&: shared), SStr


@reg('Clone::clone')
def _clone(I, a, ci, dt):
    v = I.load(a[0]) if isinstance(a[0], Ref) else a[0]
    st = _last_seg(ci.self_ty or '')
    if st in ('Rc', 'Arc') or (isinstance(v, Ref)):
        return v
    return clone_value(I, v)


@reg('Rc::clone', 'Arc::clone')
def _rc_clone(I, a, ci, dt):
    return I.load(a[0])


@reg('Rc::new', 'Arc::new', 'Box::new', 'RefCell::new', 'Mutex::new')
def _box_new(I, a, ci, dt):
    if ci.self_ty in ('RefCell', 'Mutex'):
        return a[0]
    return Ref(Cell(a[0]), ())


@reg('Rc::ptr_eq', 'Arc::ptr_eq')
def _ptr_eq(I, a, ci, dt):
    x = I.load(a[0])
    y = I.load(a[1])
    return x.cell is y.cell and x.path == y.path


@reg('Deref::deref', 'DerefMut::deref_mut', 'AsRef::as_ref', 'Borrow::borrow')
def _deref(I, a, ci, dt):
    r = a[0]
    v = I.load(r) if isinstance(r, Ref) else r
    if isinstance(v, SString):
        return SStr(v.b, v.alloc, 0)
    if isinstance(v, SStr):
        return v
    if isinstance(v, VecVal):
        return r
    if isinstance(v, Ref):
        return v       # Box/Rc/Arc/& deref: the pointer they hold
    return r


@reg('mem::drop', 'drop', 'mem::forget')
def _drop(I, a, ci, dt):
    return UNIT


@reg('must_use', 'convert::identity', 'hint::black_box')
def _identity(I, a, ci, dt):
    return a[0]


@reg('mem::take')
def _mem_take(I, a, ci, dt):
    v = I.load(a[0])
    if isinstance(v, VecVal):
        I.store(a[0], VecVal(()))
    elif isinstance(v, SString):
        I.store(a[0], new_string(I, ()))
    elif isinstance(v, MapVal):
        I.store(a[0], MapVal((), v.kind))
    elif isinstance(v, Enum) and v.name == 'Option':
        I.store(a[0], NONE)
    else:
        raise Unmodelled('mem::take of %r' % (v,))
    return v


@reg('mem::replace')
def _mem_replace(I, a, ci, dt):
    v = I.load(a[0])
    I.store(a[0], a[1])
    return v


@reg('mem::swap')
def _mem_swap(I, a, ci, dt):
    x = I.load(a[0])
    y = I.load(a[1])
    I.store(a[0], y)
    I.store(a[1], x)
    return UNIT


def values_equal(I, x, y):
    """Structural equality as a (possibly symbolic) boolean."""
    x = I.deref_value(x) if isinstance(x, Ref) else x
    y = I.deref_value(y) if isinstance(y, Ref) else y
    if isinstance(x, (SStr, SString)) and isinstance(y, (SStr, SString)):
        return bytes_equal(x.b, y.b)
    if isinstance(x, Struct) and isinstance(y, Struct):
        if len(x.f) != len(y.f):
            return False
        r = True
        for p, q in zip(x.f, y.f):
            r = sym_and(r, values_equal(I, p, q))
            if r is False:
                return False
        return r
    if isinstance(x, Enum) and isinstance(y, Enum):
        if x.v != y.v:
            return False
        r = True
        for p, q in zip(x.f, y.f):
            r = sym_and(r, values_equal(I, p, q))
            if r is False:
                return False
        return r
    if isinstance(x, VecVal) and isinstance(y, VecVal):
        if len(x.items) != len(y.items):
            return False
        r = True
        for p, q in zip(x.items, y.items):
            r = sym_and(r, values_equal(I, p, q))
            if r is False:
                return False
        return r
    if isinstance(x, MapVal) and isinstance(y, MapVal):
        # maps (keys pairwise different inside each map): equal iff same size and every entry of x has an
        # entry of y with an equal key and an equal value
        if len(x.entries) != len(y.entries):
            return False
        r = True
        for e in x.entries:
            some = False
            for g in y.entries:
                both = sym_and(values_equal(I, e.f[0], g.f[0]), values_equal(I, e.f[1], g.f[1]) if len(e.f) > 1 else True)
                some = sym_or(some, both)
                if some is True:
                    break
            r = sym_and(r, some)
            if r is False:
                return False
        return r
    if isinstance(x, (int, bool)) or is_sym(x):
        return cmp_scalar('Eq', x, y)
    raise Unmodelled('equality of %r and %r' % (x, y))


def bytes_equal(a, b):
    if len(a) != len(b):
        return False
    r = True
    for p, q in zip(a, b):
        if isinstance(p, int) and isinstance(q, int):
            if p != q:
                return False
        else:
            r = sym_and(r, p == q)
    return r


@reg('PartialEq::eq')
def _eq(I, a, ci, dt):
    return values_equal(I, a[0], a[1])


@reg('PartialEq::ne')
def _ne(I, a, ci, dt):
    return sym_not(values_equal(I, a[0], a[1]))


def compare_values(I, x, y):
    """Ord::cmp -> Ordering enum (forks)."""
    x = I.deref_value(x) if isinstance(x, Ref) else x
    y = I.deref_value(y) if isinstance(y, Ref) else y
    if isinstance(x, (SStr, SString)):
        return compare_bytes(I, x.b, y.b)
    if isinstance(x, Struct):
        # a crate type with its own `impl Ord` is compared by that impl (Block: by start position)
        f = I.prog.find_method(x.name, 'cmp', trait='Ord') if x.name not in ('tuple', 'closure') else None
        if f is not None and not getattr(f, '_derived_ord', False):
            return I.call_fn(f, [Ref(Cell(x), ()), Ref(Cell(y), ())])
        for p, q in zip(x.f, y.f):
            o = compare_values(I, p, q)
            if o.v != 1:
                return o
        return EQUAL()
    if isinstance(x, Enum):
        if x.v != y.v:
            return LESS() if x.v < y.v else GREATER()
        for p, q in zip(x.f, y.f):
            o = compare_values(I, p, q)
            if o.v != 1:
                return o
        return EQUAL()
    if isinstance(x, VecVal):
        for p, q in zip(x.items, y.items):
            o = compare_values(I, p, q)
            if o.v != 1:
                return o
        lx, ly = len(x.items), len(y.items)
        return LESS() if lx < ly else (EQUAL() if lx == ly else GREATER())
    if isinstance(x, MapVal) or isinstance(y, MapVal):
        raise Unmodelled('ordering of maps')
    if I.branch(cmp_scalar('Lt', x, y)):
        return LESS()
    if I.branch(cmp_scalar('Eq', x, y)):
        return EQUAL()
    return GREATER()


def compare_bytes(I, a, b):
    for p, q in zip(a, b):
        if isinstance(p, int) and isinstance(q, int):
            if p < q:
                return LESS()
            if p > q:
                return GREATER()
            continue
        if I.branch(p < q):
            return LESS()
        if I.branch(p > q):
            return GREATER()
    if len(a) < len(b):
        return LESS()
    if len(a) > len(b):
        return GREATER()
    return EQUAL()


@reg('Ord::cmp')
def _cmp(I, a, ci, dt):
    return compare_values(I, a[0], a[1])


@reg('PartialOrd::partial_cmp')
def _partial_cmp(I, a, ci, dt):
    return Some(compare_values(I, a[0], a[1]))


@reg('PartialOrd::lt')
def _lt(I, a, ci, dt):
    return compare_values(I, a[0], a[1]).v == 0


@reg('PartialOrd::le')
def _le(I, a, ci, dt):
    return compare_values(I, a[0], a[1]).v != 2


@reg('PartialOrd::gt')
def _gt(I, a, ci, dt):
    return compare_values(I, a[0], a[1]).v == 2


@reg('PartialOrd::ge')
def _ge(I, a, ci, dt):
    return compare_values(I, a[0], a[1]).v != 0


@reg('Ord::min', 'cmp::min')
def _min(I, a, ci, dt):
    x, y = a[0], a[1]
    if is_concrete_int(x) and is_concrete_int(y):
        return min(x, y)
    if isinstance(x, (int,)) or is_sym(x):
        return y if I.branch(cmp_scalar('Lt', y, x)) else x
    return y if compare_values(I, y, x).v == 0 else x


@reg('Ord::max', 'cmp::max')
def _max(I, a, ci, dt):
    x, y = a[0], a[1]
    if is_concrete_int(x) and is_concrete_int(y):
        return max(x, y)
    if isinstance(x, (int,)) or is_sym(x):
        return y if I.branch(cmp_scalar('Ge', y, x)) else x
    return y if compare_values(I, y, x).v != 0 else x


@reg('usize::saturating_sub', 'u64::saturating_sub', 'u32::saturating_sub')
def _sat_sub(I, a, ci, dt):
    x, y = a[0], a[1]
    if is_concrete_int(x) and is_concrete_int(y):
        return max(0, x - y)
    return x - y if I.branch(x >= y) else 0


@reg('usize::checked_sub')
def _checked_sub(I, a, ci, dt):
    x, y = a[0], a[1]
    return Some(x - y) if I.branch(cmp_scalar('Ge', x, y)) else NONE


@reg('usize::checked_add')
def _checked_add(I, a, ci, dt):
    r = a[0] + a[1]
    return Some(r) if I.branch(cmp_scalar('Le', r, (1 << 64) - 1)) else NONE


@reg('usize::wrapping_sub')
def _wrapping_sub(I, a, ci, dt):
    return wrap(a[0] - a[1], 'usize')


@reg('usize::wrapping_add')
def _wrapping_add(I, a, ci, dt):
    return wrap(a[0] + a[1], 'usize')


@reg('<&usize as Add>::add', 'Add::add')
def _add_trait(I, a, ci, dt):
    x = I.deref_value(a[0]) if isinstance(a[0], Ref) else a[0]
    y = I.deref_value(a[1]) if isinstance(a[1], Ref) else a[1]
    r = x + y
    if I.branch(cmp_scalar('Gt', r, (1 << 64) - 1)):
        raise Panic('attempt to add with overflow')
    return r


# ------------------------------------------------------------------ Vec / slices / VecDeque

@reg('Vec::new', 'VecDeque::new', 'Vec::with_capacity', 'VecDeque::with_capacity')
def _vec_new(I, a, ci, dt):
    return VecVal(())


@reg('Vec::push', 'VecDeque::push_back')
def _vec_push(I, a, ci, dt):
    v = I.load(a[0])
    I.store(a[0], VecVal(v.items + (a[1],)))
    return UNIT


@reg('VecDeque::push_front')
def _push_front(I, a, ci, dt):
    v = I.load(a[0])
    I.store(a[0], VecVal((a[1],) + v.items))
    return UNIT


@reg('Vec::pop', 'VecDeque::pop_back')
def _vec_pop(I, a, ci, dt):
    v = I.load(a[0])
    if not v.items:
        return NONE
    I.store(a[0], VecVal(v.items[:-1]))
    return Some(v.items[-1])


@reg('VecDeque::pop_front')
def _pop_front(I, a, ci, dt):
    v = I.load(a[0])
    if not v.items:
        return NONE
    I.store(a[0], VecVal(v.items[1:]))
    return Some(v.items[0])


@reg('Vec::pop_if')
def _pop_if(I, a, ci, dt):
    v = I.load(a[0])
    if not v.items:
        return NONE
    n = len(v.items)
    last_ref = Ref(a[0].cell, a[0].path + (n - 1,))
    if I.branch(call_closure(I, a[1], last_ref)):
        v = I.load(a[0])
        I.store(a[0], VecVal(v.items[:-1]))
        return Some(v.items[-1])
    return NONE


@reg('Vec::clear', 'VecDeque::clear')
def _vec_clear(I, a, ci, dt):
    I.store(a[0], VecVal(()))
    return UNIT


@reg('Vec::len', 'VecDeque::len', '[]::len', 'slice::len')
def _vec_len(I, a, ci, dt):
    return len(load_vec(I, a[0]).items)


@reg('Vec::is_empty', 'VecDeque::is_empty', '[]::is_empty')
def _vec_is_empty(I, a, ci, dt):
    return len(load_vec(I, a[0]).items) == 0


@reg('Vec::as_slice', 'Vec::as_mut_slice', '[]::as_ref')
def _as_slice(I, a, ci, dt):
    return a[0]


@reg('[]::swap', 'Vec::swap')
def _swap(I, a, ci, dt):
    v = load_vec(I, a[0])
    i = I.concretize(a[1])
    j = I.concretize(a[2])
    n = len(v.items)
    if i >= n or j >= n:
        raise Panic('index out of bounds in swap')
    it = list(v.items)
    it[i], it[j] = it[j], it[i]
    I.store(vec_ref(I, a[0]), VecVal(it))
    return UNIT


def vec_ref(I, r):
    """Follow refs until the Ref that directly points at a VecVal."""
    while True:
        v = I.load(r)
        if isinstance(v, Ref):
            r = v
        else:
            return r


@reg('Vec::extend', 'Extend::extend', 'String::extend')
def _vec_extend(I, a, ci, dt):
    tgt = I.load(a[0])
    items = collect_iter(I, a[1])
    if isinstance(tgt, VecVal):
        I.store(a[0], VecVal(tgt.items + tuple(items)))
        return UNIT
    if isinstance(tgt, MapVal):
        for kv in items:
            map_insert(I, a[0], kv.f[0], kv.f[1])
        return UNIT
    if isinstance(tgt, SString):
        # String: Extend<char> / Extend<&str> / Extend<String>
        from .strmodels import encode_cp
        b = list(tgt.b)
        for it in items:
            while isinstance(it, Ref):
                it = I.load(it)
            if isinstance(it, (SStr, SString)):
                b.extend(it.b)
            else:
                b.extend(encode_cp(it))
        I.store(a[0], SString(tuple(b), tgt.alloc))
        return UNIT
    raise Unmodelled('extend on %r' % (tgt,))


@reg('Vec::first', '[]::first')
def _first(I, a, ci, dt):
    r = vec_ref(I, a[0])
    v = I.load(r)
    return Some(Ref(r.cell, r.path + (0,))) if v.items else NONE


@reg('Vec::last', '[]::last')
def _last(I, a, ci, dt):
    r = vec_ref(I, a[0])
    v = I.load(r)
    return Some(Ref(r.cell, r.path + (len(v.items) - 1,))) if v.items else NONE


@reg('[]::get', 'Vec::get')
def _slice_get(I, a, ci, dt):
    r = vec_ref(I, a[0])
    v = I.load(r)
    i = I.concretize(a[1])
    return Some(Ref(r.cell, r.path + (i,))) if 0 <= i < len(v.items) else NONE


@reg('<Vec as Index>::index', '<[] as Index>::index', '<Vec as IndexMut>::index_mut', 'Index::index', 'IndexMut::index_mut')
def _vec_index(I, a, ci, dt):
    tgt = a[0]
    tv = I.deref_value(tgt) if isinstance(tgt, Ref) else tgt
    if isinstance(tv, (SStr, SString)):
        from . import strmodels
        return strmodels.str_index(I, tgt, a[1])
    r = vec_ref(I, tgt)
    v = I.load(r)
    idx = a[1]
    if isinstance(idx, Struct) and idx.name.startswith('Range'):
        raise Unmodelled('subslice of Vec')
    i = I.concretize(idx)
    if not (0 <= i < len(v.items)):
        raise Panic('index out of bounds: the len is %d but the index is %d' % (len(v.items), i))
    return Ref(r.cell, r.path + (i,))


@reg('[]::contains', 'Vec::contains')
def _slice_contains(I, a, ci, dt):
    v = load_vec(I, a[0])
    r = False
    for x in v.items:
        r = sym_or(r, values_equal(I, x, a[1]))
    return r


@reg('[]::binary_search_by')
def _binary_search_by(I, a, ci, dt):
    """Transcription of core::slice::binary_search_by (rustc 1.9x):
        let mut size = self.len(); if size == 0 { return Err(0) }
        let mut base = 0;
        while size > 1 { let half = size/2; let mid = base+half;
            let cmp = f(self[mid]); base = if cmp == Greater { base } else { mid }; size -= half; }
        let cmp = f(self[base]);
        if cmp == Equal { Ok(base) } else { Err(base + (cmp == Less) as usize) }
    """
    r = vec_ref(I, a[0])
    v = I.load(r)
    size = len(v.items)
    if size == 0:
        return Err(0)
    base = 0
    while size > 1:
        half = size // 2
        mid = base + half
        o = call_closure(I, a[1], Ref(r.cell, r.path + (mid,)))
        if o.vname != 'Greater':
            base = mid
        size -= half
    o = call_closure(I, a[1], Ref(r.cell, r.path + (base,)))
    if o.vname == 'Equal':
        return Ok(base)
    return Err(base + (1 if o.vname == 'Less' else 0))


@reg('[]::sort_by', 'Vec::sort_by')
def _sort_by(I, a, ci, dt):
    r = vec_ref(I, a[0])
    v = I.load(r)
    items = list(v.items)
    # stable insertion sort driven by the closure (forks on symbolic comparisons)
    out = []
    for x in items:
        k = len(out)
        while k > 0:
            o = call_closure(I, a[1], Ref(Cell(out[k - 1]), ()), Ref(Cell(x), ()))
            if o.vname == 'Greater':
                k -= 1
            else:
                break
        out.insert(k, x)
    I.store(r, VecVal(out))
    return UNIT


@reg('[]::sort', 'Vec::sort')
def _sort(I, a, ci, dt):
    r = vec_ref(I, a[0])
    v = I.load(r)
    out = []
    for x in v.items:
        k = len(out)
        while k > 0 and compare_values(I, out[k - 1], x).vname == 'Greater':
            k -= 1
        out.insert(k, x)
    I.store(r, VecVal(out))
    return UNIT


@reg('[]::sort_by_key', 'Vec::sort_by_key')
def _sort_by_key(I, a, ci, dt):
    r = vec_ref(I, a[0])
    v = I.load(r)
    keyed = [(call_closure(I, a[1], Ref(Cell(x), ())), x) for x in v.items]
    out = []
    for kx in keyed:
        k = len(out)
        while k > 0 and compare_values(I, out[k - 1][0], kx[0]).vname == 'Greater':
            k -= 1
        out.insert(k, kx)
    I.store(r, VecVal([x for _k, x in out]))
    return UNIT


@reg('[]::join', 'Vec::join')
def _join(I, a, ci, dt):
    v = load_vec(I, a[0])
    sep = as_sstr(I, a[1]).b
    out = []
    for i, x in enumerate(v.items):
        if i:
            out.extend(sep)
        out.extend(as_sstr(I, x).b)
    return new_string(I, out)


# ------------------------------------------------------------------ iterators

class SliceIter(IterVal):
    __slots__ = ('ref', 'lo', 'hi', 'owned')

    def __init__(self, ref, lo, hi, owned=False):
        self.ref = ref
        self.lo = lo
        self.hi = hi
        self.owned = owned

    def _item(self, I, i):
        if self.owned:
            return I.load(Ref(self.ref.cell, self.ref.path + (i,)))
        return Ref(self.ref.cell, self.ref.path + (i,))

    def nxt(self, I):
        if self.lo >= self.hi:
            return None, self
        return self._item(I, self.lo), SliceIter(self.ref, self.lo + 1, self.hi, self.owned)

    def nxt_back(self, I):
        if self.lo >= self.hi:
            return None, self
        return self._item(I, self.hi - 1), SliceIter(self.ref, self.lo, self.hi - 1, self.owned)


class ListIter(IterVal):
    """Iterator over already-computed items."""
    __slots__ = ('items', 'lo', 'hi')

    def __init__(self, items, lo=0, hi=None):
        self.items = tuple(items)
        self.lo = lo
        self.hi = len(self.items) if hi is None else hi

    def nxt(self, I):
        if self.lo >= self.hi:
            return None, self
        return self.items[self.lo], ListIter(self.items, self.lo + 1, self.hi)

    def nxt_back(self, I):
        if self.lo >= self.hi:
            return None, self
        return self.items[self.hi - 1], ListIter(self.items, self.lo, self.hi - 1)


class MapIter(IterVal):
    """HashMap iteration in the order chosen by the interpreter's map-order policy."""
    __slots__ = ('ref', 'order', 'pos', 'mode')

    def __init__(self, ref, order, pos, mode):
        self.ref = ref
        self.order = order
        self.pos = pos
        self.mode = mode  # 'ref' | 'owned' | 'keys' | 'values' | 'refmut' | 'set' | 'set_owned' | 'into_keys' | 'into_values'

    def nxt(self, I):
        if self.pos >= len(self.order):
            return None, self
        i = self.order[self.pos]
        base = Ref(self.ref.cell, self.ref.path + (i,))
        kr = Ref(base.cell, base.path + (0,))
        vr = Ref(base.cell, base.path + (1,))
        m = self.mode
        if m in ('ref', 'refmut'):
            item = Tuple(kr, vr)
        elif m == 'owned':
            item = I.load(base)
        elif m in ('keys', 'set'):
            item = kr
        elif m == 'values':
            item = vr
        elif m in ('set_owned', 'into_keys'):
            item = I.load(kr)
        elif m == 'into_values':
            item = I.load(vr)
        else:
            raise EngineError(m)
        return item, MapIter(self.ref, self.order, self.pos + 1, m)


class EnumerateIter(IterVal):
    __slots__ = ('inner', 'n')

    def __init__(self, inner, n=0):
        self.inner = inner
        self.n = n

    def nxt(self, I):
        x, ni = self.inner.nxt(I)
        if x is None:
            return None, EnumerateIter(ni, self.n)
        return Tuple(self.n, x), EnumerateIter(ni, self.n + 1)


class MapAdaptor(IterVal):
    __slots__ = ('inner', 'f')

    def __init__(self, inner, f):
        self.inner = inner
        self.f = f

    def nxt(self, I):
        x, ni = self.inner.nxt(I)
        if x is None:
            return None, MapAdaptor(ni, self.f)
        return call_closure(I, self.f, x), MapAdaptor(ni, self.f)

    def nxt_back(self, I):
        x, ni = self.inner.nxt_back(I)
        if x is None:
            return None, MapAdaptor(ni, self.f)
        return call_closure(I, self.f, x), MapAdaptor(ni, self.f)


class FilterAdaptor(IterVal):
    __slots__ = ('inner', 'f')

    def __init__(self, inner, f):
        self.inner = inner
        self.f = f

    def nxt(self, I):
        it = self.inner
        while True:
            x, it = it.nxt(I)
            if x is None:
                return None, FilterAdaptor(it, self.f)
            if I.branch(call_closure(I, self.f, Ref(Cell(x), ()))):
                return x, FilterAdaptor(it, self.f)

    def nxt_back(self, I):
        it = self.inner
        while True:
            x, it = it.nxt_back(I)
            if x is None:
                return None, FilterAdaptor(it, self.f)
            if I.branch(call_closure(I, self.f, Ref(Cell(x), ()))):
                return x, FilterAdaptor(it, self.f)


class FilterMapAdaptor(IterVal):
    __slots__ = ('inner', 'f')

    def __init__(self, inner, f):
        self.inner = inner
        self.f = f

    def nxt(self, I):
        it = self.inner
        while True:
            x, it = it.nxt(I)
            if x is None:
                return None, FilterMapAdaptor(it, self.f)
            r = call_closure(I, self.f, x)
            if r.v == 1:
                return r.f[0], FilterMapAdaptor(it, self.f)


class RevAdaptor(IterVal):
    __slots__ = ('inner',)

    def __init__(self, inner):
        self.inner = inner

    def nxt(self, I):
        x, ni = self.inner.nxt_back(I)
        return x, RevAdaptor(ni)

    def nxt_back(self, I):
        x, ni = self.inner.nxt(I)
        return x, RevAdaptor(ni)


class ChainAdaptor(IterVal):
    __slots__ = ('a', 'b')

    def __init__(self, a, b):
        self.a = a
        self.b = b

    def nxt(self, I):
        if self.a is not None:
            x, na = self.a.nxt(I)
            if x is not None:
                return x, ChainAdaptor(na, self.b)
        x, nb = self.b.nxt(I)
        return x, ChainAdaptor(None, nb)


class ZipAdaptor(IterVal):
    __slots__ = ('a', 'b')

    def __init__(self, a, b):
        self.a = a
        self.b = b

    def nxt(self, I):
        x, na = self.a.nxt(I)
        if x is None:
            return None, self
        y, nb = self.b.nxt(I)
        if y is None:
            return None, self
        return Tuple(x, y), ZipAdaptor(na, nb)


class TakeAdaptor(IterVal):
    __slots__ = ('inner', 'n')

    def __init__(self, inner, n):
        self.inner = inner
        self.n = n

    def nxt(self, I):
        if is_sym(self.n):
            # symbolic bound: one fork per element asked for (n > 0 ?), never an enumeration of n
            if not I.branch(self.n > 0):
                return None, self
        elif self.n <= 0:
            return None, self
        x, ni = self.inner.nxt(I)
        return x, TakeAdaptor(ni, self.n - 1)


class SkipAdaptor(IterVal):
    __slots__ = ('inner', 'n')

    def __init__(self, inner, n):
        self.inner = inner
        self.n = n

    def nxt(self, I):
        it = self.inner
        n = self.n
        while n > 0:
            x, it = it.nxt(I)
            if x is None:
                return None, SkipAdaptor(it, 0)
            n -= 1
        x, it = it.nxt(I)
        return x, SkipAdaptor(it, 0)


class ClonedAdaptor(IterVal):
    __slots__ = ('inner',)

    def __init__(self, inner):
        self.inner = inner

    def nxt(self, I):
        x, ni = self.inner.nxt(I)
        if x is None:
            return None, ClonedAdaptor(ni)
        return clone_value(I, I.deref_value(x)), ClonedAdaptor(ni)


class PeekableAdaptor(IterVal):
    __slots__ = ('inner', 'peeked')

    def __init__(self, inner, peeked=None):
        self.inner = inner
        self.peeked = peeked  # None | ('v', item_or_None)

    def nxt(self, I):
        if self.peeked is not None:
            return self.peeked[1], PeekableAdaptor(self.inner, None)
        x, ni = self.inner.nxt(I)
        return x, PeekableAdaptor(ni, None)


def order_for(I, mv):
    """Iteration order of a map value: the run's policy for hash maps, key order for B-tree maps."""
    n = len(mv.entries)
    if mv.kind in ('BTreeMap', 'BTreeSet'):
        idx = []
        for i in range(n):
            k = len(idx)
            while k > 0 and compare_values(I, mv.entries[idx[k - 1]].f[0], mv.entries[i].f[0]).vname == 'Greater':
                k -= 1
            idx.insert(k, i)
        return tuple(idx)
    return map_order(I, n)


def map_order(I, n):
    if I.map_order is not None:
        o = tuple(I.map_order(n))
        assert sorted(o) == list(range(n))
        return o
    return tuple(range(n))


def to_iter(I, x):
    """IntoIterator::into_iter by runtime value."""
    if isinstance(x, IterVal):
        return x
    if isinstance(x, VecVal):
        return ListIter(x.items)
    if isinstance(x, MapVal):
        mode = 'set_owned' if x.kind in ('HashSet', 'BTreeSet') else 'owned'
        return MapIter(Ref(Cell(x), ()), order_for(I, x), 0, mode)
    if isinstance(x, Enum) and x.name == 'Option':
        return ListIter(x.f)
    if isinstance(x, Ref):
        r = x
        v = I.load(r)
        while isinstance(v, Ref):
            r = v
            v = I.load(r)
        if isinstance(v, VecVal):
            return SliceIter(r, 0, len(v.items))
        if isinstance(v, MapVal):
            mode = 'set' if v.kind in ('HashSet', 'BTreeSet') else 'ref'
            return MapIter(r, order_for(I, v), 0, mode)
        if isinstance(v, IterVal):
            return RefIter(r)
        if isinstance(v, Enum) and v.name == 'Option':
            return ListIter([Ref(r.cell, r.path + (0,))] if v.v == 1 else [])
        if isinstance(v, Struct):
            return RefIter(r)
    if isinstance(x, Struct):
        # a crate type implementing Iterator by value
        return StructIter(x)
    raise Unmodelled('into_iter of %r' % (x,))


class RefIter(IterVal):
    """`&mut I` used as an iterator: state lives behind the reference."""
    __slots__ = ('ref',)

    def __init__(self, ref):
        self.ref = ref

    def nxt(self, I):
        v = I.load(self.ref)
        if isinstance(v, IterVal):
            x, nv = v.nxt(I)
            I.store(self.ref, nv)
            return x, self
        r = iter_next_struct(I, self.ref)
        return r, self


class StructIter(IterVal):
    """A crate struct that implements Iterator (its `next` is interpreted from MIR)."""
    __slots__ = ('cell',)

    def __init__(self, v):
        self.cell = v if isinstance(v, Cell) else Cell(v)

    def nxt(self, I):
        r = iter_next_struct(I, Ref(self.cell, ()))
        return r, self


def iter_next_struct(I, ref):
    v = I.load(ref)
    f = I.prog.find_method(v.name, 'next', 'Iterator')
    if f is None:
        raise Unmodelled('Iterator::next for %r' % (v,))
    o = I.call_fn(f, [ref])
    return None if o.v == 0 else o.f[0]


def collect_iter(I, x, limit=100000):
    it = to_iter(I, x)
    out = []
    while True:
        v, it = it.nxt(I)
        if v is None:
            return out
        out.append(v)
        if len(out) > limit:
            raise Truncated('iterator too long')


@reg('IntoIterator::into_iter', '[]::iter', 'Vec::iter', 'VecDeque::iter', '[]::iter_mut', 'Vec::iter_mut',
     'Option::iter', 'Option::into_iter', 'HashMap::iter', 'HashSet::iter', 'HashMap::iter_mut',
     'Vec::into_iter', 'Vec::drain', 'HashMap::into_iter', 'HashMap::drain', 'HashSet::drain')
def _into_iter(I, a, ci, dt):
    if ci.method == 'drain':
        v = I.load(a[0])
        if isinstance(v, VecVal):
            I.store(a[0], VecVal(()))
        else:
            I.store(a[0], MapVal((), v.kind))
        return to_iter(I, v)
    if isinstance(a[0], Struct) and ci.method == 'into_iter':
        return a[0]          # a crate type that is its own iterator
    return to_iter(I, a[0])


@reg('HashMap::keys')
def _map_keys(I, a, ci, dt):
    r = vec_ref(I, a[0])
    return MapIter(r, order_for(I, I.load(r)), 0, 'keys')


@reg('HashMap::values', 'HashMap::values_mut')
def _map_values(I, a, ci, dt):
    r = vec_ref(I, a[0])
    return MapIter(r, order_for(I, I.load(r)), 0, 'values')


@reg('HashMap::into_keys')
def _map_into_keys(I, a, ci, dt):
    return MapIter(Ref(Cell(a[0]), ()), order_for(I, a[0]), 0, 'into_keys')


@reg('HashMap::into_values')
def _map_into_values(I, a, ci, dt):
    return MapIter(Ref(Cell(a[0]), ()), order_for(I, a[0]), 0, 'into_values')


@reg('Iterator::next', 'StreamingIterator::next', 'StreamingIteratorMut::next_mut')
def _iter_next(I, a, ci, dt):
    r = a[0]
    v = I.load(r)
    if isinstance(v, Ref):          # &mut &mut I
        r = v
        v = I.load(r)
    if isinstance(v, IterVal):
        x, nv = v.nxt(I)
        I.store(r, nv)
        return opt(x)
    return opt(iter_next_struct(I, r))


@reg('DoubleEndedIterator::next_back')
def _iter_next_back(I, a, ci, dt):
    v = I.load(a[0])
    x, nv = v.nxt_back(I)
    I.store(a[0], nv)
    return opt(x)


@reg('Iterator::enumerate')
def _enumerate(I, a, ci, dt):
    return EnumerateIter(to_iter(I, a[0]))


@reg('Iterator::map')
def _iter_map(I, a, ci, dt):
    return MapAdaptor(to_iter(I, a[0]), a[1])


@reg('Iterator::filter')
def _iter_filter(I, a, ci, dt):
    return FilterAdaptor(to_iter(I, a[0]), a[1])


@reg('Iterator::filter_map')
def _iter_filter_map(I, a, ci, dt):
    return FilterMapAdaptor(to_iter(I, a[0]), a[1])


@reg('Iterator::rev')
def _iter_rev(I, a, ci, dt):
    return RevAdaptor(to_iter(I, a[0]))


@reg('Iterator::chain')
def _iter_chain(I, a, ci, dt):
    return ChainAdaptor(to_iter(I, a[0]), to_iter(I, a[1]))


@reg('Iterator::zip')
def _iter_zip(I, a, ci, dt):
    return ZipAdaptor(to_iter(I, a[0]), to_iter(I, a[1]))


@reg('Iterator::take')
def _iter_take(I, a, ci, dt):
    return TakeAdaptor(to_iter(I, a[0]), a[1])


@reg('Iterator::skip')
def _iter_skip(I, a, ci, dt):
    return SkipAdaptor(to_iter(I, a[0]), I.concretize(a[1]))


@reg('Iterator::cloned', 'Iterator::copied')
def _iter_cloned(I, a, ci, dt):
    return ClonedAdaptor(to_iter(I, a[0]))


@reg('Iterator::peekable', 'Iterator::fuse', 'Iterator::by_ref')
def _iter_same(I, a, ci, dt):
    if ci.method == 'by_ref':
        return a[0]
    return to_iter(I, a[0])


@reg('Iterator::count')
def _iter_count(I, a, ci, dt):
    return len(collect_iter(I, a[0]))


@reg('Iterator::last')
def _iter_last(I, a, ci, dt):
    xs = collect_iter(I, a[0])
    return Some(xs[-1]) if xs else NONE


@reg('Iterator::nth')
def _iter_nth(I, a, ci, dt):
    r = a[0]
    n = I.concretize(a[1])
    it = I.load(r)
    x = None
    for _ in range(n + 1):
        x, it = it.nxt(I)
        if x is None:
            break
    I.store(r, it)
    return opt(x)


@reg('Iterator::any')
def _iter_any(I, a, ci, dt):
    r = a[0]
    it = I.load(r) if isinstance(r, Ref) else to_iter(I, r)
    res = False
    while True:
        x, it = it.nxt(I)
        if x is None:
            break
        if I.branch(call_closure(I, a[1], x)):
            res = True
            break
    if isinstance(r, Ref):
        I.store(r, it)
    return res


@reg('Iterator::all')
def _iter_all(I, a, ci, dt):
    r = a[0]
    it = I.load(r) if isinstance(r, Ref) else to_iter(I, r)
    res = True
    while True:
        x, it = it.nxt(I)
        if x is None:
            break
        if not I.branch(call_closure(I, a[1], x)):
            res = False
            break
    if isinstance(r, Ref):
        I.store(r, it)
    return res


@reg('Iterator::find')
def _iter_find(I, a, ci, dt):
    r = a[0]
    it = I.load(r) if isinstance(r, Ref) else to_iter(I, r)
    res = NONE
    while True:
        x, it = it.nxt(I)
        if x is None:
            break
        if I.branch(call_closure(I, a[1], Ref(Cell(x), ()))):
            res = Some(x)
            break
    if isinstance(r, Ref):
        I.store(r, it)
    return res


@reg('Iterator::find_map')
def _iter_find_map(I, a, ci, dt):
    r = a[0]
    it = I.load(r) if isinstance(r, Ref) else to_iter(I, r)
    res = NONE
    while True:
        x, it = it.nxt(I)
        if x is None:
            break
        o = call_closure(I, a[1], x)
        if o.v == 1:
            res = o
            break
    if isinstance(r, Ref):
        I.store(r, it)
    return res


@reg('Iterator::position')
def _iter_position(I, a, ci, dt):
    r = a[0]
    it = I.load(r) if isinstance(r, Ref) else to_iter(I, r)
    res = NONE
    n = 0
    while True:
        x, it = it.nxt(I)
        if x is None:
            break
        if I.branch(call_closure(I, a[1], x)):
            res = Some(n)
            break
        n += 1
    if isinstance(r, Ref):
        I.store(r, it)
    return res


@reg('Iterator::for_each')
def _iter_for_each(I, a, ci, dt):
    for x in collect_iter(I, a[0]):
        call_closure(I, a[1], x)
    return UNIT


@reg('Iterator::fold')
def _iter_fold(I, a, ci, dt):
    acc = a[1]
    it = to_iter(I, a[0])
    while True:
        x, it = it.nxt(I)
        if x is None:
            return acc
        acc = call_closure(I, a[2], acc, x)


@reg('Iterator::min', 'Iterator::max')
def _iter_minmax(I, a, ci, dt):
    xs = collect_iter(I, a[0])
    if not xs:
        return NONE
    best = xs[0]
    for x in xs[1:]:
        o = compare_values(I, x, best)
        if ci.method == 'min' and o.vname == 'Less':
            best = x
        if ci.method == 'max' and o.vname != 'Less':
            best = x
    return Some(best)


@reg('Iterator::sum')
def _iter_sum(I, a, ci, dt):
    s = 0
    for x in collect_iter(I, a[0]):
        s = s + (I.deref_value(x) if isinstance(x, Ref) else x)
    return s


@reg('Iterator::collect', 'FromIterator::from_iter')
def _collect(I, a, ci, dt):
    items = collect_iter(I, a[0])
    target = (ci.generics or dt or '')
    if ci.method == 'from_iter':
        target = ci.self_ty or dt or ''
    head = target.split('<')[0]
    if 'HashMap' in head or 'BTreeMap' in head:
        c = Cell(MapVal((), 'BTreeMap' if 'BTreeMap' in head else 'HashMap'))
        for kv in items:
            map_insert(I, Ref(c, ()), kv.f[0], kv.f[1])
        return c.v
    if 'HashSet' in head or 'BTreeSet' in head:
        c = Cell(MapVal((), 'BTreeSet' if 'BTreeSet' in head else 'HashSet'))
        for k in items:
            map_insert(I, Ref(c, ()), k, UNIT)
        return c.v
    if 'String' in head:
        out = []
        for x in items:
            if isinstance(x, int) or is_sym(x):
                out.append(x)
            else:
                out.extend(as_sstr(I, x).b)
        return new_string(I, out)
    if 'Vec' in head or head.strip() in ('', '_'):
        return VecVal(items)
    if head.strip().endswith('Result'):
        out = []
        for x in items:
            if x.v == 1:
                return x
            out.append(x.f[0])
        return Ok(VecVal(out))
    raise Unmodelled('collect into %r' % target)


# itertools::merge (markdown parser) — merge two sorted iterators
@reg('Itertools::merge', 'itertools::merge')
def _merge(I, a, ci, dt):
    xs = collect_iter(I, a[0])
    ys = collect_iter(I, a[1])
    out = []
    i = j = 0
    while i < len(xs) and j < len(ys):
        # itertools::merge takes from the first iterator when a <= b
        o = compare_values(I, xs[i], ys[j])
        if o.vname != 'Greater':
            out.append(xs[i]); i += 1
        else:
            out.append(ys[j]); j += 1
    out.extend(xs[i:])
    out.extend(ys[j:])
    return ListIter(out)


# ------------------------------------------------------------------ HashMap / HashSet

def key_eq(I, k1, k2):
    return values_equal(I, k1, k2)


def map_find(I, mv, key):
    """Index of key in MapVal (forks on symbolic equality) or -1."""
    for i, e in enumerate(mv.entries):
        if I.branch(key_eq(I, e.f[0], key)):
            return i
    return -1


def map_insert(I, ref, k, v):
    r = vec_ref(I, ref)
    mv = I.load(r)
    i = map_find(I, mv, k)
    if i >= 0:
        old = mv.entries[i].f[1]
        ent = list(mv.entries)
        ent[i] = Tuple(mv.entries[i].f[0], v)
        I.store(r, MapVal(ent, mv.kind))
        return old
    I.store(r, MapVal(mv.entries + (Tuple(k, v),), mv.kind))
    return None


@reg('HashMap::new', 'HashMap::with_capacity', 'BTreeMap::new')
def _map_new(I, a, ci, dt):
    return MapVal((), 'BTreeMap' if (ci.self_ty or '').startswith('BTree') else 'HashMap')


@reg('HashSet::new', 'HashSet::with_capacity', 'BTreeSet::new')
def _set_new(I, a, ci, dt):
    return MapVal((), 'BTreeSet' if (ci.self_ty or '').startswith('BTree') else 'HashSet')


@reg('HashMap::insert')
def _map_insert(I, a, ci, dt):
    return opt(map_insert(I, a[0], a[1], a[2]))


@reg('HashSet::insert')
def _set_insert(I, a, ci, dt):
    r = vec_ref(I, a[0])
    mv = I.load(r)
    i = map_find(I, mv, a[1])
    if i >= 0:
        return False
    I.store(r, MapVal(mv.entries + (Tuple(a[1], UNIT),), mv.kind))
    return True


@reg('HashMap::get', 'HashMap::get_mut')
def _map_get(I, a, ci, dt):
    r = vec_ref(I, a[0])
    mv = I.load(r)
    i = map_find(I, mv, a[1])
    if i < 0:
        return NONE
    return Some(Ref(r.cell, r.path + (i, 1)))


@reg('HashMap::contains_key', 'HashSet::contains')
def _map_contains(I, a, ci, dt):
    r = vec_ref(I, a[0])
    return map_find(I, I.load(r), a[1]) >= 0


@reg('HashMap::remove')
def _map_remove(I, a, ci, dt):
    r = vec_ref(I, a[0])
    mv = I.load(r)
    i = map_find(I, mv, a[1])
    if i < 0:
        return NONE
    ent = list(mv.entries)
    e = ent.pop(i)
    I.store(r, MapVal(ent, mv.kind))
    return Some(e.f[1])


@reg('HashSet::remove')
def _set_remove(I, a, ci, dt):
    return _map_remove(I, a, ci, dt).v == 1


@reg('HashMap::len', 'HashSet::len')
def _map_len(I, a, ci, dt):
    return len(I.deref_value(a[0]).entries)


@reg('HashMap::is_empty', 'HashSet::is_empty')
def _map_is_empty(I, a, ci, dt):
    return len(I.deref_value(a[0]).entries) == 0


@reg('HashMap::entry')
def _map_entry(I, a, ci, dt):
    r = vec_ref(I, a[0])
    mv = I.load(r)
    i = map_find(I, mv, a[1])
    if i >= 0:
        return Enum('Entry', 0, 'Occupied', (r, i))
    return Enum('Entry', 1, 'Vacant', (r, a[1]))


def _entry_slot(I, e, make):
    r = e.f[0]
    if e.v == 0:
        return Ref(r.cell, r.path + (e.f[1], 1))
    mv = I.load(r)
    val = make()
    mv = I.load(r)
    I.store(r, MapVal(mv.entries + (Tuple(e.f[1], val),), mv.kind))
    return Ref(r.cell, r.path + (len(mv.entries), 1))


@reg('Entry::or_insert_with')
def _or_insert_with(I, a, ci, dt):
    return _entry_slot(I, a[0], lambda: call_closure(I, a[1]))


@reg('Entry::or_insert')
def _or_insert(I, a, ci, dt):
    return _entry_slot(I, a[0], lambda: a[1])


@reg('Entry::or_default')
def _or_default(I, a, ci, dt):
    m = re.search(r'Entry<.*,\s*(.*)>$', (ci.raw or ''))
    return _entry_slot(I, a[0], lambda: default_for(I, dt_inner(dt)))


def dt_inner(dt):
    t = (dt or '').strip()
    if t.startswith('&'):
        t = t[1:].strip()
        t = re.sub(r"^'\w+\s+", '', t)
        if t.startswith('mut '):
            t = t[4:]
    return t


@reg('<HashMap as From>::from', '<HashSet as From>::from')
def _map_from(I, a, ci, dt):
    arr = a[0]
    kind = 'HashSet' if 'HashSet' in ci.self_ty else 'HashMap'
    c = Cell(MapVal((), kind))
    for kv in arr.items:
        if kind == 'HashMap':
            map_insert(I, Ref(c, ()), kv.f[0], kv.f[1])
        else:
            map_insert(I, Ref(c, ()), kv, UNIT)
    return c.v


# ------------------------------------------------------------------ ranges / positions

@reg('RangeInclusive::new')
def _ri_new(I, a, ci, dt):
    return Struct('RangeInclusive', (a[0], a[1], False))


@reg('RangeInclusive::start')
def _ri_start(I, a, ci, dt):
    r = a[0]
    return Ref(r.cell, r.path + (0,))


@reg('RangeInclusive::end')
def _ri_end(I, a, ci, dt):
    r = a[0]
    return Ref(r.cell, r.path + (1,))


@reg('RangeInclusive::into_inner')
def _ri_into_inner(I, a, ci, dt):
    return Tuple(a[0].f[0], a[0].f[1])


# ------------------------------------------------------------------ closures / fn traits

@reg('FnOnce::call_once', 'FnMut::call_mut', 'Fn::call')
def _fn_call(I, a, ci, dt):
    f = a[0]
    args = a[1]
    return I.call_value(f, list(args.f))


# ------------------------------------------------------------------ threads (sequential schedule)

@reg('thread::spawn')
def _thread_spawn(I, a, ci, dt):
    try:
        r = Ok(I.call_value(a[0], []))
    except Panic as p:
        r = Err(Opaque('panic_payload', p.msg))
    return Struct('JoinHandle', (r,))


@reg('JoinHandle::join')
def _thread_join(I, a, ci, dt):
    return a[0].f[0]


# ------------------------------------------------------------------ fmt / anyhow (opaque)

@reg('Argument::new_display', 'Argument::new_debug', 'Argument::new_lower_hex')
def _fmt_arg(I, a, ci, dt):
    return Opaque('fmtarg', a[0])


@reg('Arguments::new', 'Arguments::new_const', 'Arguments::new_v1', 'Arguments::from_str', 'Arguments::from_str_nonconst')
def _fmt_arguments(I, a, ci, dt):
    return Opaque('fmtargs', tuple(a))


def render_arguments(I, args):
    """Text of a fmt::Arguments built by `Arguments::new(template, args)` (the compact template of
    current rustc: length-prefixed literal pieces, 0xC0 = next argument with default options, 0 = end)
    when every argument is a Display of a string / char-free integer; None otherwise (text stays opaque)."""
    if not (isinstance(args, Opaque) and args.tag == 'fmtargs'):
        return None
    d = args.data
    if len(d) == 1:
        t = d[0]
        t = I.deref_value(t) if isinstance(t, Ref) else t
        if isinstance(t, (SStr, SString)):
            return tuple(t.b)
        return None
    if len(d) != 2:
        return None
    tmpl = I.deref_value(d[0]) if isinstance(d[0], Ref) else d[0]
    argv = I.deref_value(d[1]) if isinstance(d[1], Ref) else d[1]
    if isinstance(tmpl, SStr):
        tb = tmpl.b
    elif isinstance(tmpl, VecVal):
        tb = tmpl.items
    else:
        return None
    if not isinstance(argv, VecVal) or not all(isinstance(x, int) for x in tb):
        return None
    out = []
    i = 0
    k = 0
    while i < len(tb):
        n = tb[i]
        i += 1
        if n == 0:
            break
        if n < 0x80:
            out.extend(tb[i:i + n])
            i += n
        elif n == 0x80:
            ln = tb[i] | (tb[i + 1] << 8)
            i += 2
            out.extend(tb[i:i + ln])
            i += ln
        elif n == 0xC0:
            if k >= len(argv.items):
                return None
            a = argv.items[k]
            k += 1
            if not (isinstance(a, Opaque) and a.tag == 'fmtarg'):
                return None
            v = a.data
            while isinstance(v, Ref):
                v = I.load(v)
            if isinstance(v, (SStr, SString)):
                out.extend(v.b)
            elif isinstance(v, int) and not isinstance(v, bool):
                out.extend(str(v).encode())
            else:
                return None
        else:
            return None
    return tuple(out)


@reg('fmt::format', 'format')
def _fmt_format(I, a, ci, dt):
    import os
    if os.environ.get('VERIF_RENDER_FMT', '1') != '0':
        b = render_arguments(I, a[0])
        if b is not None:
            return SString(b, I.new_alloc())
    return Opaque('formatted', a[0])


@reg('<impl anyhow::Error>::msg', 'Error::msg', 'anyhow::Error::msg', '__private::format_err', 'format_err')
def _anyhow_msg(I, a, ci, dt):
    return Opaque('anyhow', {'ctx': [], 'src': a[0]})


@reg('Context::context', 'Context::with_context')
def _anyhow_context(I, a, ci, dt):
    v = a[0]
    ok = (v.name == 'Result' and v.v == 0) or (v.name == 'Option' and v.v == 1)
    if ok:
        return Ok(v.f[0])
    ctx = a[1]
    if ci.method == 'with_context':
        ctx = call_closure(I, a[1])
    if v.name == 'Option':
        return Err(Opaque('anyhow', {'ctx': [ctx], 'src': None}))
    e = v.f[0]
    if isinstance(e, Opaque) and e.tag == 'anyhow':
        d = dict(e.data)
        d['ctx'] = list(d['ctx']) + [ctx]
        return Err(Opaque('anyhow', d))
    return Err(Opaque('anyhow', {'ctx': [ctx], 'src': e}))


@reg('<Error as From>::from', 'anyhow::Error::from', 'Error::from', 'Error::new')
def _anyhow_from(I, a, ci, dt):
    e = a[0]
    if isinstance(e, Opaque) and e.tag == 'anyhow':
        return e
    return Opaque('anyhow', {'ctx': [], 'src': e})


@reg('AdhocKind::anyhow_kind', 'TraitKind::anyhow_kind', 'BoxedKind::anyhow_kind')
def _anyhow_kind(I, a, ci, dt):
    return Opaque('anyhow_kind')


@reg('Adhoc::new', 'Trait::new', 'Boxed::new')
def _anyhow_kind_new(I, a, ci, dt):
    return Opaque('anyhow', {'ctx': [], 'src': a[1] if len(a) > 1 else None})


# ------------------------------------------------------------------ RefCell / Mutex (transparent)

@reg('RefCell::borrow_mut', 'RefCell::borrow', 'RefCell::get_mut', 'Mutex::get_mut')
def _refcell_borrow(I, a, ci, dt):
    return a[0]


@reg('Mutex::lock')
def _mutex_lock(I, a, ci, dt):
    return Ok(a[0])


@reg('RefCell::into_inner', 'Mutex::into_inner')
def _refcell_into_inner(I, a, ci, dt):
    return a[0]


@reg('Arc::try_unwrap', 'Rc::try_unwrap')
def _rc_try_unwrap(I, a, ci, dt):
    return Ok(I.load(a[0]))
