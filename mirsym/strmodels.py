"""String models: str / String / Path / OsStr / char.

Representation: a string is a tuple of bytes of *concrete length*; each byte is a Python
int or a Z3 Int term constrained (by the harness) to an ASCII alphabet.  Concrete bytes may
be non-ASCII (real UTF-8); symbolic bytes are always ASCII, so every symbolic byte is one
char and a char boundary.  Slices carry (allocation, offset) provenance so that pointer
differences (`a.as_ptr() as usize - b.as_ptr() as usize`) are exact.
"""
import re
import z3

from .values import *
from .models import (reg, as_sstr, new_string, opt, call_closure, bytes_equal, compare_bytes,
                     ListIter, IterVal, load_vec, sym_and, sym_or, sym_not)
from .interp import LESS, EQUAL, GREATER, cmp_scalar

WS_ASCII = (9, 10, 11, 12, 13, 32)
WS_UNICODE = set([0x85, 0xA0, 0x1680, 0x2028, 0x2029, 0x202F, 0x205F, 0x3000]) | set(range(0x2000, 0x200B))


def conc(b):
    return isinstance(b, int)


def all_conc(bs):
    for b in bs:
        if not isinstance(b, int):
            return False
    return True


def byte_in(b, vals):
    if conc(b):
        return b in vals
    return z3.Or(*[b == v for v in vals])


def byte_between(b, lo, hi):
    if conc(b):
        return lo <= b <= hi
    return z3.And(b >= lo, b <= hi)


def beq(b, k):
    if conc(b) and conc(k):
        return b == k
    return b == k


def is_boundary(bs, i):
    n = len(bs)
    if i == 0 or i == n:
        return True
    if i > n:
        return False
    b = bs[i]
    if conc(b):
        return (b & 0xC0) != 0x80
    return True


def chars_of(bs):
    """[(byte_offset, codepoint (int|sym), nbytes)]"""
    out = []
    i = 0
    n = len(bs)
    while i < n:
        b = bs[i]
        if not conc(b) or b < 0x80:
            out.append((i, b, 1))
            i += 1
            continue
        if b >= 0xF0:
            k = 4
        elif b >= 0xE0:
            k = 3
        elif b >= 0xC0:
            k = 2
        else:
            k = 1
        chunk = bs[i:i + k]
        if len(chunk) == k and all_conc(chunk):
            try:
                cp = ord(bytes(chunk).decode('utf-8'))
            except (UnicodeDecodeError, TypeError, ValueError):
                cp, k = 0xFFFD, 1
        else:
            cp, k = 0xFFFD, 1
        out.append((i, cp, k))
        i += k
    return out


def encode_cp(cp):
    if is_sym(cp):
        return (cp,)
    return tuple(chr(cp).encode('utf-8'))


def char_is_ws(c):
    if conc(c):
        return c in WS_ASCII or c in WS_UNICODE
    return byte_in(c, WS_ASCII)


def char_is_alnum(c):
    if conc(c):
        return chr(c).isalnum()
    return z3.Or(byte_between(c, 48, 57), byte_between(c, 65, 90), byte_between(c, 97, 122))


def char_is_ascii_digit(c):
    return byte_between(c, 48, 57)


@reg('char::is_whitespace')
def _c_is_ws(I, a, ci, dt):
    return char_is_ws(a[0])


@reg('char::is_alphanumeric')
def _c_is_alnum(I, a, ci, dt):
    return char_is_alnum(a[0])


@reg('char::is_ascii_digit', 'char::is_numeric', 'u8::is_ascii_digit')
def _c_is_digit(I, a, ci, dt):
    c = a[0]
    c = I.deref_value(c) if isinstance(c, Ref) else c
    return char_is_ascii_digit(c)


@reg('char::is_alphabetic', 'char::is_ascii_alphabetic', 'u8::is_ascii_alphabetic')
def _c_is_alpha(I, a, ci, dt):
    c = a[0]
    c = I.deref_value(c) if isinstance(c, Ref) else c
    if conc(c):
        return chr(c).isalpha()
    return z3.Or(byte_between(c, 65, 90), byte_between(c, 97, 122))


@reg('char::is_ascii_whitespace', 'u8::is_ascii_whitespace')
def _c_is_ascii_ws(I, a, ci, dt):
    c = a[0]
    c = I.deref_value(c) if isinstance(c, Ref) else c
    return byte_in(c, (9, 10, 12, 13, 32))


@reg('char::is_ascii')
def _c_is_ascii(I, a, ci, dt):
    c = a[0]
    c = I.deref_value(c) if isinstance(c, Ref) else c
    return c < 128 if conc(c) else True


# ------------------------------------------------------------------ patterns

class Pat:
    """A str pattern: matcher at a char position -> (cond, byte_len)."""

    def __init__(self, I, p):
        self.I = I
        p0 = p
        if isinstance(p, Ref):
            p = I.deref_value(p)
        self.kind = None
        if isinstance(p, (SStr, SString)):
            self.kind = 'str'
            self.b = p.b
        elif isinstance(p, int) or is_sym(p):
            self.kind = 'char'
            self.c = p
        elif isinstance(p, Closure) or isinstance(p, FnItem):
            self.kind = 'pred'
            self.f = p
        elif isinstance(p, VecVal):
            self.kind = 'chars'
            self.cs = p.items
        else:
            raise Unmodelled('str pattern %r' % (p0,))

    def match_at(self, bs, chars, k):
        """chars = chars_of(bs); k index into chars. Returns (cond, nbytes) or (False, 0)."""
        off, cp, nb = chars[k]
        if self.kind == 'str':
            m = len(self.b)
            if off + m > len(bs):
                return False, 0
            return bytes_equal(bs[off:off + m], self.b), m
        if self.kind == 'char':
            if conc(cp) and conc(self.c):
                return cp == self.c, nb
            if conc(self.c) and self.c >= 0x80:
                # a concrete multi-byte char against symbolic bytes: compare its UTF-8 encoding (the text is
                # valid UTF-8, so a match of the encoding at a char boundary is a match of the char)
                enc = encode_cp(self.c)
                if off + len(enc) > len(bs):
                    return False, 0
                return bytes_equal(bs[off:off + len(enc)], enc), len(enc)
            return cp == self.c, nb
        if self.kind == 'chars':
            r = False
            for c in self.cs:
                r = sym_or(r, (cp == c) if not (conc(cp) and conc(c)) else (cp == c))
            return r, nb
        if self.kind == 'pred':
            return call_closure(self.I, self.f, cp), nb
        raise EngineError(self.kind)

    def empty_str(self):
        return self.kind == 'str' and len(self.b) == 0


def find_first(I, bs, pat, start_char=0):
    """byte offset and length of first match (forks), or None."""
    if pat.empty_str():
        return 0, 0
    chars = chars_of(bs)
    for k in range(start_char, len(chars)):
        cond, nb = pat.match_at(bs, chars, k)
        if cond is False:
            continue
        if I.branch(cond):
            return chars[k][0], nb
    return None


def find_last(I, bs, pat):
    if pat.empty_str():
        return len(bs), 0
    chars = chars_of(bs)
    for k in range(len(chars) - 1, -1, -1):
        cond, nb = pat.match_at(bs, chars, k)
        if cond is False:
            continue
        if I.branch(cond):
            return chars[k][0], nb
    return None


def sub(s, a, b):
    return SStr(s.b[a:b], s.alloc, s.off + a)


# ------------------------------------------------------------------ basic str methods

@reg('str::len', 'String::len', 'OsStr::len')
def _len(I, a, ci, dt):
    return len(as_sstr(I, a[0]).b)


@reg('str::is_empty', 'String::is_empty', 'OsStr::is_empty')
def _is_empty(I, a, ci, dt):
    return len(as_sstr(I, a[0]).b) == 0


@reg('String::as_str', 'str::as_str', 'String::as_mut_str', 'PathBuf::as_path', 'Path::as_os_str', 'OsString::as_os_str',
     'OsStr::new', 'Path::new', 'String::as_bytes', 'str::as_bytes', 'Path::to_str_unchecked', 'Cow::as_ref',
     '<Cow as AsRef>::as_ref', '<String as AsRef>::as_ref', '<str as AsRef>::as_ref', '<PathBuf as AsRef>::as_ref',
     '<Path as AsRef>::as_ref', '<OsString as AsRef>::as_ref', '<OsStr as AsRef>::as_ref', '<String as Borrow>::borrow',
     '<PathBuf as Deref>::deref', '<String as Deref>::deref', '<OsString as Deref>::deref')
def _as_str(I, a, ci, dt):
    return as_sstr(I, a[0])


@reg('OsStr::to_str', 'Path::to_str')
def _to_str(I, a, ci, dt):
    return Some(as_sstr(I, a[0]))


@reg('Path::display', 'Path::to_string_lossy', 'OsStr::to_string_lossy', 'OsStr::display')
def _display(I, a, ci, dt):
    return as_sstr(I, a[0])


@reg('str::as_ptr', 'String::as_ptr')
def _as_ptr(I, a, ci, dt):
    s = as_sstr(I, a[0])
    return Ptr(s.alloc, s.off)


@reg('<str as ToString>::to_string', 'ToString::to_string', 'str::to_string', 'str::to_owned', 'ToOwned::to_owned',
     '<&str as Into>::into', 'String::from', '<String as From>::from', '<PathBuf as From>::from', '<OsString as From>::from',
     'Path::to_path_buf', 'PathBuf::from', 'OsString::from', 'str::into_string', 'Path::to_owned', 'OsStr::to_os_string',
     'Cow::into_owned', 'str::into', 'String::into', '<String as Into>::into', '<&String as Into>::into',
     'PathBuf::into_os_string', 'OsString::into_string')
def _to_string(I, a, ci, dt):
    v = a[0]
    vv = I.deref_value(v) if isinstance(v, Ref) else v
    if isinstance(vv, SString) and not isinstance(v, Ref):
        if ci.method == 'into_string':
            return Ok(vv)
        return vv                       # String -> PathBuf/OsString: same buffer
    if isinstance(vv, (SStr, SString)):
        r = new_string(I, vv.b)
        return r
    if isinstance(vv, Opaque):
        return vv
    if isinstance(vv, int) and not isinstance(vv, bool):
        return new_string(I, str(vv).encode())
    raise Unmodelled('to_string of %r' % (vv,))


@reg('String::new', 'String::with_capacity', 'PathBuf::new', 'OsString::new')
def _string_new(I, a, ci, dt):
    return new_string(I, ())


@reg('String::push_str', 'OsString::push')
def _push_str(I, a, ci, dt):
    s = I.load(a[0])
    t = as_sstr(I, a[1])
    I.store(a[0], SString(s.b + t.b, s.alloc))
    return UNIT


@reg('String::push')
def _push(I, a, ci, dt):
    s = I.load(a[0])
    I.store(a[0], SString(s.b + encode_cp(a[1]), s.alloc))
    return UNIT


@reg('String::clear', 'OsString::clear', 'PathBuf::clear')
def _clear(I, a, ci, dt):
    s = I.load(a[0])
    I.store(a[0], SString((), s.alloc))
    return UNIT


@reg('str::repeat')
def _repeat(I, a, ci, dt):
    s = as_sstr(I, a[0])
    n = I.concretize(a[1], 'repeat count')
    if n > 100000:
        raise Truncated('repeat(%d)' % n)
    return new_string(I, s.b * n)


@reg('<String as Add>::add')
def _string_add(I, a, ci, dt):
    return SString(a[0].b + as_sstr(I, a[1]).b, a[0].alloc)


def _range_bounds(I, rng, n):
    """(a, b, kind) concrete bounds of a Range*/usize index over length n."""
    if isinstance(rng, Ref):
        rng = I.deref_value(rng)
    nm = rng.name
    if nm == 'Range':
        a, b = rng.f[0], rng.f[1]
    elif nm == 'RangeFrom':
        a, b = rng.f[0], n
    elif nm == 'RangeTo':
        a, b = 0, rng.f[0]
    elif nm == 'RangeFull':
        a, b = 0, n
    elif nm == 'RangeInclusive':
        a, b = rng.f[0], rng.f[1] + 1
    elif nm == 'RangeToInclusive':
        a, b = 0, rng.f[0] + 1
    else:
        raise Unmodelled('string index by %r' % (rng,))
    a = I.concretize(a, 'slice start')
    b = I.concretize(b, 'slice end')
    return a, b


def str_index(I, tgt, rng, checked=False):
    s = as_sstr(I, tgt)
    n = len(s.b)
    a, b = _range_bounds(I, rng, n)
    bad = None
    if a > b:
        bad = 'slice index starts at %d but ends at %d' % (a, b)
    elif b > n:
        bad = 'byte index %d is out of bounds of string of length %d' % (b, n)
    elif not is_boundary(s.b, a) or not is_boundary(s.b, b):
        bad = 'byte index is not a char boundary (%d..%d)' % (a, b)
    if bad:
        if checked:
            return None
        raise Panic('str slice: ' + bad)
    return sub(s, a, b)


@reg('<str as Index>::index', '<String as Index>::index', '<str as IndexMut>::index_mut')
def _str_index(I, a, ci, dt):
    return str_index(I, a[0], a[1])


@reg('str::get')
def _str_get(I, a, ci, dt):
    return opt(str_index(I, a[0], a[1], checked=True))


@reg('str::is_char_boundary')
def _is_char_boundary(I, a, ci, dt):
    s = as_sstr(I, a[0])
    i = I.concretize(a[1])
    return is_boundary(s.b, i)


@reg('str::trim', 'str::trim_start', 'str::trim_end', 'str::trim_ascii', 'str::trim_ascii_start', 'str::trim_ascii_end')
def _trim(I, a, ci, dt):
    s = as_sstr(I, a[0])
    chars = chars_of(s.b)
    lo = 0
    hi = len(chars)
    # trim_ascii* strip u8::is_ascii_whitespace (no vertical tab, nothing beyond ASCII)
    ws = (lambda c: byte_in(c, (9, 10, 12, 13, 32))) if 'ascii' in ci.method else char_is_ws
    if ci.method in ('trim', 'trim_start', 'trim_ascii', 'trim_ascii_start'):
        while lo < hi and I.branch(ws(chars[lo][1])):
            lo += 1
    if ci.method in ('trim', 'trim_end', 'trim_ascii', 'trim_ascii_end'):
        while hi > lo and I.branch(ws(chars[hi - 1][1])):
            hi -= 1
    a0 = chars[lo][0] if lo < len(chars) else len(s.b)
    b0 = (chars[hi - 1][0] + chars[hi - 1][2]) if hi > lo else a0
    return sub(s, a0, b0)


@reg('str::trim_matches', 'str::trim_start_matches', 'str::trim_end_matches')
def _trim_matches(I, a, ci, dt):
    s = as_sstr(I, a[0])
    pat = Pat(I, a[1])
    lo = 0
    hi = len(s.b)
    if ci.method in ('trim_matches', 'trim_start_matches'):
        while lo < hi:
            chars = chars_of(s.b[lo:hi])
            if not chars:
                break
            cond, nb = pat.match_at(s.b[lo:hi], chars, 0)
            if nb and cond is not False and I.branch(cond):
                lo += nb
            else:
                break
    if ci.method in ('trim_matches', 'trim_end_matches'):
        if pat.kind == 'str':
            m = len(pat.b)
            while m and hi - lo >= m and I.branch(bytes_equal(s.b[hi - m:hi], pat.b)):
                hi -= m
        else:
            while hi > lo:
                chars = chars_of(s.b[lo:hi])
                cond, nb = pat.match_at(s.b[lo:hi], chars, len(chars) - 1)
                if cond is not False and I.branch(cond):
                    hi -= nb
                else:
                    break
    return sub(s, lo, hi)


@reg('str::starts_with')
def _starts_with(I, a, ci, dt):
    s = as_sstr(I, a[0])
    pat = Pat(I, a[1])
    if pat.empty_str():
        return True
    chars = chars_of(s.b)
    if not chars:
        return False
    cond, _nb = pat.match_at(s.b, chars, 0)
    return cond


@reg('str::ends_with')
def _ends_with(I, a, ci, dt):
    s = as_sstr(I, a[0])
    pat = Pat(I, a[1])
    if pat.kind == 'str':
        m = len(pat.b)
        if m > len(s.b):
            return False
        return bytes_equal(s.b[len(s.b) - m:], pat.b)
    chars = chars_of(s.b)
    if not chars:
        return False
    cond, _nb = pat.match_at(s.b, chars, len(chars) - 1)
    return cond


@reg('str::strip_prefix')
def _strip_prefix(I, a, ci, dt):
    s = as_sstr(I, a[0])
    pat = Pat(I, a[1])
    if pat.empty_str():
        return Some(s)
    chars = chars_of(s.b)
    if not chars:
        return NONE
    cond, nb = pat.match_at(s.b, chars, 0)
    if cond is not False and I.branch(cond):
        return Some(sub(s, nb, len(s.b)))
    return NONE


@reg('str::strip_suffix')
def _strip_suffix(I, a, ci, dt):
    s = as_sstr(I, a[0])
    pat = Pat(I, a[1])
    if pat.kind == 'str':
        m = len(pat.b)
        if m <= len(s.b) and I.branch(bytes_equal(s.b[len(s.b) - m:], pat.b)):
            return Some(sub(s, 0, len(s.b) - m))
        return NONE
    chars = chars_of(s.b)
    if chars:
        cond, nb = pat.match_at(s.b, chars, len(chars) - 1)
        if cond is not False and I.branch(cond):
            return Some(sub(s, 0, len(s.b) - nb))
    return NONE


@reg('str::find')
def _find(I, a, ci, dt):
    s = as_sstr(I, a[0])
    r = find_first(I, s.b, Pat(I, a[1]))
    return NONE if r is None else Some(r[0])


@reg('str::rfind')
def _rfind(I, a, ci, dt):
    s = as_sstr(I, a[0])
    r = find_last(I, s.b, Pat(I, a[1]))
    return NONE if r is None else Some(r[0])


@reg('str::contains')
def _contains(I, a, ci, dt):
    s = as_sstr(I, a[0])
    return find_first(I, s.b, Pat(I, a[1])) is not None


@reg('str::split_once')
def _split_once(I, a, ci, dt):
    s = as_sstr(I, a[0])
    r = find_first(I, s.b, Pat(I, a[1]))
    if r is None:
        return NONE
    off, nb = r
    return Some(Tuple(sub(s, 0, off), sub(s, off + nb, len(s.b))))


@reg('str::rsplit_once')
def _rsplit_once(I, a, ci, dt):
    s = as_sstr(I, a[0])
    r = find_last(I, s.b, Pat(I, a[1]))
    if r is None:
        return NONE
    off, nb = r
    return Some(Tuple(sub(s, 0, off), sub(s, off + nb, len(s.b))))


def split_all(I, s, pat, inclusive=False):
    """Eager split (forks on each possible separator position)."""
    out = []
    start = 0
    chars = chars_of(s.b)
    k = 0
    while k < len(chars):
        cond, nb = pat.match_at(s.b, chars, k)
        if cond is not False and nb and I.branch(cond):
            off = chars[k][0]
            out.append(sub(s, start, off + nb if inclusive else off))
            start = off + nb
            # advance k past the match
            while k < len(chars) and chars[k][0] < start:
                k += 1
            continue
        k += 1
    if inclusive:
        if start < len(s.b):
            out.append(sub(s, start, len(s.b)))
    else:
        out.append(sub(s, start, len(s.b)))
    return out


class LazySplit(IterVal):
    """split / split_inclusive / lines evaluated lazily: one piece per next()."""
    __slots__ = ('s', 'pat', 'mode', 'done')

    def __init__(self, s, pat, mode, done=False):
        self.s = s
        self.pat = pat
        self.mode = mode   # 'split' | 'inclusive' | 'lines' | 'terminator'
        self.done = done

    def nxt(self, I):
        if self.done:
            return None, self
        s = self.s
        if self.mode in ('inclusive', 'lines') and len(s.b) == 0:
            return None, LazySplit(s, self.pat, self.mode, True)
        r = find_first(I, s.b, self.pat)
        if r is None:
            piece = s
            rest = LazySplit(sub(s, len(s.b), len(s.b)), self.pat, self.mode, True)
        else:
            off, nb = r
            piece = sub(s, 0, off + nb if self.mode == 'inclusive' else off)
            rest_s = sub(s, off + nb, len(s.b))
            rest = LazySplit(rest_s, self.pat, self.mode, False)
        if self.mode == 'lines':
            # strip one trailing '\r'
            if len(piece.b) and I.branch(beq(piece.b[-1], 13)):
                piece = sub(piece, 0, len(piece.b) - 1)
        return piece, rest

    def nxt_back(self, I):
        # double-ended use: materialise the remaining pieces front to back, hand out the last one
        from .models import ListIter
        items, it = [], self
        while True:
            x, it = it.nxt(I)
            if x is None:
                break
            items.append(x)
            if len(items) > 100000:
                raise Truncated('split too long')
        if not items:
            return None, ListIter([])
        return items[-1], ListIter(items[:-1])


@reg('str::split')
def _split(I, a, ci, dt):
    return LazySplit(as_sstr(I, a[0]), Pat(I, a[1]), 'split')


@reg('str::split_inclusive')
def _split_inclusive(I, a, ci, dt):
    return LazySplit(as_sstr(I, a[0]), Pat(I, a[1]), 'inclusive')


@reg('str::lines')
def _lines(I, a, ci, dt):
    return LazySplit(as_sstr(I, a[0]), Pat(I, 10), 'lines')


@reg('str::split_whitespace', 'str::split_ascii_whitespace')
def _split_ws(I, a, ci, dt):
    s = as_sstr(I, a[0])
    out = []
    chars = chars_of(s.b)
    cur = None
    for off, cp, nb in chars:
        if I.branch(char_is_ws(cp)):
            if cur is not None:
                out.append(sub(s, cur, off))
                cur = None
        elif cur is None:
            cur = off
    if cur is not None:
        out.append(sub(s, cur, len(s.b)))
    return ListIter(out)


@reg('str::match_indices')
def _match_indices(I, a, ci, dt):
    s = as_sstr(I, a[0])
    pat = Pat(I, a[1])
    out = []
    chars = chars_of(s.b)
    k = 0
    while k < len(chars):
        cond, nb = pat.match_at(s.b, chars, k)
        if cond is not False and nb and I.branch(cond):
            off = chars[k][0]
            out.append(Tuple(off, sub(s, off, off + nb)))
            while k < len(chars) and chars[k][0] < off + nb:
                k += 1
            continue
        k += 1
    return ListIter(out)


@reg('str::chars')
def _chars(I, a, ci, dt):
    s = as_sstr(I, a[0])
    return ListIter([cp for (_o, cp, _n) in chars_of(s.b)])


@reg('str::char_indices')
def _char_indices(I, a, ci, dt):
    s = as_sstr(I, a[0])
    return ListIter([Tuple(o, cp) for (o, cp, _n) in chars_of(s.b)])


@reg('str::bytes')
def _bytes(I, a, ci, dt):
    return ListIter(as_sstr(I, a[0]).b)


@reg('str::replacen', 'str::replace')
def _replacen(I, a, ci, dt):
    s = as_sstr(I, a[0])
    pat = Pat(I, a[1])
    to = as_sstr(I, a[2]).b
    limit = I.concretize(a[3]) if ci.method == 'replacen' else 1 << 30
    out = []
    pos = 0
    cnt = 0
    bs = s.b
    while cnt < limit:
        r = find_first(I, bs[pos:], pat)
        if r is None:
            break
        off, nb = r
        if nb == 0:
            break
        out.extend(bs[pos:pos + off])
        out.extend(to)
        pos = pos + off + nb
        cnt += 1
    out.extend(bs[pos:])
    return new_string(I, out)


def lower_byte(b):
    if conc(b):
        return b + 32 if 65 <= b <= 90 else b
    return z3.If(z3.And(b >= 65, b <= 90), b + 32, b)


def upper_byte(b):
    if conc(b):
        return b - 32 if 97 <= b <= 122 else b
    return z3.If(z3.And(b >= 97, b <= 122), b - 32, b)


@reg('str::to_lowercase', 'str::to_ascii_lowercase', 'str::to_uppercase', 'str::to_ascii_uppercase')
def _to_lower(I, a, ci, dt):
    s = as_sstr(I, a[0])
    lower = 'lower' in ci.method
    if all_conc(s.b) and 'ascii' not in ci.method:
        try:
            t = bytes(s.b).decode('utf-8')
            t = t.lower() if lower else t.upper()
            return new_string(I, t.encode('utf-8'))
        except UnicodeDecodeError:
            pass
    f = lower_byte if lower else upper_byte
    return new_string(I, [f(b) if (not conc(b) or b < 128) else b for b in s.b])


@reg('str::eq_ignore_ascii_case')
def _eq_ignore_case(I, a, ci, dt):
    x = as_sstr(I, a[0]).b
    y = as_sstr(I, a[1]).b
    if len(x) != len(y):
        return False
    return bytes_equal([lower_byte(b) for b in x], [lower_byte(b) for b in y])


@reg('<str as PartialEq>::eq', '<String as PartialEq>::eq', '<&str as PartialEq>::eq', '<PathBuf as PartialEq>::eq',
     '<OsString as PartialEq>::eq', '<Path as PartialEq>::eq', '<OsStr as PartialEq>::eq')
def _str_eq(I, a, ci, dt):
    return bytes_equal(as_sstr(I, a[0]).b, as_sstr(I, a[1]).b)


@reg('<str as PartialEq>::ne', '<String as PartialEq>::ne', '<&str as PartialEq>::ne', '<PathBuf as PartialEq>::ne')
def _str_ne(I, a, ci, dt):
    return sym_not(bytes_equal(as_sstr(I, a[0]).b, as_sstr(I, a[1]).b))


@reg('<str as Ord>::cmp', '<String as Ord>::cmp', '<&str as Ord>::cmp')
def _str_cmp(I, a, ci, dt):
    return compare_bytes(I, as_sstr(I, a[0]).b, as_sstr(I, a[1]).b)


# ------------------------------------------------------------------ parsing numbers

class FloatVal:
    """f64 restricted to what the bounds need: an exactly representable integer value
    (possibly symbolic) or a concrete Python float."""
    __slots__ = ('kind', 'v', 'negzero')

    def __init__(self, kind, v, negzero=False):
        self.kind = kind     # 'int' | 'py'
        self.v = v
        self.negzero = negzero

    def __repr__(self):
        return 'f64(%s,%r)' % (self.kind, self.v)


def digits_value(bs):
    v = 0
    for b in bs:
        v = v * 10 + (b - 48)
    return v


def parse_uint(I, s, ty):
    from .interp import int_range
    lo, hi = int_range(ty)
    bs = s.b
    if len(bs) == 0:
        return Err(Opaque('ParseIntError', 'empty'))
    neg = False
    if I.branch(beq(bs[0], 43)):
        bs = bs[1:]
    elif lo < 0 and I.branch(beq(bs[0], 45)):
        bs = bs[1:]
        neg = True
    if len(bs) == 0:
        return Err(Opaque('ParseIntError', 'invalid digit'))
    for b in bs:
        if not I.branch(byte_between(b, 48, 57)):
            return Err(Opaque('ParseIntError', 'invalid digit'))
    v = digits_value(bs)
    if neg:
        v = -v
    if conc(v):
        if not (lo <= v <= hi):
            return Err(Opaque('ParseIntError', 'overflow'))
        return Ok(v)
    if len(bs) >= len(str(hi)):
        if not I.branch(z3.And(v >= lo, v <= hi)):
            return Err(Opaque('ParseIntError', 'overflow'))
    return Ok(v)


_FLOAT_RE = re.compile(r'^[+-]?(\d+\.?\d*([eE][+-]?\d+)?|\.\d+([eE][+-]?\d+)?|inf|infinity|nan)$', re.I)


def parse_f64(I, s):
    bs = s.b
    if all_conc(bs):
        try:
            t = bytes(bs).decode('utf-8')
        except UnicodeDecodeError:
            return Err(Opaque('ParseFloatError'))
        if not _FLOAT_RE.match(t):
            return Err(Opaque('ParseFloatError'))
        try:
            return Ok(FloatVal('py', float(t)))
        except ValueError:
            return Err(Opaque('ParseFloatError'))
    # symbolic: only the integer-literal fragment  [+-]?[0-9]{1,15}  is modelled exactly;
    # any other valid float syntax over the alphabet is outside the stated bound.
    if len(bs) == 0:
        return Err(Opaque('ParseFloatError'))
    neg = False
    if I.branch(beq(bs[0], 45)):
        neg = True
        bs = bs[1:]
    elif I.branch(beq(bs[0], 43)):
        bs = bs[1:]
    if len(bs) == 0:
        return Err(Opaque('ParseFloatError'))
    if len(bs) > 15:
        raise Unmodelled('symbolic f64 literal longer than 15 digits')
    for b in bs:
        if not I.branch(byte_between(b, 48, 57)):
            # other float syntax: '.', 'e', 'inf', 'nan' ...
            if I.branch(byte_in(b, (46, 101, 69, 105, 73, 110, 78))):
                raise Unmodelled('symbolic non-integer f64 literal (outside the stated bound)')
            return Err(Opaque('ParseFloatError'))
    v = digits_value(bs)
    if neg:
        v = -v
    return Ok(FloatVal('int', v, negzero=neg))


@reg('str::parse')
def _parse(I, a, ci, dt):
    s = as_sstr(I, a[0])
    ty = (ci.generics or '').strip()
    if not ty and dt:
        m = re.match(r'^(?:std::result::)?Result<(\w+),', dt)
        ty = m.group(1) if m else ''
    from .interp import INT_BITS
    if ty in INT_BITS:
        return parse_uint(I, s, ty)
    if ty in ('f64', 'f32'):
        return parse_f64(I, s)
    if ty == 'bool':
        if I.branch(bytes_equal(s.b, tuple(b'true'))):
            return Ok(True)
        if I.branch(bytes_equal(s.b, tuple(b'false'))):
            return Ok(False)
        return Err(Opaque('ParseBoolError'))
    if ty.endswith('String'):
        return Ok(new_string(I, s.b))
    raise Unmodelled('str::parse::<%s>' % ty)


def _fkey(f):
    return f.v


@reg('f64::total_cmp', 'f64::partial_cmp', '<f64 as PartialOrd>::partial_cmp')
def _total_cmp(I, a, ci, dt):
    x = I.deref_value(a[0]) if isinstance(a[0], Ref) else a[0]
    y = I.deref_value(a[1]) if isinstance(a[1], Ref) else a[1]
    if ci.method == 'partial_cmp':
        # IEEE comparison: -0 == +0, NaN is unordered
        if x.kind == 'py' and y.kind == 'py':
            if x.v != x.v or y.v != y.v:
                return NONE
            return Some(LESS() if x.v < y.v else (EQUAL() if x.v == y.v else GREATER()))
        xv = x.v if x.kind == 'int' else None
        yv = y.v if y.kind == 'int' else None
        for f, which in ((x, 'x'), (y, 'y')):
            if f.kind == 'py':
                if f.v != f.v:
                    return NONE
                if f.v in (float('inf'), float('-inf')) or f.v != int(f.v):
                    raise Unmodelled('mixed float comparison')
                if which == 'x':
                    xv = int(f.v)
                else:
                    yv = int(f.v)
        if I.branch(cmp_scalar('Lt', xv, yv)):
            return Some(LESS())
        if I.branch(cmp_scalar('Gt', xv, yv)):
            return Some(GREATER())
        return Some(EQUAL())
    if x.kind == 'py' and y.kind == 'py':
        import struct

        def key(v):
            bits = struct.unpack('<q', struct.pack('<d', v))[0]
            if bits < 0:
                bits ^= 0x7FFFFFFFFFFFFFFF
            return bits
        kx, ky = key(x.v), key(y.v)
        r = LESS() if kx < ky else (EQUAL() if kx == ky else GREATER())
    else:
        xv = x.v if x.kind == 'int' else None
        yv = y.v if y.kind == 'int' else None
        if xv is None or yv is None:
            # mixed concrete float / symbolic int
            fx = x if x.kind == 'py' else y
            if fx.v != fx.v or fx.v in (float('inf'), float('-inf')) or fx.v != int(fx.v):
                raise Unmodelled('mixed float comparison')
            if xv is None:
                xv = int(fx.v)
                x = FloatVal('int', xv, negzero=(str(fx.v).startswith('-')))
            else:
                yv = int(fx.v)
                y = FloatVal('int', yv, negzero=(str(fx.v).startswith('-')))
        if I.branch(cmp_scalar('Lt', xv, yv)):
            r = LESS()
        elif I.branch(cmp_scalar('Gt', xv, yv)):
            r = GREATER()
        else:
            # equal values: -0.0 < +0.0 in the total order
            if x.negzero != y.negzero and I.branch(cmp_scalar('Eq', xv, 0)):
                r = LESS() if x.negzero else GREATER()
            else:
                r = EQUAL()
    return r


# ------------------------------------------------------------------ paths

@reg('Path::file_name')
def _file_name(I, a, ci, dt):
    s = as_sstr(I, a[0])
    bs = s.b
    n = len(bs)
    # strip trailing separators
    while n > 0 and I.branch(beq(bs[n - 1], 47)):
        n -= 1
    if n == 0:
        return NONE
    k = n
    while k > 0 and not I.branch(beq(bs[k - 1], 47)):
        k -= 1
    name = sub(s, k, n)
    if len(name.b) == 2 and I.branch(bytes_equal(name.b, (46, 46))):
        return NONE
    if len(name.b) == 1 and I.branch(bytes_equal(name.b, (46,))):
        # "a/." -> file_name is "a" in std (the "." component is normalised away)
        rest = sub(s, 0, k)
        if len(rest.b) == 0:
            return NONE
        return _file_name(I, [rest], ci, dt)
    return Some(name)


@reg('Path::join')
def _path_join(I, a, ci, dt):
    base = as_sstr(I, a[0]).b
    p = as_sstr(I, a[1]).b
    if len(p) and I.branch(beq(p[0], 47)):
        return new_string(I, p)
    if len(base) == 0:
        return new_string(I, p)
    if I.branch(beq(base[-1], 47)):
        return new_string(I, base + p)
    return new_string(I, base + (47,) + p)


@reg('Path::extension')
def _path_extension(I, a, ci, dt):
    fn = _file_name(I, a, ci, dt)
    if fn.v == 0:
        return NONE
    name = fn.f[0]
    r = find_last(I, name.b, Pat(I, 46))
    if r is None or r[0] == 0:
        return NONE
    return Some(sub(name, r[0] + 1, len(name.b)))


@reg('Path::is_absolute')
def _is_absolute(I, a, ci, dt):
    p = as_sstr(I, a[0]).b
    return len(p) > 0 and beq(p[0], 47)


def path_components(I, bs):
    """[(start, end)] of the normal components of a Unix path (empty and `.` components dropped, as
    std::path::Components does; `..` is kept), and whether the path is absolute."""
    comps = []
    n = len(bs)
    i = 0
    absolute = n > 0 and I.branch(beq(bs[0], 47))
    while i < n:
        if I.branch(beq(bs[i], 47)):
            i += 1
            continue
        j = i
        while j < n and not I.branch(beq(bs[j], 47)):
            j += 1
        if j - i == 1 and I.branch(beq(bs[i], 46)) and (comps or absolute):
            pass          # a `.` that is not the very first component of a relative path
        else:
            comps.append((i, j))
        i = j
    return comps, absolute


@reg('Path::strip_prefix')
def _path_strip_prefix(I, a, ci, dt):
    s = as_sstr(I, a[0])
    base = as_sstr(I, a[1])
    sc, sabs = path_components(I, s.b)
    bc, babs = path_components(I, base.b)
    err = Err(Struct('StripPrefixError', ()))
    if sabs != babs or len(bc) > len(sc):
        return err
    for (x0, x1), (y0, y1) in zip(sc, bc):
        if x1 - x0 != y1 - y0 or not I.branch(bytes_equal(s.b[x0:x1], base.b[y0:y1])):
            return err
    rest = sc[len(bc):]
    if not rest:
        return Ok(sub(s, len(s.b), len(s.b)))
    return Ok(sub(s, rest[0][0], rest[-1][1]))


@reg('Path::ancestors')
def _path_ancestors(I, a, ci, dt):
    from .models import ListIter
    s = as_sstr(I, a[0])
    comps, absolute = path_components(I, s.b)
    out = [s]
    for k in range(len(comps) - 1, 0, -1):
        out.append(sub(s, 0, comps[k - 1][1]))
    if comps:
        out.append(sub(s, 0, 1 if absolute else 0))
    return ListIter(out)


@reg('Path::starts_with')
def _path_starts_with(I, a, ci, dt):
    r = _path_strip_prefix(I, a, ci, dt)
    return r.v == 0


@reg('Path::parent')
def _path_parent(I, a, ci, dt):
    s = as_sstr(I, a[0])
    comps, absolute = path_components(I, s.b)
    if not comps:
        return NONE
    if len(comps) == 1:
        return Some(sub(s, 0, 1 if absolute else 0))
    return Some(sub(s, 0, comps[-2][1]))
