"""String models (filled in below)."""
from .values import *
from .models import reg
