"""More std vocabulary than the current code calls, so that behaviour-preserving refactors
stay decidable (DESIGN §2.5)."""
import z3

from .values import *
from .models import *     # noqa
from .models import (reg, opt, call_closure, collect_iter, to_iter, load_vec, vec_ref, as_sstr, new_string,
                     values_equal, compare_values, ListIter, IterVal, sym_or, sym_and, sym_not, clone_value)
from .strmodels import (Pat, chars_of, find_first, find_last, sub, split_all, char_is_ws, lower_byte, upper_byte,
                        beq, byte_between, encode_cp)
from .interp import cmp_scalar, wrap


# ------------------------------------------------------------------ str

@reg('str::matches', 'str::rmatches')
def _matches(I, a, ci, dt):
    s = as_sstr(I, a[0])
    pat = Pat(I, a[1])
    out = []
    chars = chars_of(s.b)
    k = 0
    while k < len(chars):
        cond, nb = pat.match_at(s.b, chars, k)
        if cond is not False and nb and I.branch(cond):
            off = chars[k][0]
            out.append(sub(s, off, off + nb))
            while k < len(chars) and chars[k][0] < off + nb:
                k += 1
            continue
        k += 1
    if ci.method == 'rmatches':
        out.reverse()
    return ListIter(out)


@reg('str::rmatch_indices')
def _rmatch_indices(I, a, ci, dt):
    from .strmodels import _match_indices
    it = _match_indices(I, a, ci, dt)
    return ListIter(list(reversed(it.items)))


@reg('str::rsplit')
def _rsplit(I, a, ci, dt):
    s = as_sstr(I, a[0])
    return ListIter(list(reversed(split_all(I, s, Pat(I, a[1])))))


@reg('str::split_terminator')
def _split_terminator(I, a, ci, dt):
    s = as_sstr(I, a[0])
    parts = split_all(I, s, Pat(I, a[1]))
    if parts and len(parts[-1].b) == 0:
        parts = parts[:-1]
    return ListIter(parts)


@reg('str::splitn')
def _splitn(I, a, ci, dt):
    s = as_sstr(I, a[0])
    n = I.concretize(a[1])
    pat = Pat(I, a[2])
    out = []
    rest = s
    while n > 1:
        r = find_first(I, rest.b, pat)
        if r is None:
            break
        off, nb = r
        out.append(sub(rest, 0, off))
        rest = sub(rest, off + nb, len(rest.b))
        n -= 1
    if n >= 1:
        out.append(rest)
    return ListIter(out)


@reg('str::rsplitn')
def _rsplitn(I, a, ci, dt):
    s = as_sstr(I, a[0])
    n = I.concretize(a[1])
    pat = Pat(I, a[2])
    out = []
    rest = s
    while n > 1:
        r = find_last(I, rest.b, pat)
        if r is None:
            break
        off, nb = r
        out.append(sub(rest, off + nb, len(rest.b)))
        rest = sub(rest, 0, off)
        n -= 1
    if n >= 1:
        out.append(rest)
    return ListIter(out)


@reg('str::split_at')
def _str_split_at(I, a, ci, dt):
    s = as_sstr(I, a[0])
    i = I.concretize(a[1])
    from .strmodels import is_boundary
    if i > len(s.b) or not is_boundary(s.b, i):
        raise Panic('str::split_at: index %d out of range or not a char boundary' % i)
    return Tuple(sub(s, 0, i), sub(s, i, len(s.b)))


@reg('str::is_ascii')
def _str_is_ascii(I, a, ci, dt):
    s = as_sstr(I, a[0])
    return all((not isinstance(b, int)) or b < 128 for b in s.b)


@reg('char::to_ascii_lowercase', 'char::to_lowercase')
def _c_lower(I, a, ci, dt):
    c = I.deref_value(a[0]) if isinstance(a[0], Ref) else a[0]
    return lower_byte(c) if (not isinstance(c, int) or c < 128) else ord(chr(c).lower()[0])


@reg('char::to_ascii_uppercase', 'char::to_uppercase')
def _c_upper(I, a, ci, dt):
    c = I.deref_value(a[0]) if isinstance(a[0], Ref) else a[0]
    return upper_byte(c) if (not isinstance(c, int) or c < 128) else ord(chr(c).upper()[0])


@reg('char::len_utf8')
def _c_len_utf8(I, a, ci, dt):
    c = a[0]
    return len(encode_cp(c))


@reg('char::is_ascii_punctuation')
def _c_is_punct(I, a, ci, dt):
    c = I.deref_value(a[0]) if isinstance(a[0], Ref) else a[0]
    rs = [(33, 47), (58, 64), (91, 96), (123, 126)]
    if isinstance(c, int):
        return any(lo <= c <= hi for lo, hi in rs)
    return z3.Or(*[z3.And(c >= lo, c <= hi) for lo, hi in rs])


@reg('char::is_lowercase', 'char::is_ascii_lowercase')
def _c_is_lower(I, a, ci, dt):
    c = I.deref_value(a[0]) if isinstance(a[0], Ref) else a[0]
    return byte_between(c, 97, 122) if not isinstance(c, int) else chr(c).islower()


@reg('char::is_uppercase', 'char::is_ascii_uppercase')
def _c_is_upper(I, a, ci, dt):
    c = I.deref_value(a[0]) if isinstance(a[0], Ref) else a[0]
    return byte_between(c, 65, 90) if not isinstance(c, int) else chr(c).isupper()


@reg('char::is_ascii_alphanumeric')
def _c_is_ascii_alnum(I, a, ci, dt):
    c = I.deref_value(a[0]) if isinstance(a[0], Ref) else a[0]
    if isinstance(c, int):
        return c < 128 and chr(c).isalnum()
    return z3.Or(byte_between(c, 48, 57), byte_between(c, 65, 90), byte_between(c, 97, 122))


@reg('String::insert_str')
def _insert_str(I, a, ci, dt):
    s = I.load(a[0])
    i = I.concretize(a[1])
    t = as_sstr(I, a[2]).b
    if i > len(s.b):
        raise Panic('String::insert_str out of bounds')
    I.store(a[0], SString(s.b[:i] + t + s.b[i:], s.alloc))
    return UNIT


@reg('String::insert')
def _insert_ch(I, a, ci, dt):
    s = I.load(a[0])
    i = I.concretize(a[1])
    if i > len(s.b):
        raise Panic('String::insert out of bounds')
    I.store(a[0], SString(s.b[:i] + encode_cp(a[2]) + s.b[i:], s.alloc))
    return UNIT


@reg('String::truncate')
def _truncate(I, a, ci, dt):
    s = I.load(a[0])
    n = I.concretize(a[1])
    if n < len(s.b):
        I.store(a[0], SString(s.b[:n], s.alloc))
    return UNIT


@reg('String::pop')
def _string_pop(I, a, ci, dt):
    s = I.load(a[0])
    cs = chars_of(s.b)
    if not cs:
        return NONE
    off, cp, nb = cs[-1]
    I.store(a[0], SString(s.b[:off], s.alloc))
    return Some(cp)


@reg('String::chars')
def _string_chars(I, a, ci, dt):
    s = as_sstr(I, a[0])
    return ListIter([cp for (_o, cp, _n) in chars_of(s.b)])


@reg('String::extend')
def _string_extend(I, a, ci, dt):
    s = I.load(a[0])
    out = list(s.b)
    for x in collect_iter(I, a[1]):
        if isinstance(x, int) or is_sym(x):
            out.extend(encode_cp(x))
        else:
            out.extend(as_sstr(I, x).b)
    I.store(a[0], SString(out, s.alloc))
    return UNIT


# ------------------------------------------------------------------ ints

@reg('usize::saturating_add', 'u64::saturating_add', 'u32::saturating_add')
def _sat_add(I, a, ci, dt):
    r = a[0] + a[1]
    m = (1 << 64) - 1
    if isinstance(r, int):
        return min(r, m)
    return r if I.branch(r <= m) else m


@reg('usize::abs_diff', 'u64::abs_diff')
def _abs_diff(I, a, ci, dt):
    x, y = a[0], a[1]
    if isinstance(x, int) and isinstance(y, int):
        return abs(x - y)
    return x - y if I.branch(x >= y) else y - x


@reg('usize::checked_mul')
def _checked_mul(I, a, ci, dt):
    r = a[0] * a[1]
    return Some(r) if I.branch(cmp_scalar('Le', r, (1 << 64) - 1)) else NONE


@reg('usize::pow', 'u64::pow')
def _pow(I, a, ci, dt):
    e = I.concretize(a[1])
    r = 1
    for _ in range(e):
        r = r * a[0]
    return r


@reg('usize::is_power_of_two')
def _is_pow2(I, a, ci, dt):
    v = I.concretize(a[0])
    return v > 0 and (v & (v - 1)) == 0


@reg('<usize as Default>::default', 'usize::default')
def _usize_default(I, a, ci, dt):
    return 0


@reg('<usize as ToString>::to_string', 'usize::to_string')
def _usize_to_string(I, a, ci, dt):
    v = a[0]
    v = I.deref_value(v) if isinstance(v, Ref) else v
    v = I.concretize(v)
    return new_string(I, str(v).encode())


# ------------------------------------------------------------------ Option / Result extras

@reg('Option::zip')
def _opt_zip(I, a, ci, dt):
    if a[0].v == 1 and a[1].v == 1:
        return Some(Tuple(a[0].f[0], a[1].f[0]))
    return NONE


@reg('Option::xor')
def _opt_xor(I, a, ci, dt):
    if a[0].v == 1 and a[1].v == 0:
        return a[0]
    if a[0].v == 0 and a[1].v == 1:
        return a[1]
    return NONE


@reg('Option::and')
def _opt_and(I, a, ci, dt):
    return a[1] if a[0].v == 1 else NONE


@reg('Option::insert', 'Option::replace')
def _opt_insert(I, a, ci, dt):
    old = I.load(a[0])
    I.store(a[0], Some(a[1]))
    if ci.method == 'replace':
        return old
    return Ref(a[0].cell, a[0].path + (0,))


@reg('Option::get_or_insert_with')
def _opt_get_or_insert_with(I, a, ci, dt):
    v = I.load(a[0])
    if v.v == 0:
        I.store(a[0], Some(call_closure(I, a[1])))
    return Ref(a[0].cell, a[0].path + (0,))


@reg('Option::get_or_insert')
def _opt_get_or_insert(I, a, ci, dt):
    v = I.load(a[0])
    if v.v == 0:
        I.store(a[0], Some(a[1]))
    return Ref(a[0].cell, a[0].path + (0,))


@reg('Option::unwrap_unchecked', 'Result::unwrap_unchecked')
def _unwrap_unchecked(I, a, ci, dt):
    return a[0].f[0]


@reg('Result::unwrap_err', 'Result::expect_err')
def _unwrap_err(I, a, ci, dt):
    if a[0].v == 0:
        raise Panic('called `Result::unwrap_err()` on an `Ok` value')
    return a[0].f[0]


@reg('Result::or_else')
def _res_or_else(I, a, ci, dt):
    if a[0].v == 0:
        return a[0]
    return call_closure(I, a[1], a[0].f[0])


@reg('Result::map_or')
def _res_map_or(I, a, ci, dt):
    if a[0].v == 1:
        return a[1]
    return call_closure(I, a[2], a[0].f[0])


@reg('Result::map_or_else')
def _res_map_or_else(I, a, ci, dt):
    if a[0].v == 1:
        return call_closure(I, a[1], a[0].f[0])
    return call_closure(I, a[2], a[0].f[0])


@reg('Option::flatten')
def _opt_flatten(I, a, ci, dt):
    return a[0].f[0] if a[0].v == 1 else NONE


@reg('Option::inspect', 'Result::inspect')
def _inspect(I, a, ci, dt):
    return a[0]


@reg('Option::transpose')
def _opt_transpose(I, a, ci, dt):
    v = a[0]
    if v.v == 0:
        return Ok(NONE)
    r = v.f[0]
    if r.v == 0:
        return Ok(Some(r.f[0]))
    return r


# ------------------------------------------------------------------ Vec / slice extras

@reg('Vec::insert', 'VecDeque::insert')
def _vec_insert(I, a, ci, dt):
    v = I.load(a[0])
    i = I.concretize(a[1])
    if i > len(v.items):
        raise Panic('insertion index (is %d) should be <= len (is %d)' % (i, len(v.items)))
    I.store(a[0], VecVal(v.items[:i] + (a[2],) + v.items[i:]))
    return UNIT


@reg('Vec::remove')
def _vec_remove(I, a, ci, dt):
    v = I.load(a[0])
    i = I.concretize(a[1])
    if i >= len(v.items):
        raise Panic('removal index (is %d) should be < len (is %d)' % (i, len(v.items)))
    I.store(a[0], VecVal(v.items[:i] + v.items[i + 1:]))
    return v.items[i]


@reg('VecDeque::remove')
def _deque_remove(I, a, ci, dt):
    v = I.load(a[0])
    i = I.concretize(a[1])
    if i >= len(v.items):
        return NONE
    I.store(a[0], VecVal(v.items[:i] + v.items[i + 1:]))
    return Some(v.items[i])


@reg('Vec::swap_remove')
def _swap_remove(I, a, ci, dt):
    v = I.load(a[0])
    i = I.concretize(a[1])
    if i >= len(v.items):
        raise Panic('swap_remove index out of bounds')
    it = list(v.items)
    x = it[i]
    it[i] = it[-1]
    it.pop()
    I.store(a[0], VecVal(it))
    return x


@reg('Vec::truncate', 'VecDeque::truncate')
def _vec_truncate(I, a, ci, dt):
    v = I.load(a[0])
    n = I.concretize(a[1])
    I.store(a[0], VecVal(v.items[:n]))
    return UNIT


@reg('Vec::retain', 'VecDeque::retain')
def _vec_retain(I, a, ci, dt):
    v = I.load(a[0])
    out = []
    for x in v.items:
        if I.branch(call_closure(I, a[1], Ref(Cell(x), ()))):
            out.append(x)
    I.store(a[0], VecVal(out))
    return UNIT


@reg('Vec::dedup')
def _vec_dedup(I, a, ci, dt):
    v = I.load(a[0])
    out = []
    for x in v.items:
        if out and I.branch(values_equal(I, out[-1], x)):
            continue
        out.append(x)
    I.store(a[0], VecVal(out))
    return UNIT


@reg('Vec::append')
def _vec_append(I, a, ci, dt):
    v = I.load(a[0])
    w = I.load(a[1])
    I.store(a[0], VecVal(v.items + w.items))
    I.store(a[1], VecVal(()))
    return UNIT


@reg('Vec::extend_from_slice')
def _extend_from_slice(I, a, ci, dt):
    v = I.load(a[0])
    w = load_vec(I, a[1])
    I.store(a[0], VecVal(v.items + tuple(clone_value(I, x) for x in w.items)))
    return UNIT


@reg('[]::to_vec', 'Vec::to_vec', '[]::to_owned', '[]::into_vec')
def _to_vec(I, a, ci, dt):
    v = load_vec(I, a[0])
    return VecVal([clone_value(I, x) for x in v.items])


@reg('[]::reverse', 'Vec::reverse')
def _reverse(I, a, ci, dt):
    r = vec_ref(I, a[0])
    v = I.load(r)
    I.store(r, VecVal(tuple(reversed(v.items))))
    return UNIT


@reg('[]::windows')
def _windows(I, a, ci, dt):
    r = vec_ref(I, a[0])
    v = I.load(r)
    n = I.concretize(a[1])
    if n == 0:
        raise Panic('window size must be non-zero')
    out = []
    for i in range(0, len(v.items) - n + 1):
        out.append(Ref(Cell(VecVal(v.items[i:i + n])), ()))
    return ListIter(out)


@reg('[]::chunks')
def _chunks(I, a, ci, dt):
    v = load_vec(I, a[0])
    n = I.concretize(a[1])
    if n == 0:
        raise Panic('chunk size must be non-zero')
    return ListIter([Ref(Cell(VecVal(v.items[i:i + n])), ()) for i in range(0, len(v.items), n)])


@reg('[]::split_at')
def _slice_split_at(I, a, ci, dt):
    v = load_vec(I, a[0])
    n = I.concretize(a[1])
    if n > len(v.items):
        raise Panic('mid > len in split_at')
    return Tuple(Ref(Cell(VecVal(v.items[:n])), ()), Ref(Cell(VecVal(v.items[n:])), ()))


@reg('[]::split_first')
def _split_first(I, a, ci, dt):
    r = vec_ref(I, a[0])
    v = I.load(r)
    if not v.items:
        return NONE
    return Some(Tuple(Ref(r.cell, r.path + (0,)), Ref(Cell(VecVal(v.items[1:])), ())))


@reg('[]::split_last')
def _split_last(I, a, ci, dt):
    r = vec_ref(I, a[0])
    v = I.load(r)
    if not v.items:
        return NONE
    return Some(Tuple(Ref(r.cell, r.path + (len(v.items) - 1,)), Ref(Cell(VecVal(v.items[:-1])), ())))


@reg('[]::partition_point')
def _partition_point(I, a, ci, dt):
    """std: binary search for the first element for which pred is false."""
    r = vec_ref(I, a[0])
    v = I.load(r)
    size = len(v.items)
    if size == 0:
        return 0
    base = 0
    while size > 1:
        half = size // 2
        mid = base + half
        if I.branch(call_closure(I, a[1], Ref(r.cell, r.path + (mid,)))):
            base = mid
        size -= half
    ok = I.branch(call_closure(I, a[1], Ref(r.cell, r.path + (base,))))
    return base + (1 if ok else 0)


@reg('[]::binary_search')
def _binary_search(I, a, ci, dt):
    r = vec_ref(I, a[0])
    v = I.load(r)
    size = len(v.items)
    if size == 0:
        return Err(0)
    base = 0
    while size > 1:
        half = size // 2
        mid = base + half
        o = compare_values(I, v.items[mid], a[1])
        if o.vname != 'Greater':
            base = mid
        size -= half
    o = compare_values(I, v.items[base], a[1])
    if o.vname == 'Equal':
        return Ok(base)
    return Err(base + (1 if o.vname == 'Less' else 0))


@reg('[]::binary_search_by_key')
def _binary_search_by_key(I, a, ci, dt):
    r = vec_ref(I, a[0])
    v = I.load(r)
    size = len(v.items)
    if size == 0:
        return Err(0)
    base = 0

    def cmp(i):
        k = call_closure(I, a[2], Ref(r.cell, r.path + (i,)))
        return compare_values(I, k, a[1])
    while size > 1:
        half = size // 2
        mid = base + half
        if cmp(mid).vname != 'Greater':
            base = mid
        size -= half
    o = cmp(base)
    if o.vname == 'Equal':
        return Ok(base)
    return Err(base + (1 if o.vname == 'Less' else 0))


@reg('[]::concat', 'Vec::concat')
def _concat(I, a, ci, dt):
    v = load_vec(I, a[0])
    if not v.items:
        return VecVal(())
    first = I.deref_value(v.items[0]) if isinstance(v.items[0], Ref) else v.items[0]
    if isinstance(first, (SStr, SString)):
        out = []
        for x in v.items:
            out.extend(as_sstr(I, x).b)
        return new_string(I, out)
    out = []
    for x in v.items:
        out.extend(load_vec(I, x).items if isinstance(x, Ref) else x.items)
    return VecVal(out)


@reg('[]::starts_with')
def _slice_starts_with(I, a, ci, dt):
    v = load_vec(I, a[0]).items
    w = load_vec(I, a[1]).items
    if len(w) > len(v):
        return False
    r = True
    for x, y in zip(v, w):
        r = sym_and(r, values_equal(I, x, y))
    return r


@reg('VecDeque::front', 'VecDeque::back')
def _deque_front(I, a, ci, dt):
    r = vec_ref(I, a[0])
    v = I.load(r)
    if not v.items:
        return NONE
    i = 0 if ci.method == 'front' else len(v.items) - 1
    return Some(Ref(r.cell, r.path + (i,)))


@reg('VecDeque::extend', 'VecDeque::append')
def _deque_extend(I, a, ci, dt):
    v = I.load(a[0])
    if ci.method == 'append':
        w = I.load(a[1])
        I.store(a[1], VecVal(()))
        items = list(w.items)
    else:
        items = collect_iter(I, a[1])
    I.store(a[0], VecVal(v.items + tuple(items)))
    return UNIT


@reg('<VecDeque as From>::from', '<Vec as From>::from', 'VecDeque::from', 'Vec::from')
def _vec_from(I, a, ci, dt):
    v = a[0]
    if isinstance(v, Ref):
        v = I.deref_value(v)
    if isinstance(v, VecVal):
        return VecVal(v.items)
    if isinstance(v, (SStr, SString)):
        return VecVal(v.b)
    raise Unmodelled('Vec::from %r' % (v,))


# ------------------------------------------------------------------ iterator extras

class TakeWhile(IterVal):
    __slots__ = ('inner', 'f', 'done')

    def __init__(self, inner, f, done=False):
        self.inner, self.f, self.done = inner, f, done

    def nxt(self, I):
        if self.done:
            return None, self
        x, ni = self.inner.nxt(I)
        if x is None:
            return None, TakeWhile(ni, self.f, True)
        if I.branch(call_closure(I, self.f, Ref(Cell(x), ()))):
            return x, TakeWhile(ni, self.f, False)
        return None, TakeWhile(ni, self.f, True)


class SkipWhile(IterVal):
    __slots__ = ('inner', 'f', 'started')

    def __init__(self, inner, f, started=False):
        self.inner, self.f, self.started = inner, f, started

    def nxt(self, I):
        it = self.inner
        if self.started:
            x, ni = it.nxt(I)
            return x, SkipWhile(ni, self.f, True)
        while True:
            x, it = it.nxt(I)
            if x is None:
                return None, SkipWhile(it, self.f, True)
            if not I.branch(call_closure(I, self.f, Ref(Cell(x), ()))):
                return x, SkipWhile(it, self.f, True)


@reg('Iterator::take_while')
def _take_while(I, a, ci, dt):
    return TakeWhile(to_iter(I, a[0]), a[1])


@reg('Iterator::skip_while')
def _skip_while(I, a, ci, dt):
    return SkipWhile(to_iter(I, a[0]), a[1])


@reg('Iterator::map_while')
def _map_while(I, a, ci, dt):
    out = []
    for x in collect_iter(I, a[0]):
        r = call_closure(I, a[1], x)
        if r.v == 0:
            break
        out.append(r.f[0])
    return ListIter(out)


@reg('Iterator::flat_map')
def _flat_map(I, a, ci, dt):
    out = []
    for x in collect_iter(I, a[0]):
        out.extend(collect_iter(I, call_closure(I, a[1], x)))
    return ListIter(out)


@reg('Iterator::flatten')
def _flatten(I, a, ci, dt):
    out = []
    for x in collect_iter(I, a[0]):
        out.extend(collect_iter(I, x))
    return ListIter(out)


@reg('Iterator::step_by')
def _step_by(I, a, ci, dt):
    n = I.concretize(a[1])
    return ListIter(collect_iter(I, a[0])[::n])


@reg('Iterator::inspect')
def _iter_inspect(I, a, ci, dt):
    return to_iter(I, a[0])


@reg('Iterator::min_by_key', 'Iterator::max_by_key')
def _min_by_key(I, a, ci, dt):
    xs = collect_iter(I, a[0])
    if not xs:
        return NONE
    best = xs[0]
    bk = call_closure(I, a[1], Ref(Cell(best), ()))
    for x in xs[1:]:
        k = call_closure(I, a[1], Ref(Cell(x), ()))
        o = compare_values(I, k, bk)
        if (ci.method == 'min_by_key' and o.vname == 'Less') or (ci.method == 'max_by_key' and o.vname != 'Less'):
            best, bk = x, k
    return Some(best)


@reg('Iterator::min_by', 'Iterator::max_by')
def _min_by(I, a, ci, dt):
    xs = collect_iter(I, a[0])
    if not xs:
        return NONE
    best = xs[0]
    for x in xs[1:]:
        o = call_closure(I, a[1], Ref(Cell(x), ()), Ref(Cell(best), ()))
        if (ci.method == 'min_by' and o.vname == 'Less') or (ci.method == 'max_by' and o.vname != 'Less'):
            best = x
    return Some(best)


@reg('Iterator::try_for_each', 'Iterator::try_fold')
def _try_for_each(I, a, ci, dt):
    if ci.method == 'try_for_each':
        for x in collect_iter(I, a[0]):
            r = call_closure(I, a[1], x)
            bad = (r.name == 'Result' and r.v == 1) or (r.name == 'Option' and r.v == 0) or (r.name == 'ControlFlow' and r.v == 1)
            if bad:
                return r
        return Ok(UNIT)
    acc = a[1]
    last = None
    for x in collect_iter(I, a[0]):
        r = call_closure(I, a[2], acc, x)
        bad = (r.name == 'Result' and r.v == 1) or (r.name == 'Option' and r.v == 0)
        if bad:
            return r
        acc = r.f[0]
        last = r
    if last is None:
        return Ok(acc)
    return Enum(last.name, last.v, last.vname, (acc,))


@reg('Iterator::partition')
def _partition(I, a, ci, dt):
    yes, no = [], []
    for x in collect_iter(I, a[0]):
        (yes if I.branch(call_closure(I, a[1], Ref(Cell(x), ()))) else no).append(x)
    return Tuple(VecVal(yes), VecVal(no))


@reg('Iterator::unzip')
def _unzip(I, a, ci, dt):
    xs = collect_iter(I, a[0])
    return Tuple(VecVal([x.f[0] for x in xs]), VecVal([x.f[1] for x in xs]))


@reg('Iterator::eq')
def _iter_eq(I, a, ci, dt):
    xs = collect_iter(I, a[0])
    ys = collect_iter(I, a[1])
    if len(xs) != len(ys):
        return False
    r = True
    for x, y in zip(xs, ys):
        r = sym_and(r, values_equal(I, x, y))
    return r


@reg('Iterator::is_sorted', '[]::is_sorted')
def _is_sorted(I, a, ci, dt):
    xs = collect_iter(I, a[0]) if ci.self_ty != '[]' else list(load_vec(I, a[0]).items)
    for i in range(1, len(xs)):
        if compare_values(I, xs[i - 1], xs[i]).vname == 'Greater':
            return False
    return True


@reg('Iterator::size_hint')
def _size_hint(I, a, ci, dt):
    return Tuple(0, NONE)


@reg('iter::once')
def _iter_once(I, a, ci, dt):
    return ListIter([a[0]])


@reg('iter::empty')
def _iter_empty(I, a, ci, dt):
    return ListIter([])


@reg('iter::repeat_n')
def _repeat_n(I, a, ci, dt):
    return ListIter([a[0]] * I.concretize(a[1]))


# ------------------------------------------------------------------ HashMap extras

@reg('HashMap::get_or_insert_with', 'HashMap::get_key_value')
def _get_key_value(I, a, ci, dt):
    from .models import map_find
    r = vec_ref(I, a[0])
    mv = I.load(r)
    i = map_find(I, mv, a[1])
    if i < 0:
        return NONE
    return Some(Tuple(Ref(r.cell, r.path + (i, 0)), Ref(r.cell, r.path + (i, 1))))


@reg('HashMap::retain')
def _map_retain(I, a, ci, dt):
    r = vec_ref(I, a[0])
    mv = I.load(r)
    out = []
    for i, e in enumerate(mv.entries):
        if I.branch(call_closure(I, a[1], Ref(r.cell, r.path + (i, 0)), Ref(r.cell, r.path + (i, 1)))):
            out.append(I.load(Ref(r.cell, r.path + (i,))))
    I.store(r, MapVal(out, mv.kind))
    return UNIT


@reg('HashMap::clear', 'HashSet::clear')
def _map_clear(I, a, ci, dt):
    r = vec_ref(I, a[0])
    mv = I.load(r)
    I.store(r, MapVal((), mv.kind))
    return UNIT


@reg('<HashMap as Index>::index')
def _map_index(I, a, ci, dt):
    from .models import map_find
    r = vec_ref(I, a[0])
    mv = I.load(r)
    i = map_find(I, mv, a[1])
    if i < 0:
        raise Panic('HashMap index: key not found')
    return Ref(r.cell, r.path + (i, 1))


@reg('<HashMap as Default>::default', '<Vec as Default>::default', '<String as Default>::default',
     '<HashSet as Default>::default', 'Default::default')
def _default(I, a, ci, dt):
    from .models import default_for
    st = (ci.self_ty or '')
    if 'HashMap' in st:
        return MapVal((), 'HashMap')
    if 'HashSet' in st:
        return MapVal((), 'HashSet')
    if st.startswith('Vec') or 'Vec<' in st:
        return VecVal(())
    if 'String' in st:
        return new_string(I, ())
    return default_for(I, dt or st)


@reg('Entry::and_modify')
def _and_modify(I, a, ci, dt):
    e = a[0]
    if e.v == 0:
        r = e.f[0]
        call_closure(I, a[1], Ref(r.cell, r.path + (e.f[1], 1)))
    return e


@reg('Entry::or_insert_with_key')
def _or_insert_with_key(I, a, ci, dt):
    from .models import _entry_slot
    e = a[0]
    return _entry_slot(I, e, lambda: call_closure(I, a[1], Ref(Cell(e.f[1]), ())))


@reg('HashSet::extend')
def _set_extend(I, a, ci, dt):
    from .models import map_insert
    for k in collect_iter(I, a[1]):
        map_insert(I, a[0], k, UNIT)
    return UNIT


@reg('HashSet::is_subset', 'HashSet::is_superset', 'HashSet::is_disjoint')
def _set_rel(I, a, ci, dt):
    from .models import map_find
    x = I.deref_value(a[0])
    y = I.deref_value(a[1])
    if ci.method == 'is_superset':
        x, y = y, x
    if ci.method == 'is_disjoint':
        for e in x.entries:
            if map_find(I, y, e.f[0]) >= 0:
                return False
        return True
    for e in x.entries:
        if map_find(I, y, e.f[0]) < 0:
            return False
    return True


# ------------------------------------------------------------------ vec![..] lowering, ranges, floats

@reg('Box::new_uninit', 'Box::new_uninit_slice')
def _box_new_uninit(I, a, ci, dt):
    return Ref(Cell(None), ())


def _find_vec(v, depth=0):
    if isinstance(v, VecVal):
        return v
    if isinstance(v, Struct) and depth < 6:
        for x in v.f:
            r = _find_vec(x, depth + 1)
            if r is not None:
                return r
    return None


@reg('box_assume_init_into_vec_unsafe', 'boxed::box_assume_init_into_vec_unsafe', 'Box::assume_init')
def _box_assume_init_into_vec(I, a, ci, dt):
    v = I.load(a[0]) if isinstance(a[0], Ref) else a[0]
    r = _find_vec(v)
    if r is None:
        raise Unmodelled('box_assume_init_into_vec_unsafe on %r' % (v,))
    return r


@reg('[]::into_vec', 'slice::into_vec')
def _slice_into_vec(I, a, ci, dt):
    v = a[0]
    v = I.deref_value(v) if isinstance(v, Ref) else v
    r = _find_vec(v)
    if r is None:
        raise Unmodelled('into_vec on %r' % (v,))
    return r


@reg('vec::from_elem', 'from_elem')
def _vec_from_elem(I, a, ci, dt):
    n = I.concretize(a[1])
    return VecVal([clone_value(I, a[0]) for _ in range(n)])


def _range_contains(I, rng, x):
    rng = I.deref_value(rng) if isinstance(rng, Ref) else rng
    x = I.deref_value(x) if isinstance(x, Ref) else x
    nm = rng.name
    if nm == 'Range':
        return sym_and(cmp_scalar('Le', rng.f[0], x), cmp_scalar('Lt', x, rng.f[1]))
    if nm == 'RangeInclusive':
        return sym_and(cmp_scalar('Le', rng.f[0], x), cmp_scalar('Le', x, rng.f[1]))
    if nm == 'RangeFrom':
        return cmp_scalar('Le', rng.f[0], x)
    if nm == 'RangeTo':
        return cmp_scalar('Lt', x, rng.f[0])
    if nm == 'RangeToInclusive':
        return cmp_scalar('Le', x, rng.f[0])
    if nm == 'RangeFull':
        return True
    raise Unmodelled('contains on %r' % (rng,))


@reg('Range::contains', 'RangeInclusive::contains', 'RangeFrom::contains', 'RangeTo::contains', 'RangeToInclusive::contains',
     'RangeBounds::contains')
def _range_contains_m(I, a, ci, dt):
    return _range_contains(I, a[0], a[1])


@reg('Range::is_empty', 'RangeInclusive::is_empty')
def _range_is_empty(I, a, ci, dt):
    r = I.deref_value(a[0]) if isinstance(a[0], Ref) else a[0]
    if r.name == 'Range':
        return cmp_scalar('Ge', r.f[0], r.f[1])
    return cmp_scalar('Gt', r.f[0], r.f[1])


@reg('Range::len', '<Range as ExactSizeIterator>::len')
def _range_len(I, a, ci, dt):
    r = I.deref_value(a[0]) if isinstance(a[0], Ref) else a[0]
    d = r.f[1] - r.f[0]
    if isinstance(d, int):
        return max(0, d)
    return d if I.branch(d >= 0) else 0


@reg('usize::saturating_mul', 'u64::saturating_mul')
def _sat_mul(I, a, ci, dt):
    r = a[0] * a[1]
    m = (1 << 64) - 1
    if isinstance(r, int):
        return min(r, m)
    return r if I.branch(r <= m) else m


@reg('char::to_digit')
def _to_digit(I, a, ci, dt):
    c = a[0]
    radix = I.concretize(a[1])
    if radix != 10:
        raise Unmodelled('to_digit radix %d' % radix)
    if I.branch(byte_between(c, 48, 57)):
        return Some(c - 48)
    return NONE


@reg('<u8 as Into>::into', '<u32 as Into>::into', '<usize as From>::from', '<u64 as From>::from', '<u32 as From>::from',
     'usize::from', 'u64::from', 'u32::from', '<char as Into>::into', '<u32 as TryInto>::try_into')
def _int_into(I, a, ci, dt):
    if ci.method == 'try_into':
        return Ok(a[0])
    return a[0]


@reg('Iterator::rposition')
def _iter_rposition(I, a, ci, dt):
    r = a[0]
    it = I.load(r) if isinstance(r, Ref) else to_iter(I, r)
    xs = collect_iter(I, it)
    res = NONE
    for i in range(len(xs) - 1, -1, -1):
        if I.branch(call_closure(I, a[1], xs[i])):
            res = Some(i)
            break
    if isinstance(r, Ref):
        I.store(r, ListIter([]))
    return res


@reg('Iterator::rfind', 'DoubleEndedIterator::rfind')
def _iter_rfind(I, a, ci, dt):
    r = a[0]
    it = I.load(r) if isinstance(r, Ref) else to_iter(I, r)
    xs = collect_iter(I, it)
    res = NONE
    for i in range(len(xs) - 1, -1, -1):
        if I.branch(call_closure(I, a[1], Ref(Cell(xs[i]), ()))):
            res = Some(xs[i])
            break
    if isinstance(r, Ref):
        I.store(r, ListIter(xs[:i] if res.v == 1 else []))
    return res


@reg('DoubleEndedIterator::nth_back')
def _nth_back(I, a, ci, dt):
    r = a[0]
    it = I.load(r)
    xs = collect_iter(I, it)
    n = I.concretize(a[1])
    if n >= len(xs):
        I.store(r, ListIter([]))
        return NONE
    I.store(r, ListIter(xs[:len(xs) - n - 1]))
    return Some(xs[len(xs) - n - 1])


@reg('DoubleEndedIterator::rfold', 'Iterator::rfold')
def _rfold(I, a, ci, dt):
    acc = a[1]
    for x in reversed(collect_iter(I, a[0])):
        acc = call_closure(I, a[2], acc, x)
    return acc


@reg('Iterator::reduce')
def _reduce(I, a, ci, dt):
    xs = collect_iter(I, a[0])
    if not xs:
        return NONE
    acc = xs[0]
    for x in xs[1:]:
        acc = call_closure(I, a[1], acc, x)
    return Some(acc)


@reg('Iterator::scan')
def _scan(I, a, ci, dt):
    st = Cell(a[1])
    out = []
    for x in collect_iter(I, a[0]):
        r = call_closure(I, a[2], Ref(st, ()), x)
        if r.v == 0:
            break
        out.append(r.f[0])
    return ListIter(out)


@reg('Iterator::last')
def _iter_last2(I, a, ci, dt):
    xs = collect_iter(I, a[0])
    return Some(xs[-1]) if xs else NONE


@reg('Iterator::lt', 'Iterator::le', 'Iterator::gt', 'Iterator::ge', 'Iterator::cmp', 'Iterator::ne')
def _iter_cmp(I, a, ci, dt):
    xs = VecVal(collect_iter(I, a[0]))
    ys = VecVal(collect_iter(I, a[1]))
    if ci.method == 'ne':
        return sym_not(values_equal(I, xs, ys))
    o = compare_values(I, xs, ys)
    if ci.method == 'cmp':
        return o
    return {'lt': o.v == 0, 'le': o.v != 2, 'gt': o.v == 2, 'ge': o.v != 0}[ci.method]


@reg('Vec::dedup_by_key', 'Vec::dedup_by', 'Vec::dedup')
def _vec_dedup(I, a, ci, dt):
    """Removes consecutive duplicates (by key / by predicate / by equality), keeping the first of a run."""
    from .models import vec_ref, call_closure, values_equal
    r = vec_ref(I, a[0])
    v = I.load(r)
    out = []
    for x in v.items:
        if out:
            prev = out[-1]
            if ci.method == 'dedup_by_key':
                same = values_equal(I, call_closure(I, a[1], Ref(Cell(prev), ())), call_closure(I, a[1], Ref(Cell(x), ())))
            elif ci.method == 'dedup_by':
                same = call_closure(I, a[1], Ref(Cell(x), ()), Ref(Cell(prev), ()))
            else:
                same = values_equal(I, prev, x)
            if I.branch(same) if not isinstance(same, bool) else same:
                continue
        out.append(x)
    I.store(r, VecVal(out))
    return UNIT


def _ord(v):
    return v.vname


@reg('Ordering::then', 'Ordering::then_with')
def _ordering_then(I, a, ci, dt):
    from .models import call_closure
    o = a[0]
    while isinstance(o, Ref):
        o = I.load(o)
    if o.vname != 'Equal':
        return o
    return call_closure(I, a[1]) if ci.method == 'then_with' else a[1]


@reg('Ordering::reverse')
def _ordering_reverse(I, a, ci, dt):
    from .models import LESS, EQUAL, GREATER
    o = a[0]
    while isinstance(o, Ref):
        o = I.load(o)
    return {'Less': GREATER, 'Equal': EQUAL, 'Greater': LESS}[o.vname]()


@reg('Ordering::is_eq', 'Ordering::is_ne', 'Ordering::is_lt', 'Ordering::is_gt', 'Ordering::is_le', 'Ordering::is_ge')
def _ordering_is(I, a, ci, dt):
    o = a[0]
    while isinstance(o, Ref):
        o = I.load(o)
    n = o.vname
    return {'is_eq': n == 'Equal', 'is_ne': n != 'Equal', 'is_lt': n == 'Less', 'is_gt': n == 'Greater',
            'is_le': n != 'Greater', 'is_ge': n != 'Less'}[ci.method]


# itertools::Itertools::merge_by: a stable two-way merge by a "left goes first" predicate (merge itself
# is in models.py); dedup / dedup_by on an iterator.  Eager: the inputs are finite collections here.
@reg('Itertools::merge_by')
def _itertools_merge_by(I, a, ci, dt):
    from .models import ListIter
    left = collect_iter(I, a[0])
    right = collect_iter(I, a[1])
    out = []
    i = j = 0
    while i < len(left) and j < len(right):
        first = call_closure(I, a[2], Ref(Cell(left[i]), ()), Ref(Cell(right[j]), ()))
        if (I.branch(first) if not isinstance(first, bool) else first):
            out.append(left[i])
            i += 1
        else:
            out.append(right[j])
            j += 1
    out.extend(left[i:])
    out.extend(right[j:])
    return ListIter(out)


@reg('Itertools::dedup', 'Itertools::dedup_by')
def _itertools_dedup(I, a, ci, dt):
    from .models import ListIter, values_equal
    xs = collect_iter(I, a[0])
    out = []
    for x in xs:
        if out:
            if ci.method == 'dedup_by':
                same = call_closure(I, a[1], Ref(Cell(out[-1]), ()), Ref(Cell(x), ()))
            else:
                same = values_equal(I, out[-1], x)
            if (I.branch(same) if not isinstance(same, bool) else same):
                continue
        out.append(x)
    return ListIter(out)
