"""C10 — every diagnostic points at the text it is about.

Encoded (real MIR): parse_blocks_from_comments, PartialBlocksIterator::next, BlockStart::new,
source_position_at, BlockEnd::into_block, c_style_multiline_comment_processor (+closure),
KeepSortedValidator/KeepUniqueValidator/LinePatternValidator/LineCountValidator/
AffectsValidator::validate with their create_violation functions.
Symbolic: every byte of every key and of the surrounding blanks.  Enumerated: the layout
(lines before, indentation, number of comment lines, line of the tag inside the comment,
text after the comment on its last line, per-line (lead, key length, trail) shapes).
Oracle: positions computed from the file text the harness assembled.
"""
import itertools
import json
import random
import sys

import z3

from .common import *  # noqa
from .vharness import *  # noqa
from .layout import *  # noqa
from mirsym.interp import explore, PathStats

PROP = 'C10'
KEY_ALPHABET = [ord(c) for c in 'ab']
INNER_ALPHABET = [ord(c) for c in 'ab ']

WIDE = '\u3000'.encode('utf-8')      # three-byte whitespace: byte columns and character columns part ways
LINE_SPECS_QUICK = [(0, 1, 0), (1, 1, 0), (0, 2, 1), (1, 0, 0), (0, 0, 0), (WIDE, 1, 0)]
LINE_SPECS_THOROUGH = LINE_SPECS_QUICK + [(2, 1, 1), (0, 3, 0)]


def build_layout(I, lay_spec, line_specs, attrs):
    pre, indent, ncomment, tagline, tagpad = lay_spec[:5]
    stars = lay_spec[5] if len(lay_spec) > 5 else 1
    spec0, specs, spec_last = line_specs
    t0, k0 = sym_line(I, 'L0', spec0, KEY_ALPHABET, INNER_ALPHABET)
    lines = []
    keys = [(0, spec0, k0)]
    for i, sp in enumerate(specs):
        l, k = sym_line(I, 'L%d' % (i + 1), sp, KEY_ALPHABET, INNER_ALPHABET)
        lines.append(l)
        keys.append((i + 1, sp, k))
    ll, kl = sym_line(I, 'LZ', spec_last, KEY_ALPHABET, INNER_ALPHABET)
    keys.append((len(specs) + 1, spec_last, kl))
    lay = Layout(pre, indent, ncomment, tagline, tagpad, attrs, t0, lines, ll, stars=stars)
    return lay, keys


def key_positions(lay, keys):
    """[(line, start col, end col, key bytes)] for the non-blank lines, in order."""
    out = []
    for idx, sp, k in keys:
        if sp[1] == 0:
            continue
        ln, col, _bs = lay.content_lines[idx]
        lead = len(sp[0]) if isinstance(sp[0], (bytes, tuple)) else sp[0]
        out.append((ln, col + lead, col + lead + sp[1] - 1, k))
    return out


def first_offender_conds(kind, pos):
    """For each key index i: Z3 condition that i is the first key to report."""
    conds = []
    none_before = []
    for i in range(len(pos)):
        if kind == 'keep-sorted':
            bad = lex_lt(pos[i][3], pos[i - 1][3]) if i > 0 else z3.BoolVal(False)
        elif kind == 'keep-unique':
            bad = zor([lex_eq(pos[j][3], pos[i][3]) for j in range(i)])
        else:   # line-pattern ^a+$  : a key that is not all 'a'
            bad = zor([b != 97 for b in pos[i][3]])
        conds.append(zand(none_before + [bad]))
        none_before = none_before + [z3.Not(bad)]
    return conds, zand(none_before)


VALIDATORS = {
    'keep-sorted': ('KeepSortedValidator', ' keep-sorted'),
    'keep-unique': ('KeepUniqueValidator', ' keep-unique'),
    'line-pattern': ('LinePatternValidator', ' line-pattern="^a+$"'),
    'line-count': ('LineCountValidator', ' line-count="<0"'),
    'affects': ('AffectsValidator', ' affects=":missing"'),
    # start tags written over two and three lines (one attribute per line): the range still runs '<'..'>'
    'line-count/2': ('LineCountValidator', ' line-count="<0"\n      x="1"'),
    'line-count/3': ('LineCountValidator', ' line-count="<0"\n      x="1"\n   yyy="22"'),
    'affects/3': ('AffectsValidator', ' affects=":missing"\n  x="1"\n        yy="2"'),
}


def install_regex_stub(I):
    """regex::Regex for the one pattern ^a+$ (the engine itself is not encoded)."""
    from mirsym.models import as_sstr

    def rnew(I2, a, ci, dt):
        p = bytes(as_sstr(I2, a[0]).b)
        if p != b'^a+$':
            raise EngineError('regex stub only knows ^a+$, got %r' % p)
        return Ok(Struct('Regex', (p,)))

    def is_match(I2, a, ci, dt):
        s = as_sstr(I2, a[1]).b
        if len(s) == 0:
            return False
        return zand([b == 97 for b in s]) if not all(isinstance(b, int) for b in s) else all(b == 97 for b in s)

    I.stubs['Regex::new'] = rnew
    I.stubs['Regex::is_match'] = is_match


def run_case(task):
    kind, lay_spec, line_specs, want_sample = task
    vkind = kind
    kind = kind.split('/')[0]
    prog = driver.load_program()
    stats = PathStats()
    vtype, attrs = VALIDATORS[vkind]
    out = dict(violations=[], samples=[], obligations=0, cover={}, panic_paths=0)
    holder = {}
    roles = set()

    def run_path(I):
        lay, keys = build_layout(I, lay_spec, line_specs, attrs)
        holder['lay'] = lay
        holder['keys'] = keys
        res = parse_layout_blocks(I, prog, lay)
        if res.v != 0:
            raise EngineError('layout did not parse into blocks')
        blocks = list(res.f[0].items)
        holder['blocks'] = blocks
        bwcs = [mk_bwc(prog, b, content_modified=True) for b in blocks]
        ctx = mk_context(prog, I, [(b'f.js', lay.src, bwcs)])
        return run_validator(I, prog, vtype, ctx)

    def viol(I, cond, role, summary, extra=None):
        out['obligations'] += 1
        if role in roles:
            return
        if I.check(cond):
            roles.add(role)
            m = I.solver.model()
            d = dict(role=role, summary=summary, kind=kind, src=model_bytes(m, holder['lay'].src).decode('latin1'))
            if extra:
                d.update(extra)
            out['violations'].append(d)

    for I, pk, val in explore(prog, models.M, run_path, stats=stats, max_paths=100000):
        if pk == 'panic':
            out['panic_paths'] += 1
            viol(I, z3.BoolVal(True), 'panic', 'panic: %s' % val.msg[:120])
            continue
        lay = holder['lay']
        blocks = holder['blocks']
        if len(blocks) != 1:
            viol(I, z3.BoolVal(True), 'layout-block-count', 'expected one block, got %d' % len(blocks))
            continue
        # the block itself: start tag range must be '<'..'>' of the tag in the file
        b = blocks[0]
        rng = get_field(prog, b, 'Block', 'start_tag_position_range')
        st, en = rng.f[0], rng.f[1]
        got_tag = ((get_field(prog, st, 'Position', 'line'), get_field(prog, st, 'Position', 'character')),
                   (get_field(prog, en, 'Position', 'line'), get_field(prog, en, 'Position', 'character')))
        want_tag = ((lay.tag_lt[1], lay.tag_lt[2]), (lay.tag_gt[1], lay.tag_gt[2]))
        if got_tag != want_tag:
            viol(I, z3.BoolVal(True), 'tag-position-wrong', 'start tag located at %s, its < > are at %s' % (got_tag, want_tag))
        cbr = get_field(prog, b, 'Block', 'content_bytes_range')
        if (cbr.f[0], cbr.f[1]) != (lay.content_start[0], lay.content_end[0]):
            viol(I, z3.BoolVal(True), 'content-range-wrong', 'content bytes %s, expected %s' %
                 ((cbr.f[0], cbr.f[1]), (lay.content_start[0], lay.content_end[0])))
        stt, res = decode_violations(prog, val)
        if stt == 'err':
            viol(I, z3.BoolVal(True), 'unexpected-error', 'validator returned Err on a well-formed block')
            continue
        vs = res.get(b'f.js', [])
        if len(vs) > 1:
            viol(I, z3.BoolVal(True), 'more-than-one-violation', 'more than one violation for one block')
        reported = None
        if vs:
            v0 = vs[0]
            reported = (v0['start'], v0['end'])
            if bytes(v0['code']).decode() != kind:
                viol(I, z3.BoolVal(True), 'wrong-code', 'code %r from validator %s' % (bytes(v0['code']), kind))
        if kind in ('line-count', 'affects'):
            if reported is None:
                viol(I, z3.BoolVal(True), 'tag-range-violation-missing', 'expected a %s violation' % kind)
            elif reported != want_tag:
                viol(I, z3.BoolVal(True), 'tag-range-wrong', 'range %s, the tag is at %s' % (reported, want_tag))
            out['cover']['tag-range'] = out['cover'].get('tag-range', 0) + 1
        else:
            pos = key_positions(lay, holder['keys'])
            conds, none = first_offender_conds(kind, pos)
            if reported is None:
                viol(I, z3.Not(none), 'offender-missed', 'an offending key exists but nothing is reported')
            else:
                viol(I, none, 'spurious-violation', 'no offending key but a violation is reported')
                for i, c in enumerate(conds):
                    want = ((pos[i][0], pos[i][1]), (pos[i][0], pos[i][2]))
                    if want != reported:
                        viol(I, c, 'range-not-on-offending-key',
                             'offending key at %s but range says %s' % (want, reported),
                             extra=dict(want=want, got=reported))
                out['cover']['key-range'] = out['cover'].get('key-range', 0) + 1
        if lay_spec[3] > 0:
            out['cover']['tag on a later comment line'] = 1
        if lay_spec[2] - 1 > lay_spec[3]:
            out['cover']['comment continues after the tag line'] = 1
        if line_specs[0][1] > 0:
            out['cover']['content starts on the comment line'] = 1
        if want_sample and len(out['samples']) < 1:
            m = I.ensure_model()
            out['samples'].append(dict(kind=kind, src=model_bytes(m, lay.src).decode('latin1'),
                                       reported=reported))
    out.update(Agg(PROP, 'x').stats_from(stats))
    return out


# ------------------------------------------------------------------ replay

def observe(binary, src, kind):
    diff = None
    files = {'f.js': src}
    if kind == 'affects':
        # mark every line modified
        n = src.count(b'\n')
        body = b''.join(b'+' + l + b'\n' for l in src.split(b'\n')[:n])
        diff = b'diff --git a/f.js b/f.js\n--- /dev/null\n+++ b/f.js\n@@ -0,0 +1,%d @@\n' % n + body
    d = scratch_dir('c10')
    try:
        git_init(d)
        open(os.path.join(d, 'f.js'), 'wb').write(src)
        if diff is None:
            r = run_blockwatch(binary, d, ['f.js'], stdin=b'')
        else:
            r = run_blockwatch(binary, d, [], stdin=diff)
    finally:
        shutil.rmtree(d, ignore_errors=True)
    out = dict(code=r['code'], stderr=r['stderr'][-300:])
    if r['stderr'].strip().startswith('{'):
        try:
            js = json.loads(r['stderr'])
            ds = [x for x in js.get('f.js', []) if x.get('code') == kind]
            out['diags'] = [((x['range']['start']['line'], x['range']['start']['character']),
                             (x['range']['end']['line'], x['range']['end']['character'])) for x in ds]
        except (ValueError, KeyError):
            pass
    return out


def ref_expected(src, kind):
    """Independent reference on concrete text."""
    s = src.decode('latin1')
    m = re.search(r'<block [^>]*>', s)
    lt = m.start()
    gt = m.end() - 1

    def pos(off):
        line = s.count('\n', 0, off) + 1
        col = off - (s.rfind('\n', 0, off) + 1) + 1
        return (line, col)
    if kind in ('line-count', 'affects'):
        return [(pos(lt), pos(gt))]
    cstart = s.index('*/', gt) + 2
    cend = s.index('/* </block>')
    keys = []
    off = cstart
    for ln in s[cstart:cend].split('\n'):
        t = ln.strip(' \t\x0b\x0c\r')
        if t:
            a = off + (len(ln) - len(ln.lstrip(' \t\x0b\x0c\r')))
            keys.append((t, a, a + len(t) - 1))
        off += len(ln) + 1
    for i, (t, a, e) in enumerate(keys):
        if kind == 'keep-sorted':
            bad = i > 0 and t < keys[i - 1][0]
        elif kind == 'keep-unique':
            bad = any(k[0] == t for k in keys[:i])
        else:
            bad = re.match(r'^a+$', t) is None
        if bad:
            return [(pos(a), pos(e))]
    return []


import os
import re
import shutil


def confirm(binary, v, idx):
    src = v['src'].encode('latin1')
    obs = observe(binary, src, v['kind'])
    want = ref_expected(src, v['kind'])
    v['observed'] = obs
    v['expected'] = want
    got = obs.get('diags', [])
    bad = [tuple(map(tuple, x)) for x in got] != [tuple(map(tuple, x)) for x in want]
    if v['role'] == 'panic':
        bad = obs['code'] not in (0, 1) or 'panicked' in obs['stderr']
    v['confirmed'] = bool(bad)
    if bad:
        args = 'f.js' if v['kind'] != 'affects' else ''
        v['replay'] = save_replay(PROP, '%s-%s-%d' % (v['kind'], v['role'], idx), {'f.js': src}, args,
                                  'expected %s ranges %s ; %s' % (v['kind'], want, v['summary']), v)
    return v


BOUNDS = {
    'quick': dict(layouts=[(0, 0, 1, 0, 0), (1, 2, 3, 1, 1), (0, 0, 2, 0, 0), (0, 1, 4, 2, 2), (1, 0, 4, 3, 0), (0, 2, 2, 1, 3),
                           (0, 0, 1, 0, 0, 2), (0, 1, 3, 1, 1, 3)],       # banner comments: `/** <block ..> */`, ` *** <block ..>`
              nlines=2, specs='quick', per_kind=150, validate=40),
    'thorough': dict(layouts=[(p, ind, n, t, pad) for p in (0, 1) for ind in (0, 2) for n in (1, 2, 4) for t in range(n) for pad in (0, 3)] + [(0, ind, n, t, 1, st) for ind in (0, 2) for n in (1, 3) for t in range(n) for st in (2, 3)],
                     nlines=3, specs='thorough', per_kind=600, validate=150),
}


def main(tier):
    b = BOUNDS[tier]
    agg = Agg(PROP, tier)
    binary = driver.real_binary()
    driver.load_program()
    rnd = random.Random(seed())
    specs = LINE_SPECS_QUICK if b['specs'] == 'quick' else LINE_SPECS_THOROUGH
    tasks = []
    for kind in ('keep-sorted', 'keep-unique', 'line-pattern'):
        combos = []
        for lay in b['layouts']:
            for s0 in [(0, 0, 0), (1, 1, 0), (0, 2, 0)]:
                for n in range(1, b['nlines'] + 1):
                    for ls in itertools.product(specs, repeat=n):
                        for sl in [(0, 0, 0), (2, 0, 0)]:
                            nkeys = sum(1 for x in (s0,) + ls + (sl,) if x[1] > 0)
                            if nkeys < 2 and kind != 'line-pattern':
                                continue
                            combos.append((lay, (s0, ls, sl)))
        rnd.shuffle(combos)
        # always keep the structurally interesting ones in front
        combos.sort(key=lambda c: -((c[0][3] > 0) + (c[0][2] - 1 > c[0][3]) + (c[1][0][1] > 0)))
        head = combos[:b['per_kind'] // 2]
        rest = combos[b['per_kind'] // 2:]
        rnd.shuffle(rest)
        for i, (lay, ls) in enumerate(head + rest[:b['per_kind'] - len(head)]):
            tasks.append((kind, lay, ls, i % 4 == 0))
    for kind in ('line-count', 'affects', 'line-count/2', 'line-count/3', 'affects/3'):
        for lay in b['layouts']:
            tasks.append((kind, lay, ((0, 0, 0), ((0, 1, 0),), (0, 0, 0)), True))
    results = pmap(run_case, tasks, chunksize=4)
    for r in results:
        agg.add(r)
    # HTML comments inside Markdown: the shift from html-block coordinates to file coordinates
    from . import mdhtml
    html_tasks = [(1, 1), (2, 1), (1, 2)] if tier == 'quick' else [(1, 1), (2, 1), (1, 2), (2, 2), (3, 1), (1, 3)]
    html_results = pmap(mdhtml.run_html, html_tasks, chunksize=1)
    html_seen = set()
    html_violations = []
    for r in html_results:
        r2 = dict(r)
        vs = []
        for v in r.get('violations', []):
            if v['role'] in html_seen:
                continue
            html_seen.add(v['role'])
            v['kind'] = 'mdhtml'
            v['src'] = ''
            mdhtml.confirm_html(binary, PROP, v, 0)
            vs.append(v)
        r2['violations'] = []
        agg.add(r2)
        html_violations.extend(vs)
    # the text the parsers see is the file byte for byte (byte columns are columns of the file)
    from . import fsroot
    for r in pmap(fsroot.run_readfs, [(0, False), (1, False), (3, False), (4, False), (6, False), (2, True)], chunksize=1):
        r2 = dict(r)
        for v in r.get('violations', []):
            if v['role'] in html_seen:
                continue
            html_seen.add(v['role'])
            v['kind'] = 'fsread'
            v['src'] = ''
            fsroot.confirm_read(binary, PROP, v, 0)
            html_violations.append(v)
        r2['violations'] = []
        agg.add(r2)
    if not any(v.get('kind') == 'fsread' for v in html_violations):
        pv = dict(role='sample', summary='passing path', content='\xef\xbb\xbf a')
        fsroot.confirm_read(binary, PROP, pv, 90)
        if pv.get('confirmed'):
            msg = 'file-text replay disagrees with the real binary on a passing path: observed %s expected %s' % (pv.get('observed'), pv.get('expected'))
            agg.validation_failures.append(msg)
            agg.engine_errors.append({'engine_error': 'translator validation: ' + msg})
        else:
            agg.validated += 1
    if not html_violations:
        # validation of the replay itself: on a tree where the post-conditions hold it must not "confirm"
        pv = dict(role='sample', summary='passing path')
        mdhtml.confirm_html(binary, PROP, pv, 90)
        if pv.get('confirmed'):
            msg = 'HTML-in-Markdown replay disagrees with the real binary on a passing path: observed %s expected %s' % (pv.get('observed'), pv.get('expected'))
            agg.validation_failures.append(msg)
            agg.engine_errors.append({'engine_error': 'translator validation: ' + msg})
        else:
            agg.validated += 1
    by_role = {}
    for v in agg.violations:
        by_role.setdefault((v['kind'], v['role']), []).append(v)
    final = []
    for key, vs in sorted(by_role.items()):
        vs.sort(key=lambda v: len(v['src']))
        got = None
        for i, v in enumerate(vs[:6]):
            confirm(binary, v, i)
            if v['confirmed']:
                got = v
                break
        final.append(got or vs[0])
    agg.violations = final + html_violations
    samples = [s for r in results for s in r.get('samples', [])]
    rnd.shuffle(samples)
    for s in samples[:b['validate']]:
        src = s['src'].encode('latin1')
        obs = observe(binary, src, s['kind'])
        got = [tuple(map(tuple, x)) for x in obs.get('diags', [])]
        want = [] if s['reported'] is None else [tuple(map(tuple, s['reported']))]
        if got == want:
            agg.validated += 1
        else:
            msg = 'mirsym %s vs real %s on %r' % (want, obs, s['src'])
            agg.validation_failures.append(msg)
            agg.engine_errors.append({'engine_error': 'translator validation: ' + msg})
    bounds = dict(layouts=len(b['layouts']), content_lines=b['nlines'], line_shapes=specs, tasks=len(tasks),
                  key_alphabet='ab', inner_alphabet='ab<space>', blanks='space, tab')
    return finish(
        agg, bounds,
        assumptions=['tree-sitter is replaced by the two Comment values a /* */ grammar delivers for the layout (validated against the real binary on sampled witnesses)',
                     'the winnow tag parser is replaced by a reference scanner over the concrete comment text',
                     'regex is a stub for the single pattern ^a+$',
                     'Markdown html blocks: MdParser::parse_html_comments on symbolic block start (row, column) and symbolic relative comment positions; tree-sitter query results and the inner HTML comment parser are stubs that return block-relative coordinates',
                     'FileSystemImpl::read_to_string over a std::fs::read_to_string stub returning 0-6 symbolic bytes (byte-order mark, CR, LF, blank, #, <, a): the text handed to the parsers is the file byte for byte',
                     'ASCII; keys over {a,b} with inner blanks; the ranges of Lua/AI diagnostics are asserted in C18/C19'],
        stubs=['WinnowBlockTagParser::next (reference scanner)', 'regex::Regex::new / is_match for ^a+$', 'serde_json::to_value',
               'tree_sitter Parser::parse / QueryCursor::matches / Node (html-block model)', 'CommentsParser::parse of the html parser (block-relative comments)'],
        must_cover=['key-range', 'tag-range', 'tag on a later comment line', 'comment continues after the tag line',
                    'content starts on the comment line', 'html blocks', 'read'],
        explanation='per layout and line shapes: first-offender conditions as Z3 formulas over the key bytes; reported range compared with the positions in the assembled file text')


if __name__ == '__main__':
    sys.exit(main(sys.argv[1] if len(sys.argv) > 1 else 'quick'))
