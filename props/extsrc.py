"""Declaration-order field / variant lists of third-party types, read from the pinned crate
sources in the cargo registry (MIR addresses fields and variants by index)."""
import glob
import os
import re

from mirsym.values import EngineError

_CACHE = {}


def _walk_rs(d):
    """Rust sources of a crate: src/ first, then the other directories (tree-sitter keeps its binding in binding_rust/)."""
    seen = []
    for sub in ('src', 'binding_rust', 'lib', ''):
        top = os.path.join(d, sub) if sub else d
        if os.path.isdir(top):
            for dp, dn, fn in os.walk(top):
                if dp in seen or '/target' in dp:
                    continue
                seen.append(dp)
                yield dp, dn, fn


def crate_dir(name_glob):
    pats = [os.path.expanduser('~/.cargo/registry/src/*/%s' % name_glob), '/root/.cargo/registry/src/*/%s' % name_glob]
    for p in pats:
        ds = sorted(glob.glob(p))
        if ds:
            return ds[-1]
    raise EngineError('crate source %s not in the cargo registry' % name_glob)


def _body(text, header_re):
    m = re.search(header_re, text)
    if not m:
        return None
    i = text.index('{', m.end() - 1)
    depth = 0
    for j in range(i, len(text)):
        if text[j] == '{':
            depth += 1
        elif text[j] == '}':
            depth -= 1
            if depth == 0:
                return text[i + 1:j]
    return None


def _strip(body):
    body = re.sub(r'//[^\n]*', '', body)
    body = re.sub(r'/\*.*?\*/', '', body, flags=re.S)
    out = []
    depth = 0
    for ch in body:          # drop attribute arguments and nested bodies
        out.append(ch)
    return ''.join(out)


def struct_fields(crate_glob, name):
    key = ('s', crate_glob, name)
    if key in _CACHE:
        return _CACHE[key]
    d = crate_dir(crate_glob)
    for dp, _dn, fn in _walk_rs(d):
        for f in fn:
            if not f.endswith('.rs'):
                continue
            text = open(os.path.join(dp, f), encoding='utf-8', errors='replace').read()
            body = _body(text, r'pub struct %s\b[^;{(]*\{' % re.escape(name))
            if body is None:
                continue
            body = _strip(body)
            fields = re.findall(r'(?m)^\s*(?:pub(?:\([a-z]+\))?\s+)?([a-z_][a-z0-9_]*)\s*:', body)
            _CACHE[key] = fields
            return fields
    raise EngineError('struct %s not found in %s' % (name, crate_glob))


def enum_variants(crate_glob, name):
    key = ('e', crate_glob, name)
    if key in _CACHE:
        return _CACHE[key]
    d = crate_dir(crate_glob)
    for dp, _dn, fn in _walk_rs(d):
        for f in fn:
            if not f.endswith('.rs'):
                continue
            text = open(os.path.join(dp, f), encoding='utf-8', errors='replace').read()
            body = _body(text, r'pub enum %s\b[^;{(]*\{' % re.escape(name))
            if body is None:
                continue
            body = _strip(body)
            # top-level variants only, with their cfg attributes
            vs = []
            depth = 0
            cur = ''
            for ch in body:
                if ch in '({[':
                    depth += 1
                elif ch in ')}]':
                    depth -= 1
                if ch == ',' and depth == 0:
                    vs.append(cur)
                    cur = ''
                else:
                    cur += ch
            if cur.strip():
                vs.append(cur)
            out = []
            for v in vs:
                cfgs = re.findall(r'#\[cfg\((.*?)\)\]', v, flags=re.S)
                v2 = re.sub(r'#\[[^\]]*\]', '', v, flags=re.S).strip()
                m = re.match(r'([A-Z][A-Za-z0-9_]*)', v2)
                if m:
                    out.append((m.group(1), cfgs))
            _CACHE[key] = out
            return out
    raise EngineError('enum %s not found in %s' % (name, crate_glob))
