"""C08 — line-pattern reports a block iff some non-blank trimmed line has no match.

Encoded (real MIR): LinePatternValidator::validate (+closure), line_pattern::create_violation,
Block::content / severity / name_display, and the block-parser glue.  See props/keycheck.py.
Oracle per pattern: membership of the trimmed key written as a Z3 formula over its bytes.
"""
import sys
from .keycheck import Config, run_main, PATTERNS

PROP = 'C08'
V, C = 'LinePatternValidator', 'line-pattern'
ABC = [97, 98, 99]
CONFIGS = [Config(PROP, V, C, ' line-pattern="%s"' % PATTERNS[n][0], 'trim', ('pattern', n), ABC, ABC + [32])
           for n in ('all-a', 'has-a', 'one-ab', 'ends-b', 'empty', 'a-then-b', 'maybe-a')]
SPECS = [(0, 1, 0), (1, 2, 0), (0, 3, 1), (1, 0, 0), (0, 0, 0)]
BOUNDS = {'quick': dict(nlines=3, per_cfg=50, validate=30), 'thorough': dict(nlines=5, per_cfg=900, validate=150)}


def main(tier):
    return run_main(PROP, tier, CONFIGS, lambda c: SPECS, BOUNDS,
                    assumptions=['patterns: ^a+$, a, ^[ab]$, ^.*b$, ^$, ^a*b+$, ^a* (matches the empty string at the start of every line); every other pattern is outside the claim',
                                 'the regex engine is the reference model mirsym/rexmodel.py, not the regex crate',
                                 'keys over {a,b,c} with inner blanks; ASCII only',
                                 'tree-sitter / tag scanner replaced as in C10; verdict independent of the modified flags'],
                    must_cover=['clean', 'reported', 'two violating blocks in one file', 'rule:all-a', 'rule:has-a', 'rule:one-ab', 'rule:ends-b', 'rule:empty', 'rule:a-then-b', 'rule:maybe-a'],
                    min_keys=1)


if __name__ == '__main__':
    sys.exit(main(sys.argv[1] if len(sys.argv) > 1 else 'quick'))
