"""C07 — keep-unique reports a block iff two keys coincide.

Encoded (real MIR): KeepUniqueValidator::validate (+closure), keep_unique::create_violation,
Block::content / severity / name_display, and the block-parser glue.  See props/keycheck.py.
Oracle: keys = trimmed non-blank lines, or the `value` group / whole match of the attribute's
regex (non-matching lines skipped); one violation on the first line whose key occurred before.
"""
import sys
from .keycheck import Config, run_main

PROP = 'C07'
V, C = 'KeepUniqueValidator', 'keep-unique'
AB = [97, 98]
CONFIGS = [
    Config(PROP, V, C, ' keep-unique', 'trim', 'unique', AB, AB + [32]),
    Config(PROP, V, C, ' keep-unique=""', 'trim', 'unique', AB, AB + [32]),
    Config(PROP, V, C, ' keep-unique="k=(?P<value>[ab]+)"', 'group', 'unique', AB),
    Config(PROP, V, C, ' keep-unique="[ab]+"', 'plain', 'unique', AB),
    Config(PROP, V, C, ' keep-unique="(?P<value>[ab]+)=[cd]"', 'group-suffix', 'unique', AB),
    Config(PROP, V, C, ' keep-unique="z(?P<value>[ab]+)?"', 'group-optional', 'unique', AB),
    Config(PROP, V, C, ' keep-unique="k=(?P<value>[ab]*)"', 'group-empty', 'unique', AB),
]
SPECS = [(0, 1, 0), (1, 2, 0), (0, 2, 1), (2, 1, 1), (1, 0, 0), (0, 0, 0)]
BOUNDS = {'quick': dict(nlines=3, per_cfg=160, validate=30), 'thorough': dict(nlines=5, per_cfg=1200, validate=150)}


def main(tier):
    return run_main(PROP, tier, CONFIGS, lambda c: SPECS, BOUNDS,
                    assumptions=['keys over {a,b} (inner blanks in trim form); regex forms k=(?P<value>[ab]+), (?P<value>[ab]+)=[cd], z(?P<value>[ab]+)?, k=(?P<value>[ab]*) (empty keys) and [ab]+ only',
                                 'the regex engine is the reference model mirsym/rexmodel.py, not the regex crate',
                                 'HashSet<&str>::insert is an association-list model forking on key equality',
                                 'tree-sitter / tag scanner replaced as in C10; ASCII only; verdict independent of the modified flags'],
                    must_cover=['clean', 'reported', 'two violating blocks in one file', 'mode:trim', 'mode:group', 'mode:group-suffix', 'mode:group-optional', 'mode:group-empty', 'mode:plain'])


if __name__ == '__main__':
    sys.exit(main(sys.argv[1] if len(sys.argv) > 1 else 'quick'))
