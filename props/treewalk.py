"""The Rust side of the tree-sitter integration: how the crate walks a syntax tree for comments.

Encoded (real MIR): <TreeSitterCommentsParser as CommentsParser>::parse, CommentsIterator::new,
<CommentsIterator as Iterator>::next, CommentsIterator::comment_from_current_node (whatever the
crate uses to walk the tree is reached through `parse`).
Model: tree_sitter::{Parser::parse, Tree, TreeCursor, Node} over a *model tree* (ordered tree of
nodes with kind, start/end point and byte range) - which tree a grammar builds for a text is
outside; how the crate visits it is decided here.

For every ordered tree shape up to N nodes and every assignment of "is a comment" to its nodes
(symbolic): the comments produced are exactly the comment nodes, each once, in document order, with
line = row + 1, column = column + 1 and the node's byte range; no panic; the walk ends.
Stack safety: on chains of depth 8 and 40 the deepest call nesting of the walk is the same
(a recursive walk grows with the nesting depth of the source and overflows the stack on deep input).
"""
import itertools

import z3

from .common import *  # noqa
from .vharness import *  # noqa
from mirsym.interp import explore, PathStats
from mirsym.models import new_string, ListIter, collect_iter


class MTree:
    """Ordered tree: children lists; node 0 is the root.  Pre-order numbering."""

    def __init__(self, children):
        self.children = children          # list of lists
        self.parent = {0: None}
        for p, cs in enumerate(children):
            for c in cs:
                self.parent[c] = p

    def n(self):
        return len(self.children)


def all_trees(n):
    """All ordered trees with n nodes, nodes numbered in pre-order."""
    if n == 1:
        return [[[]]]
    out = []

    def forests(k):
        # ordered forests with k nodes in total -> list of list-of-trees (each tree as children-structure relative)
        if k == 0:
            return [[]]
        res = []
        for first in range(1, k + 1):
            for t in all_trees(first):
                for rest in forests(k - first):
                    res.append([t] + rest)
        return res

    for forest in forests(n - 1):
        children = [[]]
        nxt = [1]

        def place(tree, at):
            # tree is a children-structure numbered from 0; renumber with offset `at`
            off = at
            for i, cs in enumerate(tree):
                while len(children) <= off + i:
                    children.append([])
                children[off + i] = [off + c for c in cs]
            return len(tree)
        for t in forest:
            children[0].append(nxt[0])
            nxt[0] += place(t, nxt[0])
        out.append(children)
    return out


def chain(depth, leaf_comments=1):
    children = [[i + 1] for i in range(depth - 1)] + [[]]
    return children


def install_tree_sitter(I, prog, mt, flags):
    """flags[i]: symbolic/concrete bool: node i is a comment.  Node geometry: node i starts at row i,
    column 2*i, byte 10*i and ends at row i, column 2*i+1, byte 10*i+5."""
    st = I.stubs

    def node(i):
        return Struct('Node', (i,))

    def nid(I2, v):
        v = I2.deref_value(v) if isinstance(v, Ref) else v
        while isinstance(v, Ref):
            v = I2.load(v)
        return v.f[0]
    st['Parser::parse'] = lambda I2, a, ci, dt: Some(Struct('Tree', (0,)))
    st['Tree::walk'] = lambda I2, a, ci, dt: Struct('TreeCursor', (0,))
    st['Tree::root_node'] = lambda I2, a, ci, dt: node(0)
    st['Node::walk'] = lambda I2, a, ci, dt: Struct('TreeCursor', (nid(I2, a[0]),))
    st['TreeCursor::node'] = lambda I2, a, ci, dt: node(nid(I2, a[0]))

    def goto(fn):
        def model(I2, a, ci, dt):
            cur = nid(I2, a[0])
            nxt = fn(cur)
            if nxt is None:
                return False
            I2.store(a[0], Struct('TreeCursor', (nxt,)))
            return True
        return model

    def first_child(i):
        return mt.children[i][0] if mt.children[i] else None

    def next_sibling(i):
        p = mt.parent[i]
        if p is None:
            return None
        sib = mt.children[p]
        k = sib.index(i)
        return sib[k + 1] if k + 1 < len(sib) else None
    st['TreeCursor::goto_first_child'] = goto(first_child)
    st['TreeCursor::goto_next_sibling'] = goto(next_sibling)
    st['TreeCursor::goto_parent'] = goto(lambda i: mt.parent[i])
    st['TreeCursor::reset'] = lambda I2, a, ci, dt: (I2.store(a[0], Struct('TreeCursor', (nid(I2, a[1]),))), UNIT)[1]
    st['Node::child_count'] = lambda I2, a, ci, dt: len(mt.children[nid(I2, a[0])])
    st['Node::named_child_count'] = st['Node::child_count']

    def child(I2, a, ci, dt):
        i = nid(I2, a[0])
        k = I2.concretize(a[1])
        cs = mt.children[i]
        return Some(node(cs[k])) if 0 <= k < len(cs) else NONE
    st['Node::child'] = child
    st['Node::named_child'] = child
    st['Node::children'] = lambda I2, a, ci, dt: ListIter([node(c) for c in mt.children[nid(I2, a[0])]])
    st['Node::named_children'] = st['Node::children']
    st['Node::parent'] = lambda I2, a, ci, dt: (Some(node(mt.parent[nid(I2, a[0])])) if mt.parent[nid(I2, a[0])] is not None else NONE)
    st['Node::next_sibling'] = lambda I2, a, ci, dt: (Some(node(next_sibling(nid(I2, a[0])))) if next_sibling(nid(I2, a[0])) is not None else NONE)
    st['Node::kind'] = lambda I2, a, ci, dt: SStr(tuple(b'comment'), -1, 0) if I2.branch(flags[nid(I2, a[0])]) else SStr(tuple(b'other'), -1, 0)
    st['Node::start_position'] = lambda I2, a, ci, dt: Struct('Point', (nid(I2, a[0]), 2 * nid(I2, a[0])))
    st['Node::end_position'] = lambda I2, a, ci, dt: Struct('Point', (nid(I2, a[0]), 2 * nid(I2, a[0]) + 1))
    st['Node::start_byte'] = lambda I2, a, ci, dt: 10 * nid(I2, a[0])
    st['Node::end_byte'] = lambda I2, a, ci, dt: 10 * nid(I2, a[0]) + 5
    st['Node::byte_range'] = lambda I2, a, ci, dt: Struct('Range', (10 * nid(I2, a[0]), 10 * nid(I2, a[0]) + 5))
    st['Node::id'] = lambda I2, a, ci, dt: nid(I2, a[0])


def run_walk(task):
    """task = (children structure, 'all' | 'deep')"""
    children, mode = task
    prog = driver.load_program()
    stats = PathStats()
    f_parse = prog.find_method('TreeSitterCommentsParser', 'parse', trait='CommentsParser')
    if f_parse is None:
        raise EngineError('<TreeSitterCommentsParser as CommentsParser>::parse not in the MIR dump')
    mt = MTree(children)
    n = mt.n()
    out = dict(violations=[], samples=[], obligations=0, cover={}, panic_paths=0, max_depth=0)
    holder = {}
    roles = set()

    def run_path(I):
        if mode == 'deep':
            flags = [i == n - 1 or i == n // 2 for i in range(n)]     # two comments, one at the bottom
        else:
            flags = [I.fresh_bool('c%d' % i) for i in range(n)]
        holder['flags'] = flags
        install_tree_sitter(I, prog, mt, flags)

        def visitor(I2, args):
            nd = args[0]
            v = I2.deref_value(nd) if isinstance(nd, Ref) else nd
            i = v.f[0]
            if I2.branch(flags[i]) if not isinstance(flags[i], bool) else flags[i]:
                return Some(new_string(I2, b'  c%d' % i))
            return NONE
        order = prog.src.structs.get('TreeSitterCommentsParser')
        if order is None or 'node_visitor' not in order:
            raise EngineError('struct TreeSitterCommentsParser (with a node_visitor) not found in source')
        known = dict(parser=Struct('Parser', ()), node_visitor=visitor, tree=NONE)
        parser = Cell(Struct('TreeSitterCommentsParser', [known.get(f, Opaque('field:' + f)) for f in order]))
        src = SStr(tuple(b'x' * (10 * n + 6)), I.new_alloc(), 0)
        I.max_depth = 0
        it = I.call_fn(f_parse, [Ref(parser, ()), src])
        got = collect_iter(I, it)
        holder['max_depth'] = I.max_depth
        return got

    for I, pk, val in explore(prog, models.M, run_path, stats=stats, max_paths=20000, max_steps=400000):
        out['obligations'] += 1
        flags = holder['flags']
        out['max_depth'] = max(out['max_depth'], holder.get('max_depth', 0))
        if pk == 'panic':
            out['panic_paths'] += 1
            if 'panic' not in roles:
                roles.add('panic')
                out['violations'].append(dict(role='tree-walk-panic', summary='panic while walking the tree: %s' % val.msg[:120], tree=children, walk=True))
            continue
        got = []
        for c in val:
            sr = get_field(prog, c, 'Comment', 'source_range')
            pr = get_field(prog, c, 'Comment', 'position_range')
            st_ = pr.f[0]
            got.append((sr.f[0] // 10, get_field(prog, st_, 'Position', 'line'), get_field(prog, st_, 'Position', 'character'), sr.f[0], sr.f[1]))
        ids = [g[0] for g in got]
        bad = None
        if ids != sorted(set(ids)):
            bad = 'the walk produced %s: not each comment once in document order' % ids
        else:
            for i in range(n):
                if i in ids:
                    continue
                f = flags[i]
                # a comment node the walk did not produce?  (its flag is undecided if the walk never looked at it)
                if (f is True) or (not isinstance(f, bool) and I.check(f)):
                    bad = 'node %d can be a comment but the walk produced only %s' % (i, ids)
                    break
        if bad:
            if 'walk-misses-or-repeats-comments' not in roles:
                roles.add('walk-misses-or-repeats-comments')
                out['violations'].append(dict(role='walk-misses-or-repeats-comments', tree=children, walk=True, summary=bad))
            continue
        for (i, line, col, a, b) in got:
            if (line, col, a, b) != (i + 1, 2 * i + 1, 10 * i, 10 * i + 5):
                if 'comment-geometry-wrong' not in roles:
                    roles.add('comment-geometry-wrong')
                    out['violations'].append(dict(role='comment-geometry-wrong', tree=children, walk=True,
                                                  summary='node %d: position (%s,%s) bytes %s..%s' % (i, line, col, a, b)))
        out['cover']['tree walk'] = out['cover'].get('tree walk', 0) + 1
    out.update(Agg('C03', 'x').stats_from(stats))
    out['task'] = [mode, n]
    return out


def run_all(tier):
    """-> list of result dicts; stack-depth comparison folded in as a violation of role 'walk-depth-grows-with-nesting'."""
    nmax = 5 if tier == 'quick' else 6
    tasks = []
    for n in range(1, nmax + 1):
        for t in all_trees(n):
            tasks.append((t, 'all'))
    tasks.append((chain(8), 'deep'))
    tasks.append((chain(40), 'deep'))
    res = pmap(run_walk, tasks)
    deep = [r for r in res if r.get('task', [None])[0] == 'deep']
    if len(deep) == 2 and not any('engine_error' in r for r in deep):
        d8 = [r for r in deep if r['task'][1] == 8][0]['max_depth']
        d40 = [r for r in deep if r['task'][1] == 40][0]['max_depth']
        extra = dict(violations=[], samples=[], obligations=1, cover={'stack depth': 1}, panic_paths=0)
        if d40 > d8 + 8:
            extra['violations'].append(dict(role='walk-depth-grows-with-nesting', walk=True, deep=True,
                                            summary='call nesting %d on a chain of depth 8 but %d on depth 40: the walk recurses with the nesting of the source' % (d8, d40)))
        res.append(extra)
    return res


def confirm_walk(binary, prop, v, idx):
    """Replay: deeply nested but valid source (a recursive walk overflows the stack); for order/completeness
    violations a file with comments at several nesting levels."""
    v['confirmed'] = False
    if v.get('deep') or v['role'] == 'tree-walk-panic':
        depth = 100000
        files = {'deep.py': (b'x = ' + b'(' * depth + b'1' + b')' * depth + b'  # <block name="a">\n# </block>\n')}
        r = run_scan(binary, files, ['**'], extra_args=['list'])
        v['observed'] = dict(code=r['code'], stderr=r['stderr'][-200:])
        if r['code'] not in (0, 1) or 'overflow' in r['stderr']:
            v['confirmed'] = True
            v['replay'] = save_replay(prop, 'walk-%s-%d' % (v['role'], idx), files, "list '**'",
                                      'expected one block listed; the process must not abort; ' + v['summary'], v)
        return v
    src = b'/* <block name="top"> */\nfunction f() {\n  // <block name="in1">\n  if (x) {\n    /* <block name="in2"> */ y();\n    // </block>\n  }\n  // </block>\n}\n// </block>\n'
    r = run_scan(binary, {'t.js': src}, ['**'], extra_args=['list'])
    names = []
    try:
        names = [b['name'] for b in json.loads(r['stdout']).get('t.js', [])]
    except ValueError:
        pass
    v['observed'] = dict(code=r['code'], names=names)
    if names != ['top', 'in1', 'in2']:
        v['confirmed'] = True
        v['replay'] = save_replay(prop, 'walk-%s-%d' % (v['role'], idx), {'t.js': src}, "list '**'",
                                  'expected blocks top, in1, in2; ' + v['summary'], v)
    return v
