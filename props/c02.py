"""C02 — diff mode selects exactly the touched blocks; attribute-only edits are not content edits.

Encoded (real MIR): blocks::parse_file::{closure#0} (the ModifiedOnly/All filter),
Block::content_intersects_with_any, Block::start_tag_intersects_with_any,
Block::intersects_with_line_change(_inclusive) and their closures.
Symbolic: line of every change (strictly increasing), every char range, the block's
start-tag span (possibly over several lines), comment end, end-tag comment start.
Enumerated by forking: number of changes and per change "whole line" / k ranges.
"""
import itertools
import json
import os
import random
import shutil
import sys

import z3

from .common import *  # noqa
from mirsym.interp import explore, PathStats

PROP = 'C02'
NUM_MAX = 1 << 32


def gen_shapes(max_changes, max_ranges):
    kinds = list(range(0, max_ranges + 1))      # 0 = whole-line change, k = k ranges
    out = []
    for n in range(1, max_changes + 1):
        out.extend(itertools.product(kinds, repeat=n))
    return out


class G:
    pass


def build(I, prog, shape):
    g = G()
    fi = I.fresh_int
    g.Tl = fi('Tl', 1, NUM_MAX)
    g.tc = fi('tc', 4, NUM_MAX)
    g.Te = fi('Te', 1, NUM_MAX)
    g.te = fi('te', 1, NUM_MAX)
    g.Sb = fi('Sb', 1, NUM_MAX)
    g.cs = fi('cs', 3, NUM_MAX)
    g.Ea = fi('Ea', 1, NUM_MAX)
    g.ce = fi('ce', 1, NUM_MAX)
    I.add(z3.And(g.Tl <= g.Te, g.Te <= g.Sb, g.Sb <= g.Ea))
    I.add(z3.Implies(g.Tl == g.Te, g.te >= g.tc + 17))       # `<block name="blk">` is 18 bytes
    I.add(z3.Implies(g.Te == g.Sb, g.cs >= g.te + 3))        # `>` then at least `*/`
    I.add(z3.Implies(g.Sb == g.Ea, g.ce >= g.cs))
    g.block = mk_struct(
        prog, 'Block',
        attributes=MapVal(()),
        start_tag_position_range=Struct('RangeInclusive', (position(prog, g.Tl, g.tc),
                                                            position(prog, g.Te, g.te), False)),
        content_bytes_range=Struct('Range', (0, 0)),
        content_position_range=Struct('Range', (position(prog, g.Sb, g.cs), position(prog, g.Ea, g.ce))))
    g.changes = []
    items = []
    prev = None
    for i, k in enumerate(shape):
        ln = fi('n%d' % i, 1, NUM_MAX)
        if prev is not None:
            I.add(ln > prev)
        prev = ln
        rs = []
        pe = None
        for j in range(k):
            a = fi('r%d_%ds' % (i, j), 0, NUM_MAX)
            b = fi('r%d_%de' % (i, j), 0, NUM_MAX)
            I.add(a < b)
            if pe is not None:
                I.add(a > pe)
            pe = b
            rs.append((a, b))
        g.changes.append(dict(n=ln, ranges=rs if k else None))
        ranges_v = NONE if k == 0 else Some(VecVal([Struct('Range', ab) for ab in rs]))
        items.append(mk_struct(prog, 'LineChange', line=ln, ranges=ranges_v))
    g.lcs = VecVal(items)
    g.small = [g.Tl, g.tc, g.Te, g.te, g.Sb, g.cs, g.Ea, g.ce] + [c['n'] for c in g.changes] + \
              [x for c in g.changes if c['ranges'] for ab in c['ranges'] for x in ab]
    return g


def Or(*xs):
    xs = [x for x in xs]
    if not xs:
        return z3.BoolVal(False)
    return z3.Or(*xs) if len(xs) > 1 else xs[0]


def And(*xs):
    xs = [x for x in xs]
    if not xs:
        return z3.BoolVal(True)
    return z3.And(*xs) if len(xs) > 1 else xs[0]


def classify(g, c):
    """z3 formulas: (cert_tag, cert_content, cert_outside, content_dontcare) for one change."""
    n = c['n']
    if c['ranges'] is None:
        cert_content = z3.And(g.Sb < n, n < g.Ea)
        cert_tag = z3.BoolVal(False)            # an added line at the tag's line: don't care
        cert_out = z3.Or(n < g.Tl, n > g.Ea)
        dont_content = z3.And(n >= g.Tl, n <= g.Ea, z3.Not(cert_content))
        return cert_tag, cert_content, cert_out, dont_content
    # spans (0-based, on line n)
    tag_lo = z3.If(n == g.Tl, g.tc - 1, 0)                      # inclusive
    tag_hi = z3.If(n == g.Te, g.te - 1, NUM_MAX * 4)            # inclusive
    on_tag_line = z3.And(n >= g.Tl, n <= g.Te)
    con_lo = z3.If(n == g.Sb, g.cs - 1, 0)                      # inclusive
    con_hi = z3.If(n == g.Ea, g.ce - 1, NUM_MAX * 4)            # exclusive
    on_con_line = z3.And(n >= g.Sb, n <= g.Ea)
    hit_tag = Or(*[z3.And(a <= tag_hi, b > tag_lo) for a, b in c['ranges']])
    hit_con = Or(*[z3.And(a < con_hi, b > con_lo) for a, b in c['ranges']])
    cert_tag = z3.And(on_tag_line, hit_tag)
    cert_content = z3.And(on_con_line, hit_con)
    cert_out = z3.And(z3.Not(cert_tag), z3.Not(cert_content))
    return cert_tag, cert_content, cert_out, z3.BoolVal(False)


def select_through_parse_file(I, prog, block, lcs, mode):
    """blocks::parse_file on one block: the file system and the grammar are stubs (the block parser hands
    back `block`), everything between them - grammar lookup, the two intersection tests, the filter - is
    the crate's MIR.  Returns Option<BlockWithContext> as an Enum value."""
    from . import c16
    from mirsym.models import new_string
    table, _names, _st = c16.real_table(prog)
    f_pf = prog.find_fn('parse_file')
    I.stubs['FileSystem::read_to_string'] = lambda I2, a, ci, dt: Ok(new_string(I2, b'source'))
    I.stubs['BlocksParser::parse'] = lambda I2, a, ci, dt: Ok(VecVal([block]))
    filt = Enum('BlocksFilter', prog.variant_index('BlocksFilter', mode), mode)
    r = I.call_fn(f_pf, [SStr(tuple(b'f.js'), I.new_alloc(), 0), Ref(Cell(lcs), ()), filt,
                         Ref(Cell(Struct('FakeFS', ())), ()), Ref(Cell(table), ()), Ref(Cell(MapVal((), 'HashMap')), ())])
    if r.v != 0 or r.f[0].v != 1:
        raise EngineError('parse_file did not return Ok(Some(..)) under total stubs: %r' % (r,))
    bwcs = get_field(prog, r.f[0].f[0], 'FileBlocks', 'blocks_with_context').items
    if len(bwcs) > 1:
        raise EngineError('one block in, %d out' % len(bwcs))
    return Some(bwcs[0]) if bwcs else NONE


def run_eol(task):
    """A removed line re-added with identical text (git: `\\ No newline at end of file` edits, with or
    without the marker line between them), anywhere relative to the block - its end-tag line included:
    nothing changed in any line, so the block is neither selected nor content-modified.
    diff -> line_changes -> the parse_file filter closure, all real MIR; line_diff of two identical
    texts is the empty list (similar yields one Equal op)."""
    with_marker, extra_ctx = task
    from mirsym.extmodels import mk_line, mk_hunk, mk_patched_file
    prog = driver.load_program()
    stats = PathStats()
    f_lc = prog.find_fn('line_changes')
    out = dict(violations=[], samples=[], obligations=0, cover={}, panic_paths=0)
    holder = {}
    roles = set()

    def run_path(I):
        g = build(I, prog, ())
        L = I.fresh_int('L', 1, NUM_MAX)
        holder.update(g=g, L=L)
        lines = []
        if extra_ctx:
            lines.append(mk_line(I, b' ', L - 1, L - 1))
        lines.append(mk_line(I, b'-', L, None))
        if with_marker:
            lines.append(mk_line(I, b'\\', None, None))
        lines.append(mk_line(I, b'+', None, L))
        start = L - 1 if extra_ctx else L
        n = 2 if extra_ctx else 1
        pf = mk_patched_file(I, b'a/f.js', b'b/f.js', [mk_hunk(I, start, n, start, n, lines)])
        I.stubs['line_diff'] = lambda I2, a, ci, dt: VecVal(())
        lcs = I.call_fn(f_lc, [Ref(Cell(pf), ())])
        holder['lcs'] = lcs
        return select_through_parse_file(I, prog, g.block, lcs, 'ModifiedOnly')

    for I, pk, val in explore(prog, models.M, run_path, stats=stats, max_paths=5000):
        g, L = holder['g'], holder['L']
        out['obligations'] += 1
        if pk == 'panic':
            out['panic_paths'] += 1
            role = 'panic'
            cond = z3.BoolVal(True)
            summary = 'panic: %s' % val.msg[:100]
        elif val.v == 1:
            role = 'unchanged-line-selects-block'
            cond = z3.BoolVal(True)
            bwc = val.f[0]
            summary = 'a line removed and re-added unchanged selects the block (is_content_modified=%s)' % get_field(prog, bwc, 'BlockWithContext', 'is_content_modified')
        else:
            out['cover']['eol-only'] = out['cover'].get('eol-only', 0) + 1
            continue
        if role in roles:
            continue
        # prefer the end-tag line: that is what adding the final newline of a file touches
        m = small_model(I, z3.And(cond, L == g.Ea), [L] + g.small) or small_model(I, cond, [L] + g.small)
        if m is None:
            continue
        roles.add(role)
        vals = dict((k, mval(m, getattr(g, k))) for k in ('Tl', 'tc', 'Te', 'te', 'Sb', 'cs', 'Ea', 'ce'))
        vals['changes'] = []
        out['violations'].append(dict(role=role, summary=summary, shape=[0], values=vals,
                                      eol=dict(line=mval(m, L), marker=bool(with_marker), ctx=bool(extra_ctx))))
    out.update(Agg(PROP, 'x').stats_from(stats))
    return out


def run_shape(task):
    shape, want_samples = task
    prog = driver.load_program()
    stats = PathStats()
    bf_variants = prog.enum_index.get('BlocksFilter')
    if not bf_variants:
        raise EngineError('enum BlocksFilter not found')
    out = dict(violations=[], samples=[], obligations=0, cover={}, panic_paths=0)
    holder = {}
    roles_seen = set()

    for mode in ('ModifiedOnly', 'All'):
        def run_path(I, mode=mode):
            g = build(I, prog, shape)
            holder['g'] = g
            return select_through_parse_file(I, prog, g.block, g.lcs, mode)

        for I, kind, val in explore(prog, models.M, run_path, stats=stats, max_paths=50000):
            g = holder['g']
            if kind == 'panic':
                out['panic_paths'] += 1
                m = small_model(I, z3.BoolVal(True), g.small)
                add_violation(out, roles_seen, shape, g, m, mode, 'panic', 'panic: %s' % val.msg[:100])
                continue
            res = val
            selected = res.v == 1
            content_mod = tag_mod = None
            if selected:
                bwc = res.f[0]
                content_mod = get_field(prog, bwc, 'BlockWithContext', 'is_content_modified')
                tag_mod = get_field(prog, bwc, 'BlockWithContext', '_is_start_tag_modified')
            cls = [classify(g, c) for c in g.changes]
            any_tag = Or(*[x[0] for x in cls])
            any_con = Or(*[x[1] for x in cls])
            all_out = And(*[x[2] for x in cls])
            no_con_possible = And(*[z3.And(z3.Not(x[1]), z3.Not(x[3])) for x in cls])

            def ask(cond, role, summary):
                out['obligations'] += 1
                if I.check(cond):
                    m = small_model(I, cond, g.small)
                    add_violation(out, roles_seen, shape, g, m, mode, role, summary)

            if mode == 'ModifiedOnly':
                if not selected:
                    ask(any_tag, 'tag-edit-not-selected', 'an edit inside the start tag does not select the block')
                    ask(any_con, 'content-edit-not-selected', 'an edit of the content does not select the block')
                else:
                    ask(all_out, 'untouched-block-selected', 'no change touches tag or content but the block is selected')
            else:
                if not selected:
                    ask(z3.BoolVal(True), 'scan-mode-drops-block', 'BlocksFilter::All dropped a block')
            if selected:
                if content_mod is False:
                    ask(any_con, 'content-edit-not-flagged', 'an edit of the content leaves is_content_modified=false')
                elif content_mod is True:
                    ask(no_con_possible, 'non-content-edit-flagged',
                        'only tag attributes / end-tag line / outside code edited but is_content_modified=true')
                else:
                    raise EngineError('symbolic is_content_modified %r' % (content_mod,))
                if tag_mod is False:
                    ask(any_tag, 'tag-edit-not-flagged', 'an edit inside the start tag leaves _is_start_tag_modified=false')
            out['cover']['mode:' + mode] = out['cover'].get('mode:' + mode, 0) + 1
            if want_samples and len(out['samples']) < 3 and mode == 'ModifiedOnly':
                m = small_model(I, z3.BoolVal(True), g.small)
                if m is not None:
                    out['samples'].append(dict(shape=list(shape), values=concrete(g, m), selected=selected,
                                               is_content_modified=bool(content_mod) if selected else False))
    out.update(Agg(PROP, 'x').stats_from(stats))
    return out


def closure_captures(prog, clo, named):
    """Order the captured values as the closure's MIR expects: by the `debug name => ((*_1).N` lines."""
    import re
    order = {}
    types = {}
    for m in re.finditer(r'debug (\w+) => [^;]*?\(\*?_1\)?\.(\d+): ([^;]*?)\)+;', clo.text):
        order[int(m.group(2))] = m.group(1)
        types[m.group(1)] = m.group(3)
    for k, v in list(named.items()):
        if types.get(k, '').startswith('&') and not isinstance(v, Ref):
            named[k] = Ref(Cell(v), ())
    if sorted(order.keys()) != list(range(len(order))) or set(order.values()) != set(named.keys()):
        raise EngineError('closure captures changed: %r vs %r' % (order, list(named.keys())))
    return [named[order[i]] for i in range(len(order))]


def concrete(g, m):
    return dict(Tl=mval(m, g.Tl), tc=mval(m, g.tc), Te=mval(m, g.Te), te=mval(m, g.te), Sb=mval(m, g.Sb),
                cs=mval(m, g.cs), Ea=mval(m, g.Ea), ce=mval(m, g.ce),
                changes=[dict(n=mval(m, c['n']),
                              ranges=None if c['ranges'] is None else [[mval(m, a), mval(m, b)] for a, b in c['ranges']])
                         for c in g.changes])


def add_violation(out, roles_seen, shape, g, m, mode, role, summary):
    if (role, mode) in roles_seen:
        return
    roles_seen.add((role, mode))
    out['violations'].append(dict(role=role, mode=mode, shape=list(shape), summary=summary,
                                  values=concrete(g, m) if m is not None else None))


# ------------------------------------------------------------------ materialise / replay

_FILL = 'abcdefghijklmnopqrstuvwxyz0123456789'


def fill(n, k=0, letters=False):
    al = _FILL[:26] if letters else _FILL
    return ''.join(al[(k + i) % len(al)] for i in range(max(n, 0)))


def materialize(v):
    Tl, tc, Te, te, Sb, cs, Ea, ce = (v[k] for k in ('Tl', 'tc', 'Te', 'te', 'Sb', 'cs', 'Ea', 'ce'))
    allv = [Tl, tc, Te, te, Sb, cs, Ea, ce] + [c['n'] for c in v['changes']] + \
           [x for c in v['changes'] if c['ranges'] for ab in c['ranges'] for x in ab]
    if max(allv) > 1500:
        return None
    nl = max([Ea] + [c['n'] for c in v['changes']]) + 2
    # every filler byte differs from its neighbours (and, up to 36 columns, from every other one): the
    # character diff of an old line against the new one is then unambiguous, so the real line_diff
    # reports exactly the intended ranges (runs of equal blanks let the diff slide an edit onto the tag)
    lines = {i: fill(9, 3 * i, letters=True) + ';' for i in range(1, nl + 1)}
    # start comment: lines Tl..Sb
    head = '/*' + fill(tc - 3) + '<block name="blk"'
    if len(head) != tc - 1 + 17:
        return None
    if Tl == Te:
        if te < tc + 17:
            return None
        gap = te - (tc + 17)
        first = head + (' ' + fill(gap - 1, 5) if gap >= 1 else '') + '>'
        cur = {Tl: first}
    else:
        cur = {Tl: head}
        for k in range(Tl + 1, Te):
            cur[k] = ' a%d="x"' % k
        cur[Te] = (' ' + fill(te - 2, 11) if te >= 2 else '') + '>'
    if Te == Sb:
        ln = cur[Te]
        if cs < len(ln) + 3:
            return None
        cur[Te] = ln + fill(cs - 1 - len(ln) - 2, 17) + '*/'
    else:
        for k in range(Te + 1, Sb):
            cur[k] = ' ' + fill(14, 2 * k)
        if cs < 3:
            return None
        cur[Sb] = fill(cs - 3, 23) + '*/'
    for k, t in cur.items():
        lines[k] = t
    end = '/* </block> */'
    if Ea == Sb:
        if ce < cs:
            return None
        lines[Sb] = lines[Sb] + fill(ce - cs, 29, letters=True) + end
    else:
        lines[Ea] = fill(ce - 1, 31, letters=True) + end
    # changed lines
    added_before = 0
    diff = ['diff --git a/f.js b/f.js', 'index 1111111..2222222 100644', '--- a/f.js', '+++ b/f.js']
    for c in v['changes']:
        n = c['n']
        if c['ranges'] is None:
            diff.append('@@ -%d,0 +%d @@' % (n - 1 - added_before, n))
            diff.append('+' + lines[n])
            added_before += 1
        else:
            need = max(b for a, b in c['ranges'])
            if len(lines[n]) < need:
                lines[n] = lines[n] + ' ' + fill(need - len(lines[n]) - 1, 7, letters=True)
            old = list(lines[n])
            for a, b in c['ranges']:
                for k in range(a, b):
                    old[k] = '~'
            diff.append('@@ -%d +%d @@' % (n - added_before, n))
            diff.append('-' + ''.join(old))
            diff.append('+' + lines[n])
    content = '\n'.join(lines[i] for i in range(1, nl + 1)) + '\n'
    return dict(file='f.js', content=content, diff='\n'.join(diff) + '\n')


def observe(binary, mat, workdir, args=('list',)):
    git_init(workdir)
    open(os.path.join(workdir, mat['file']), 'w').write(mat['content'])
    r = run_blockwatch(binary, workdir, list(args), stdin=mat['diff'].encode())
    if r['code'] != 0:
        return dict(error='exit %r: %s' % (r['code'], r['stderr'][-400:]))
    try:
        js = json.loads(r['stdout']) if r['stdout'].strip() else {}
    except ValueError:
        return dict(error='bad json %s' % r['stdout'][:200])
    for b in js.get(mat['file'], []):
        if b.get('name') == 'blk':
            return dict(selected=True, is_content_modified=bool(b.get('is_content_modified')),
                        line=b.get('line'), column=b.get('column'))
    return dict(selected=False, is_content_modified=False)


EXPECT = {
    'tag-edit-not-selected': ('selected', True),
    'content-edit-not-selected': ('selected', True),
    'untouched-block-selected': ('selected', False),
    'scan-mode-drops-block': ('selected', True),
    'content-edit-not-flagged': ('is_content_modified', True),
    'non-content-edit-flagged': ('is_content_modified', False),
    'unchanged-line-selects-block': ('selected', False),
}


def confirm(binary, v, idx):
    v['confirmed'] = False
    if v['values'] is None or v['role'] not in EXPECT:
        if v['role'] == 'tag-edit-not-flagged':
            v['confirmed'] = None   # internal flag, not observable: reported only with a sibling role
        return v
    mat = materialize(v['values'])
    if mat is None:
        v['summary'] += ' (could not materialise)'
        return v
    if v.get('eol'):
        # the diff of an end-of-line-only edit: the line removed and re-added with the same text
        e = v['eol']
        lines = mat['content'].split('\n')
        if e['line'] > len(lines) - 1:
            return v
        text = lines[e['line'] - 1]
        d_ = ['diff --git a/f.js b/f.js', 'index 1111111..2222222 100644', '--- a/f.js', '+++ b/f.js']
        if e['ctx'] and e['line'] > 1:
            d_ += ['@@ -%d,2 +%d,2 @@' % (e['line'] - 1, e['line'] - 1), ' ' + lines[e['line'] - 2]]
        else:
            d_ += ['@@ -%d +%d @@' % (e['line'], e['line'])]
        d_ += ['-' + text] + (['\\ No newline at end of file'] if e['marker'] else []) + ['+' + text]
        mat['diff'] = '\n'.join(d_) + '\n'
        v['mode'] = 'ModifiedOnly'
    d = scratch_dir('c02')
    try:
        args = ('list',) if v['mode'] == 'ModifiedOnly' else ('list', 'f.js')
        obs = observe(binary, mat, d, args)
    finally:
        shutil.rmtree(d, ignore_errors=True)
    v['observed'] = obs
    key, want = EXPECT[v['role']]
    if 'error' in obs:
        return v
    # geometry sanity: the real parser must put the tag where the model says
    if obs.get('selected') and (obs.get('line') != v['values']['Tl'] or obs.get('column') != v['values']['tc']):
        v['summary'] += ' (replay geometry mismatch: %r)' % (obs,)
        return v
    if obs[key] != want:
        v['confirmed'] = True
        rd = replay_dir(PROP, '%s-%d' % (v['role'], idx))
        git_init(rd)
        open(os.path.join(rd, mat['file']), 'w').write(mat['content'])
        open(os.path.join(rd, 'input.diff'), 'w').write(mat['diff'])
        open(os.path.join(rd, 'violation.json'), 'w').write(json.dumps(v, indent=1, default=str))
        open(os.path.join(rd, 'replay.sh'), 'w').write(
            '#!/bin/sh\n# expected %s=%s for block "blk": %s\ncd "$(dirname "$0")" && "${BLOCKWATCH:-blockwatch}" %s < input.diff\n'
            % (key, want, v['summary'], ' '.join(args)))
        os.chmod(os.path.join(rd, 'replay.sh'), 0o755)
        v['replay'] = rd
    return v


def validate_sample(binary, s):
    mat = materialize(s['values'])
    if mat is None:
        return None
    d = scratch_dir('c02v')
    try:
        obs = observe(binary, mat, d)
    finally:
        shutil.rmtree(d, ignore_errors=True)
    if 'error' in obs:
        return 'real binary failed: %s on %s' % (obs['error'], json.dumps(s))
    if obs['selected'] != s['selected'] or obs['is_content_modified'] != s['is_content_modified']:
        return 'mirsym %s/%s vs real %s on %s' % (s['selected'], s['is_content_modified'], obs, json.dumps(s))
    if obs['selected'] and (obs['line'] != s['values']['Tl'] or obs['column'] != s['values']['tc']):
        return 'replay geometry mismatch %s on %s' % (obs, json.dumps(s))
    return True


BOUNDS = {
    'quick': dict(max_changes=3, max_ranges=1, validate=30, many_ranges=[(3,), (4,), (1, 3)]),
    'thorough': dict(max_changes=4, max_ranges=2, validate=150, many_ranges=[(3,), (4,), (5,), (1, 3), (3, 1), (0, 3), (3, 3), (2, 4)]),
}


def main(tier):
    b = BOUNDS[tier]
    agg = Agg(PROP, tier)
    binary = driver.real_binary()
    driver.load_program()
    shapes = gen_shapes(b['max_changes'], b['max_ranges'])
    # a few shapes with many character ranges on one line (binary searches over the ranges need >= 3
    # probes to go wrong at a boundary)
    shapes += [x for x in b['many_ranges'] if x not in shapes]
    rnd = random.Random(seed())
    rnd.shuffle(shapes)
    results = pmap(run_shape, [(s, True) for s in shapes])
    results += pmap(run_eol, [(m, c) for m in (True, False) for c in (True, False)])
    for r in results:
        agg.add(r)
    from . import mainwire
    mainwire.add_to(agg, PROP, binary)
    by_role = {}
    for v in agg.violations:
        by_role.setdefault(v['role'], []).append(v)
    final = []
    for role, vs in sorted(by_role.items()):
        vs.sort(key=lambda v: (len(v['shape']), sum(v['shape'])))
        got = None
        for i, v in enumerate(vs[:8]):
            if not v.get('main'):        # main-wiring violations were replayed by mainwire.add_to
                confirm(binary, v, i)
            if v.get('confirmed'):
                got = v
                break
        if got is None:
            if all(v.get('confirmed') is None for v in vs[:8]):
                continue
            got = vs[0]
            got['confirmed'] = False
        final.append(got)
    agg.violations = final
    samples = [s for r in results for s in r.get('samples', [])]
    rnd.shuffle(samples)
    for s in samples[:b['validate']]:
        ok = validate_sample(binary, s)
        if ok is True:
            agg.validated += 1
        elif ok is not None:
            agg.validation_failures.append(ok)
            agg.engine_errors.append({'engine_error': 'translator validation: ' + ok})
    kani = None
    if tier == 'thorough':
        from . import kani_run
        kani = kani_run.run_kani(['content_intersection_equals_linear_oracle', 'start_tag_intersection_equals_linear_oracle'])
        for h, r in kani.items():
            if r['status'] != 'SUCCESSFUL':
                agg.engine_errors.append({'engine_error': 'Kani cross-check %s: %s %s' % (h, r['status'], r.get('tail', '')[-300:])})
    bounds = dict(b)
    bounds['shapes'] = len(shapes)
    if kani is not None:
        bounds['kani_cross_check'] = kani
    bounds['numeric'] = 'every line number, column and range bound in [0 or 1, 2^32]'
    return finish(
        agg, bounds,
        assumptions=[
            'line changes are sorted by strictly increasing line and each has sorted, separated, non-empty ranges (post-condition of line_changes/line_diff, decided in C01/C04)',
            'one block; start tag `<`..`>` inside the start comment, which begins on the tag\'s first line; geometry constraints of a /* */ comment (tc>=4, `>` at least 17 columns after `<` when on one line)',
            'whole-line changes on a tag-comment line are "don\'t care" (a deletion above the tag and an added tag line look the same at this level)',
            'non-interference of the validators w.r.t. is_content_modified is decided in the C06-C09 harnesses, glob handling in C15',
        ],
        stubs=[],
        must_cover=['main', 'mode:ModifiedOnly', 'mode:All', 'eol-only'],
        explanation='per change-list shape, all feasible MIR paths of the parse_file filter closure; classification formulas (inside tag / inside content / outside) asked of Z3 against the closure result')


if __name__ == '__main__':
    sys.exit(main(sys.argv[1] if len(sys.argv) > 1 else 'quick'))
