"""C05 — tag syntax: attributes round-trip, look-alikes are ignored.

Encoded (real MIR): parse_blocks_from_comments / PartialBlocksIterator::next / BlockStart::new (pipeline
family: the grammar's output reaches Block.attributes), <WinnowBlockTagParser as BlockTagParser>::next (the candidate '<' scan with
fall-through, cursor and offset arithmetic), parse_start_tag, parse_end_tag, parse_attributes (+ its
fold closure), parse_attribute_name / parse_attribute_value (+ their character-class and map
closures).  The generic winnow combinators the grammar is written with are models
(mirsym/winnowmodel.py): which combinators, literals, ranges and predicates are used is read from
the crate's MIR on every run.

Print/parse round trip from the attribute AST: a task is a sequence of items laid out in one comment
text — noise, start tags (attribute list with per-attribute quoting style and whitespace layout),
end tags with inner whitespace, members of the look-alike families.  The *structure* (how many
attributes, which style, how many whitespace/name/value/noise bytes) is enumerated; every name,
value, whitespace and noise byte is a solver variable ranging over its class.  `next()` is called
until it returns None; on every path the solver is asked whether the events differ from the AST:
kind, tag byte range, and the attribute map (every name present with the value of its last
occurrence — name equality between attributes is symbolic —, no extra key).
"""
import itertools
import json
import random
import sys

import z3

from .common import *  # noqa
from .vharness import *  # noqa
from mirsym.interp import explore, PathStats
from mirsym.models import new_string

PROP = 'C05'

WS = (32, 9, 10, 13)
NAME_FULL = tuple(b'aZ7-_')             # letters, digit, '-', '_'
NAME_ALNUM = tuple(b'bQ3')
VAL_ANY = tuple(b' ><=/"\'a-_.')         # printable; the enclosing quote is removed per value
NOISE = tuple(b'<b/ >x"=\n')
L1_X = tuple(b'q/-="a0_.<\'')
L1_TAIL = tuple(b'uote /"=')
L2_X = tuple(b'BLOCKblock <')
L3_X = tuple(b' \t\nx!?')
L4_TAIL = tuple(b'> a=/\n')
L6_X = tuple(b'q/-a0_')


class Builder:
    def __init__(self, I):
        self.I = I
        self.b = []
        self.n = 0
        self.sym = []

    def lit(self, s):
        self.b.extend(s if isinstance(s, (bytes, tuple, list)) else s.encode('utf-8'))

    def fresh(self, alphabet, forbid=()):
        al = [a for a in alphabet if a not in forbid]
        x = self.I.fresh_byte('t%d' % self.n, al)
        self.n += 1
        self.b.append(x)
        self.sym.append(x)
        return x

    def run(self, k, alphabet, forbid=()):
        return [self.fresh(alphabet, forbid) for _ in range(k)]

    def spec(self, pattern, classes, forbid=()):
        """pattern: class letters are symbolic bytes, anything else is literal text (may be non-ASCII)."""
        out = []
        for ch in pattern:
            if ch in classes:
                out.append(self.fresh(classes[ch], forbid))
            else:
                bs = ch.encode('utf-8')
                self.b.extend(bs)
                out.extend(bs)
        return out


NAME_CLASSES = {'n': NAME_FULL, 'a': NAME_ALNUM}


def build(I, items):
    """Lays the items out; returns (bytes, expected events, look-alike byte ranges)."""
    B = Builder(I)
    events = []
    decoys = []
    for it in items:
        k = it[0]
        start = len(B.b)
        if k == 'N':
            B.run(it[1], NOISE)
        elif k == 'T':          # literal noise text
            B.lit(it[1])
        elif k == 'S':
            _k, attrs, close_ws = it
            B.lit(b'<block')
            exp = []
            for (pre, nspec, kind, wa, wb, vspec) in attrs:
                B.run(pre, WS)
                name = B.spec(nspec, NAME_CLASSES)
                if kind == 'bare':
                    val = []
                else:
                    B.run(wa, WS)
                    B.lit(b'=')
                    B.run(wb, WS)
                    if kind == 'unq':
                        val = B.spec(vspec, NAME_CLASSES)
                    else:
                        q = 34 if kind == 'dq' else 39
                        B.lit(bytes([q]))
                        val = B.spec(vspec, {'v': VAL_ANY}, forbid=(q,))
                        B.lit(bytes([q]))
                exp.append((tuple(name), tuple(val)))
            B.run(close_ws, WS)
            B.lit(b'>')
            events.append(('S', start, len(B.b), exp))
        elif k == 'E':
            _k, w1, w2, w3 = it
            B.lit(b'<')
            B.run(w1, WS)
            B.lit(b'/')
            B.run(w2, WS)
            B.lit(b'block')
            B.run(w3, WS)
            B.lit(b'>')
            events.append(('E', start, len(B.b), None))
        elif k == 'L1':         # <block + a byte that is neither whitespace nor '>' + tail + '>'
            B.lit(b'<block')
            B.fresh(L1_X)
            B.run(it[1], L1_TAIL)
            B.lit(b'>')
            decoys.append((start, len(B.b), k))
        elif k == 'L2':         # one letter of `block` replaced
            pos, rest = it[1], it[2]
            word = b'block'
            B.lit(b'<' + word[:pos])
            B.fresh(L2_X, forbid=(word[pos],))
            B.lit(word[pos + 1:] + rest)
            decoys.append((start, len(B.b), k))
        elif k == 'L3':         # a byte between '<' and `block`
            B.lit(b'<')
            B.fresh(L3_X)
            B.lit(b'block' + it[1])
            decoys.append((start, len(B.b), k))
        elif k == 'L4':         # quote never closed in the rest of the comment (last item)
            q = it[1]
            B.lit(b'<block a=' + bytes([q]))
            B.run(it[2], VAL_ANY + (10,), forbid=(q, 60))
            decoys.append((start, len(B.b), k))
        elif k == 'L6':         # </block + a byte that is neither whitespace nor '>'
            B.lit(b'</block')
            B.fresh(L6_X)
            B.run(it[1], L1_TAIL)
            B.lit(b'>')
            decoys.append((start, len(B.b), k))
        else:
            raise EngineError('item %r' % (it,))
    return tuple(B.b), events, decoys, B.sym


def seq_ne(a, b):
    """Z3 condition: byte sequences differ."""
    if len(a) != len(b):
        return z3.BoolVal(True)
    ds = []
    for x, y in zip(a, b):
        if isinstance(x, int) and isinstance(y, int):
            if x != y:
                return z3.BoolVal(True)
            continue
        ds.append(x != y)
    return zor(ds)


def seq_eq(a, b):
    return z3.Not(seq_ne(a, b))


def attr_obligations(I, viol, ents, exp, where):
    """The reported map `ents` [(key bytes, value bytes)] against the written attribute list `exp`."""
    for j, (nm, _v) in enumerate(exp):
        # the value that must be reported for name j: that of its last occurrence
        present = zor([seq_eq(k, nm) for k, _ in ents])
        viol(I, z3.Not(present), 'attribute-missing', 'attribute %d of the %s is not in the map' % (j, where))
        for j2 in range(j, len(exp)):
            is_last = zand([seq_eq(exp[j2][0], nm)] + [seq_ne(exp[j3][0], nm) for j3 in range(j2 + 1, len(exp))])
            for (k, v) in ents:
                viol(I, z3.And(is_last, seq_eq(k, nm), seq_ne(v, exp[j2][1])), 'attribute-value-wrong',
                     'attribute %d of the %s: reported value differs from the written one (last duplicate wins)' % (j, where))
    for (k, _v) in ents:
        viol(I, zand([seq_ne(k, nm) for nm, _ in exp]), 'extra-attribute', '%s: a key that was not written' % where)


def run_pipeline(task):
    """Several comments, each laid out from items, through parse_blocks_from_comments: the blocks
    carry exactly the written attributes (what `blockwatch list` prints)."""
    comments_items, want_sample = task
    from mirsym.models import ListIter
    prog = driver.load_program()
    stats = PathStats()
    f = prog.find_fn('parse_blocks_from_comments')
    out = dict(violations=[], samples=[], obligations=0, cover={}, panic_paths=0)
    holder = {}
    roles = set()

    def run_path(I):
        cs = []
        texts = []
        evs = []
        line = 1
        off = 0
        for ci, items in enumerate(comments_items):
            text, events, decoys, _syms = build(I, (('T', '  '),) + tuple(items) + (('T', '  '),))
            texts.append(text)
            evs.append(events)
            # geometry: each comment starts at column 1 of its own line; newlines inside are symbolic
            # whitespace bytes, so the end position is left to the crate (it is not read by the pairing)
            cs.append(mk_struct(
                prog, 'Comment',
                position_range=Struct('Range', (position(prog, line, 1), position(prog, line + 40, 1))),
                source_range=Struct('Range', (off, off + len(text))),
                comment_text=SString(text, I.new_alloc())))
            line += 100
            off += len(text) + 10
        holder.update(texts=texts, evs=evs)
        return I.call_fn(f, [ListIter(cs)])

    def viol(I, cond, role, summary):
        out['obligations'] += 1
        if role in roles:
            return
        if isinstance(cond, bool):
            cond = z3.BoolVal(cond)
        if I.check(cond):
            roles.add(role)
            m = I.solver.model()
            out['violations'].append(dict(role=role, summary=summary, items=repr(comments_items), pipeline=True,
                                          texts=[model_bytes(m, t).decode('latin1') for t in holder['texts']]))

    for I, pk, val in explore(prog, models.M, run_path, stats=stats, max_paths=60000):
        if pk == 'panic':
            out['panic_paths'] += 1
            viol(I, True, 'panic', 'panic: %s' % val.msg[:120])
            continue
        # expected blocks: stack pairing of the written events, in order of their start tags
        stack, exp_blocks = [], []
        for ci, events in enumerate(holder['evs']):
            for e in events:
                if e[0] == 'S':
                    stack.append((ci, e))
                else:
                    exp_blocks.append(stack.pop())
        exp_blocks.sort(key=lambda x: (x[0], x[1][1]))
        if val.v != 0:
            viol(I, True, 'written-tags-not-paired', 'balanced written tags, but the comments were rejected')
            continue
        blocks = list(val.f[0].items)
        if len(blocks) != len(exp_blocks):
            viol(I, True, 'wrong-number-of-blocks', '%d blocks from %d written tag pairs' % (len(blocks), len(exp_blocks)))
            continue
        for bi, (b, (ci, e)) in enumerate(zip(blocks, exp_blocks)):
            attrs = get_field(prog, b, 'Block', 'attributes')
            ents = [(x.f[0].b, x.f[1].b) for x in attrs.entries]
            attr_obligations(I, viol, ents, e[3], 'block %d' % bi)
        out['cover']['pipeline'] = out['cover'].get('pipeline', 0) + 1
        if want_sample and not out['samples']:
            m = I.ensure_model()
            out['samples'].append(dict(items=repr(comments_items), pipeline=True,
                                       texts=[model_bytes(m, t).decode('latin1') for t in holder['texts']]))
    out.update(Agg(PROP, 'x').stats_from(stats))
    return out


def run_task(task):
    items, want_sample = task
    prog = driver.load_program()
    stats = PathStats()
    f_next = prog.find_method('WinnowBlockTagParser', 'next', trait='BlockTagParser')
    if f_next is None:
        raise EngineError('WinnowBlockTagParser::next not in the MIR dump')
    out = dict(violations=[], samples=[], obligations=0, cover={}, panic_paths=0)
    holder = {}
    roles = set()

    def run_path(I):
        # the text handed to the tag parser is a comment with its delimiter blanked: it always starts
        # with at least one blank byte (`#`), so a tag never sits at byte 0 of a one-tag text
        text, events, decoys, syms = build(I, (('T', ' '),) + tuple(items))
        holder.update(text=text, events=events, decoys=decoys, syms=syms)
        src = SStr(text, alloc=I.new_alloc() if hasattr(I, 'new_alloc') else 7001)
        parser = Cell(mk_struct(prog, 'WinnowBlockTagParser', source=src, cursor=0))
        got = []
        for _ in range(len(events) + len(decoys) + 3):
            r = I.call_fn(f_next, [Ref(parser, ())])
            if r.v != 0:
                got.append(('Err', r))
                break
            o = r.f[0]
            if o.v == 0:         # None
                break
            got.append(('ev', o.f[0]))
        else:
            got.append(('toomany', None))
        return got

    def viol(I, cond, role, summary):
        out['obligations'] += 1
        if role in roles:
            return
        if isinstance(cond, bool):
            cond = z3.BoolVal(cond)
        if I.check(cond):
            roles.add(role)
            m = I.solver.model()
            out['violations'].append(dict(role=role, summary=summary, items=repr(items),
                                          text=model_bytes(m, holder['text']).decode('latin1')))

    def decoy_at(off):
        for (a, b, k) in holder['decoys']:
            if a <= off < b:
                return k
        return None

    for I, pk, val in explore(prog, models.M, run_path, stats=stats, max_paths=60000):
        if pk == 'panic':
            out['panic_paths'] += 1
            viol(I, True, 'panic', 'panic: %s' % val.msg[:120])
            continue
        events = holder['events']
        got = val
        ok_shape = True
        for i in range(max(len(got), len(events))):
            if i >= len(got):
                e = events[i]
                viol(I, True, 'start-tag-not-recognised' if e[0] == 'S' else 'end-tag-not-recognised',
                     '%s tag at byte %d not reported' % ('start' if e[0] == 'S' else 'end', e[1]))
                ok_shape = False
                break
            kind, ev = got[i]
            if kind != 'ev':
                viol(I, True, 'scanner-error', 'next() returned %s' % kind)
                ok_shape = False
                break
            is_start = (ev.vname == 'Start')
            if is_start:
                rng = get_field(prog, ev, 'BlockTag::Start', 'tag_range') if False else ev.f[0]
                a = I.concretize(rng.f[0])
                b = I.concretize(rng.f[1])
            else:
                a = I.concretize(ev.f[0])
                b = None
            if i >= len(events) or events[i][1] != a or (events[i][0] == 'S') != is_start:
                dk = decoy_at(a)
                if dk:
                    viol(I, True, 'look-alike-taken-for-tag', 'look-alike %s at byte %d reported as a %s tag'
                         % (dk, a, 'start' if is_start else 'end'))
                elif i < len(events) and events[i][1] < a:
                    e = events[i]
                    viol(I, True, 'start-tag-not-recognised' if e[0] == 'S' else 'end-tag-not-recognised',
                         '%s tag at byte %d skipped (next event at %d)' % ('start' if e[0] == 'S' else 'end', e[1], a))
                else:
                    viol(I, True, 'unexpected-tag', 'a %s tag reported at byte %d where the text has none'
                         % ('start' if is_start else 'end', a))
                ok_shape = False
                break
            e = events[i]
            if is_start:
                if b != e[2]:
                    viol(I, True, 'tag-range-wrong', 'start tag at %d: range ends at %d, written tag ends at %d' % (a, b, e[2]))
                amap = ev.f[1]
                ents = [(x.f[0].b, x.f[1].b) for x in amap.entries]
                exp = e[3]
                attr_obligations(I, viol, ents, exp, 'tag at %d' % a)
                out['cover']['start tag'] = out['cover'].get('start tag', 0) + 1
                if len(exp) >= 2:
                    out['cover']['two or more attributes'] = 1
                if any(len(x[0]) == len(y[0]) for x, y in itertools.combinations(exp, 2)):
                    out['cover']['possible duplicate names'] = 1
            else:
                out['cover']['end tag'] = out['cover'].get('end tag', 0) + 1
        if ok_shape and holder['decoys']:
            out['cover']['look-alike ignored'] = out['cover'].get('look-alike ignored', 0) + 1
        if ok_shape and want_sample and len(out['samples']) < 2:
            m = I.ensure_model()
            out['samples'].append(dict(items=repr(items), text=model_bytes(m, holder['text']).decode('latin1')))
    out.update(Agg(PROP, 'x').stats_from(stats))
    return out


# ------------------------------------------------------------------ reference on concrete text + replay


def ref_scan(text):
    """Independent recogniser written from the property's wording (bytes in, events out):
    [('S', off, end, {name: value}) | ('E', off, end)]."""
    s = text.decode('utf-8')
    ws = ' \t\r\n'

    def skip_ws(i):
        while i < len(s) and s[i] in ws:
            i += 1
        return i

    def name_at(i):
        j = i
        while j < len(s) and (s[j].isalnum() or s[j] in '-_'):
            j += 1
        return j

    def start_at(i):
        if not s.startswith('<block', i):
            return None
        i += 6
        attrs = {}
        while True:
            j = skip_ws(i)
            if j < len(s) and s[j] == '>':
                return j + 1, attrs
            if j == i:
                return None
            k = name_at(j)
            if k == j:
                return None
            nm = s[j:k]
            val = ''
            e = skip_ws(k)
            i = k
            if e < len(s) and s[e] == '=':
                e = skip_ws(e + 1)
                if e < len(s) and s[e] in '"\'':
                    c = s.find(s[e], e + 1)
                    if c >= 0:
                        val = s[e + 1:c]
                        i = c + 1
                elif e < len(s):
                    c = name_at(e)
                    if c > e:
                        val = s[e:c]
                        i = c
            attrs[nm] = val

    def end_at(i):
        j = skip_ws(i + 1)
        if not s.startswith('/', j):
            return None
        j = skip_ws(j + 1)
        if not s.startswith('block', j):
            return None
        j = skip_ws(j + 5)
        if not s.startswith('>', j):
            return None
        return j + 1

    out = []
    i = 0
    bo = lambda k: len(s[:k].encode('utf-8'))
    while True:
        i = s.find('<', i)
        if i < 0:
            return out
        r = start_at(i)
        if r:
            out.append(('S', bo(i), bo(r[0]), r[1]))
            i = r[0]
            continue
        r = end_at(i)
        if r:
            out.append(('E', bo(i), bo(r)))
            i = r
            continue
        i += 1


def expected_list(texts):
    """A .js file with one /* */ comment per text (balancing tags added in comments of their own)
    and the (line, column, attributes) list the property demands for it."""
    if isinstance(texts, bytes):
        texts = [texts]
    evs_per = [ref_scan(t) for t in texts]
    depth = low = 0
    for evs in evs_per:
        for e in evs:
            depth += 1 if e[0] == 'S' else -1
            low = min(low, depth)
    npre = -low
    src = b''.join(b'/* <block name="pre%d"> */\n' % i for i in range(npre))
    bases = []
    for i, t in enumerate(texts):
        bases.append(len(src) + 2)
        if b'\n' not in t and b'\r' not in t:
            # a line comment ends exactly where the text ends (a block comment's `*/` would pad it with blanks)
            src += b'//' + t + b'\ncode%d();\n' % i
        else:
            src += b'/*' + t + b'*/\ncode%d();\n' % i
    src += b''.join(b'/* </block> */\n' for _ in range(depth - low))
    stack = [('pre', i) for i in range(npre)]
    blocks = []
    for base, evs in zip(bases, evs_per):
        for e in evs:
            if e[0] == 'S':
                stack.append((base, e))
            else:
                blocks.append(stack.pop())
    blocks.extend(stack)
    out = []
    for b in blocks:
        if b[0] == 'pre':
            out.append((b[1] + 1, 4, {'name': 'pre%d' % b[1]}))
            continue
        off = b[0] + b[1][1]
        line = src.count(b'\n', 0, off) + 1
        col = off - (src.rfind(b'\n', 0, off) + 1) + 1
        out.append((line, col, b[1][3]))
    return src, sorted(out, key=lambda x: (x[0], x[1]))


def observe(binary, src):
    d = scratch_dir('c05')
    try:
        git_init(d)
        with open(os.path.join(d, 't.js'), 'wb') as f:
            f.write(src)
        r = run_blockwatch(binary, d, ['list', '**'], stdin=b'')
    finally:
        shutil.rmtree(d, ignore_errors=True)
    if r['code'] != 0:
        return dict(error=r['stderr'][-200:])
    try:
        js = json.loads(r['stdout']) if r['stdout'].strip() else {}
    except ValueError:
        return dict(error='bad json')
    return dict(blocks=sorted(((b['line'], b['column'], b['attributes']) for b in js.get('t.js', [])), key=lambda x: (x[0], x[1])))


def confirm(binary, v, idx):
    v['confirmed'] = False
    texts = [t.encode('latin1')[2:-2] for t in v['texts']] if v.get('pipeline') else [v['text'].encode('latin1')]
    try:
        src, want = expected_list(texts)
    except UnicodeDecodeError:
        return v
    obs = observe(binary, src)
    v['observed'] = obs
    v['expected'] = want
    if obs.get('blocks') != [(l, c, a) for l, c, a in want]:
        v['confirmed'] = True
        v['replay'] = save_replay(PROP, '%s-%d' % (v['role'], idx), {'t.js': src}, "list '**'",
                                  'expected (line, column, attributes) %s; %s' % (want, v['summary']), v)
    return v


# ------------------------------------------------------------------ task families

def A(pre=1, name='n', kind='bare', wa=0, wb=0, val=''):
    return (pre, name, kind, wa, wb, val)


def tasks_for(tier, rnd):
    T = []
    kinds = ['bare', 'unq', 'dq', 'sq']
    vals = {'bare': '', 'unq': 'n', 'dq': 'vv', 'sq': 'vv'}
    # one attribute: every style × whitespace around '=' × closing whitespace, noise before/after
    for k in kinds:
        for wa, wb in ((0, 0), (1, 0), (0, 1), (1, 1)) if k != 'bare' else ((0, 0),):
            for cw in (0, 1):
                T.append((('N', 1), ('S', (A(1, 'nn', k, wa, wb, vals[k]),), cw), ('N', 1)))
    # no attribute at all, tight and with whitespace
    T.append((('S', (), 0),))
    T.append((('N', 2), ('S', (), 2), ('E', 0, 0, 0)))
    # two attributes: style pairs, same-length names (duplicates possible), layout
    for k1, k2 in itertools.product(kinds, repeat=2):
        T.append((('S', (A(1, 'n', k1, 0, 0, vals[k1]), A(1, 'n', k2, 0, 0, vals[k2])), 0),))
        T.append((('S', (A(2, 'a', k1, 1, 1, vals[k1]), A(1, 'an', k2, 0, 1, vals[k2])), 1), ('N', 2)))
    # quoted values carrying the characters the grammar could trip over, followed by another attribute
    for q, kind in ((34, 'dq'), (39, 'sq')):
        for special in ('>', '<', '=', "'" if q == 34 else '"', ' ', '/>', "> b='" if q == 34 else '> b="', '</block>'):
            T.append((('S', (A(1, 'a', kind, 0, 0, special + 'v'), A(1, 'n', 'bare')), 0), ('E', 0, 0, 0)))
        T.append((('S', (A(1, 'a', kind, 0, 0, 'vvvv'),), 0),))
        T.append((('S', (A(1, 'a', kind, 0, 0, ''),), 0),))
    # non-ASCII names and values
    for nm in ('é', 'aж', '名n', 'ñ7'):
        T.append((('S', (A(1, nm, 'dq', 0, 0, 'vü€v'), A(1, 'n', 'unq', 0, 0, 'éa')), 0),))
        T.append((('T', 'π '), ('S', (A(1, nm, 'bare'),), 0), ('T', ' ✓')))
    # three attributes with duplicates possible, the last one wins
    for ks in (('dq', 'unq', 'sq'), ('bare', 'dq', 'bare'), ('unq', 'unq', 'unq'), ('sq', 'bare', 'dq')):
        T.append((('S', tuple(A(1, 'n', k, 0, 0, vals[k] if (k != 'unq' or tier == 'thorough') else 'a') for k in ks), 0),))
    # end tags with inner whitespace
    for w in itertools.product((0, 1, 2), repeat=3):
        if sum(w) <= 3:
            T.append((('N', 1), ('E',) + w, ('N', 1)))
    # a tag as the very last bytes of the text, directly after another tag (nothing left after it)
    T.append((('E', 0, 0, 0), ('S', (), 0)))
    T.append((('S', (A(1, 'n', 'bare'),), 0), ('S', (), 0)))
    T.append((('N', 1), ('S', (), 0), ('E', 0, 0, 0)))
    T.append((('S', (), 0), ('E', 0, 0, 0), ('E', 0, 0, 0)))
    # sequences: tags back to back, decoys right before / after a tag
    T.append((('S', (A(1, 'n', 'dq', 0, 0, 'v'),), 0), ('S', (A(1, 'n', 'bare'),), 0), ('E', 0, 1, 0), ('E', 1, 0, 0)))
    T.append((('T', '<b>'), ('S', (A(1, 'nn', 'unq', 0, 0, 'nn'),), 0), ('T', '</b>'), ('E', 0, 0, 0)))
    nz = (3, 3, 2) if tier == 'thorough' else (2, 2, 1)
    T.append((('N', nz[0]), ('S', (A(1, 'a', 'sq', 0, 0, 'v'),), 0), ('N', nz[1]), ('E', 0, 0, 1), ('N', nz[2])))
    # look-alike families
    for tail in (0, 1, 3):
        T.append((('L1', tail),))
        T.append((('N', 1), ('L1', tail), ('S', (A(1, 'n', 'bare'),), 0)))
        T.append((('L6', tail), ('E', 0, 0, 0)))
    for pos in range(5):
        T.append((('L2', pos, b'>'),))
        T.append((('L2', pos, b' name="x">'), ('S', (), 0)))
    for rest in (b'>', b' a="1">', b' a>'):
        T.append((('L3', rest),))
        T.append((('S', (A(1, 'n', 'bare'),), 0), ('L3', rest), ('E', 0, 0, 0)))
    for q in (34, 39):
        for n in (0, 2, 4):
            T.append((('L4', q, n),))
            T.append((('S', (A(1, 'n', 'unq', 0, 0, 'a'),), 0), ('E', 0, 0, 0), ('N', 1), ('L4', q, n)))
    T.append((('T', '<blockquote>'), ('T', '<block/>'), ('T', '<Block>'), ('T', '< block>'), ('T', '<block name="x>'),))
    if tier == 'thorough':
        # up to six attributes; longer symbolic names and values; more layout
        for n in (4, 5, 6):
            for _ in range(6):
                ks = [rnd.choice(kinds) for _ in range(n)]
                T.append((('N', 1), ('S', tuple(A(rnd.choice((1, 2)), rnd.choice(('a', 'n', 'an')), k, rnd.choice((0, 1)), rnd.choice((0, 1)),
                                                 {'bare': '', 'unq': rnd.choice(('a', 'n')), 'dq': rnd.choice(('v', 'vv', '')), 'sq': rnd.choice(('v', 'v>'))}[k])
                                               for k in ks), rnd.choice((0, 1))), ('E', 0, 0, 0)))
        for k1, k2, k3 in itertools.product(kinds, repeat=3):
            T.append((('S', (A(1, 'n', k1, 0, 0, vals[k1]), A(1, 'n', k2, 1, 0, vals[k2]), A(2, 'n', k3, 0, 1, vals[k3])), 0),))
        for k in kinds:
            T.append((('S', (A(1, 'nnn', k, 0, 0, {'bare': '', 'unq': 'nnn', 'dq': 'vvvvv', 'sq': 'vvvvv'}[k]),), 0),))
        for w in itertools.product((0, 1, 2, 3), repeat=3):
            if 3 < sum(w) <= 5:
                T.append((('E',) + w,))
        for tail in (2, 4):
            T.append((('N', 2), ('L1', tail), ('N', 2)))
    return T


def pipeline_tasks(tier):
    """Comments (one item list each) through the block pairing: the grammar's output reaches Block.attributes."""
    P = []
    S1 = ('S', (A(1, 'n', 'dq', 0, 0, 'v'),), 0)
    for w in ((0, 0, 0), (1, 0, 0), (0, 1, 0), (0, 0, 1), (1, 1, 1)):
        P.append(((S1,), (('E',) + w,)))                       # end tag alone in its comment
        P.append(((S1, ('N', 1)), (('N', 1), ('E',) + w, ('N', 1))))
    for k in ('bare', 'unq', 'dq', 'sq'):
        v = {'bare': '', 'unq': 'n' if tier == 'thorough' else 'a', 'dq': 'v>', 'sq': 'v<'}[k]
        P.append(((('S', (A(1, 'n', k, 1, 1, v), A(1, 'n', 'bare')), 1),), (('E', 0, 0, 0),)))
        P.append(((('N', 2 if tier == 'thorough' else 1), ('S', (A(2, 'a', k, 0, 0, v),), 0), ('E', 0, 1, 0), ('S', (A(1, 'n', k, 0, 0, v),), 0)), (('L1', 1),), (('E', 0, 0, 0),)))
    P.append(((('S', (), 0),), (('L3', b'>'),), (('E', 0, 0, 0),)))
    P.append(((('L2', 0, b'>'), ('S', (A(1, 'é', 'dq', 0, 0, 'ü'),), 0)), (('L6', 0), ('E', 1, 0, 1))))
    if tier == 'thorough':
        for w in itertools.product((0, 1, 2), repeat=3):
            if sum(w) in (2, 3, 4):
                P.append(((S1,), (('T', 'x'), ('E',) + w)))
    return P


BOUNDS = {'quick': dict(validate=40), 'thorough': dict(validate=150)}


def main(tier):
    agg = Agg(PROP, tier)
    binary = driver.real_binary()
    rnd = random.Random(seed())
    tasks = tasks_for(tier, rnd)
    results = pmap(run_task, [(t, True) for t in tasks], chunksize=2)
    ptasks = pipeline_tasks(tier)
    results += pmap(run_pipeline, [(t, True) for t in ptasks])
    for r in results:
        agg.add(r)
    by_role = {}
    for v in agg.violations:
        by_role.setdefault(v['role'], []).append(v)
    final = []
    for role, vs in sorted(by_role.items()):
        got = None
        for i, v in enumerate(vs[:6]):
            confirm(binary, v, i)
            if v['confirmed']:
                got = v
                break
        final.append(got or vs[0])
    agg.violations = final
    samples = [s for r in results for s in r.get('samples', [])]
    rnd.shuffle(samples)
    for s in samples[:BOUNDS[tier]['validate']]:
        text = [t.encode('latin1')[2:-2] for t in s['texts']] if s.get('pipeline') else [s['text'].encode('latin1')]
        src, want = expected_list(text)
        obs = observe(binary, src)
        if obs.get('blocks') == [(l, c, a) for l, c, a in want]:
            agg.validated += 1
        else:
            msg = 'real %s vs reference %s on %r' % (obs, want, text)
            agg.validation_failures.append(msg)
            agg.engine_errors.append({'engine_error': 'translator validation: ' + msg})
    bounds = dict(tasks=len(tasks), pipeline_tasks=len(ptasks), attributes_per_tag='0..3 (quick), 0..6 (thorough)',
                  symbolic_bytes='names 1-3 bytes over [aZ7-_] / [bQ3] plus literal non-ASCII letters; quoted values 0-5 bytes over [ ><=/"\'a-_.] minus the enclosing quote plus literal non-ASCII; whitespace runs 0-3 bytes over space, tab, LF, CR; noise 0-3 bytes over [<b/ >x"=LF]',
                  tags_per_text='1..4', look_alike_families=['<block + non-space non-> byte', 'one letter of block replaced (case, other)', 'byte between < and block', 'quote never closed in the comment', '</block + non-space non-> byte'])
    return finish(
        agg, bounds,
        assumptions=['the generic winnow 0.7 combinators (literal, take_while, take_till, multispace0/1, tuple sequence, delimited, preceded, opt, alt, repeat+fold, map, void, parse_next, parse_peek) are models with their documented semantics on complete &str input; which of them the grammar uses, with which literals, ranges and predicates, is the crate\'s MIR',
                     'char::is_alphanumeric on non-ASCII literals is Python\'s str.isalnum',
                     'the position of a tag in the file (line, column) and what tree-sitter hands over as comment text are decided in C03/C04',
                     'noise is at most 3 symbolic bytes per gap (too short to spell a tag by itself); an unclosed-quote look-alike is the last item of its comment and the bytes after it contain neither that quote nor "<"'],
        stubs=['winnow combinators (models)', 'hashbrown HashMap (association list with symbolic key equality)'],
        must_cover=['start tag', 'end tag', 'two or more attributes', 'possible duplicate names', 'look-alike ignored', 'pipeline'],
        explanation='every event returned by WinnowBlockTagParser::next compared with the attribute AST the text was printed from; PC∧(reported≠written) asked per attribute, value, key and tag range on every path')


if __name__ == '__main__':
    sys.exit(main(sys.argv[1] if len(sys.argv) > 1 else 'quick'))
