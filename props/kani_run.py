"""Second engine (thorough tier): Kani/CBMC over the real compiled code for the leaf integer logic
that mirsym models by a transcription (slice::binary_search_by).  A Kani failure while mirsym holds
is reported as an engine disagreement (exit 2), never as a property verdict."""
import os
import re
import shutil
import subprocess
import time

from mirsym import driver


def run_kani(harnesses, timeout=1500):
    scratch = os.path.join(driver.SCRATCH_BASE, 'bwverif.kani.%d' % os.getpid())
    shutil.rmtree(scratch, ignore_errors=True)
    out = {}
    try:
        driver._copy_tree(driver.REPO, scratch)
        hp = os.path.join(driver.VERIF, 'kani', 'blocks_kani.rs')
        with open(os.path.join(scratch, 'src', 'blocks.rs'), 'a') as f:
            f.write('\n#[cfg(kani)]\n#[path = "%s"]\nmod verif_kani;\n' % hp)
        env = dict(driver.ENV)
        env['CARGO_TARGET_DIR'] = os.path.join(driver.CACHE, 'target-kani')
        for h in harnesses:
            t0 = time.time()
            try:
                p = subprocess.run(['cargo', 'kani', '--harness', h], cwd=scratch, env=env, stdout=subprocess.PIPE,
                                   stderr=subprocess.STDOUT, text=True, timeout=timeout)
                txt = p.stdout
                if 'VERIFICATION:- SUCCESSFUL' in txt:
                    st = 'SUCCESSFUL'
                elif 'VERIFICATION:- FAILED' in txt:
                    st = 'FAILED'
                else:
                    st = 'ERROR'
                m = re.search(r'\*\* (\d+) of (\d+) failed', txt)
                out[h] = dict(status=st, checks=int(m.group(2)) if m else None, failed=int(m.group(1)) if m else None,
                              wall_s=round(time.time() - t0, 1), tail=txt[-600:] if st != 'SUCCESSFUL' else '')
            except subprocess.TimeoutExpired:
                subprocess.run(['pkill', '-9', 'cbmc'])
                out[h] = dict(status='TIMEOUT', wall_s=round(time.time() - t0, 1))
    finally:
        shutil.rmtree(scratch, ignore_errors=True)
    return out
