"""Generic harness for the three key-based validators (keep-sorted C06, keep-unique C07,
line-pattern C08): verdict, first offender and range, for trimmed-line keys and for the two
regex key forms (named group `value`, whole match).

Lines are built in a normal form whose *structure* is concrete and whose bytes are symbolic:
  trim  : lead blanks, key (first/last byte non-blank), trail blanks
  group : lead bytes over {x,space}, 'k=', key over the key alphabet, trail over {;,space}
          with pattern  k=(?P<value>[KEY]+)   (key alphabet never contains x, k, =, ;)
  plain : lead over {x,space}, key, trail over {x,space}  with pattern [KEY]+
so the reference key of every line sits at a known position while its bytes (and all
surrounding bytes) range over their alphabets under the solver.
"""
import itertools
import json
import random
import re
import sys

import z3

from .common import *  # noqa
from .vharness import *  # noqa
from .layout import *  # noqa
from mirsym.interp import explore, PathStats


class Config:
    def __init__(self, prop, validator, code, attrs, mode, rule, key_alphabet, inner_alphabet=None, numeric=False):
        self.prop = prop
        self.validator = validator
        self.code = code
        self.attrs = attrs
        self.mode = mode            # 'trim' | 'group' | 'group-suffix' | 'group-optional' | 'plain'
        self.rule = rule            # 'asc' | 'desc' | 'unique' | ('pattern', name)
        self.key_alphabet = key_alphabet
        self.inner_alphabet = inner_alphabet
        self.numeric = numeric


def make_line(I, cfg, tag, spec):
    """-> (line bytes, key bytes or None, key offset in line)"""
    lead, klen, trail = spec
    if isinstance(lead, (bytes, tuple)) and (cfg.numeric or cfg.mode != 'trim'):
        lead = 1          # literal wide blanks only make sense where the key is found by trimming
    if cfg.numeric:
        bs = [I.fresh_byte('%s_w%d' % (tag, i), WS) for i in range(lead)]
        key = [I.fresh_byte('%s_k%d' % (tag, i), [45, 48, 49, 50, 57] if i == 0 else [48, 49, 50, 57]) for i in range(klen)]
        if klen == 1:
            I.add(key[0] != 45)
        off = len(bs)
        bs += key
        bs += [I.fresh_byte('%s_t%d' % (tag, i), WS) for i in range(trail)]
        return tuple(bs), (tuple(key) if klen else None), off
    if cfg.mode == 'trim':
        bs, key = sym_line(I, tag, spec, cfg.key_alphabet, cfg.inner_alphabet)
        return bs, (key if klen else None), (len(lead) if isinstance(lead, (bytes, tuple)) else lead)
    # group form: the text before `k=` may contain key letters (the key must be located by the
    # regex match, not by searching for its text)
    lead_alpha = [120, 32, 97] if cfg.mode in ('group', 'group-empty') else [120, 32]
    trail_alpha = [59, 32] if cfg.mode in ('group', 'group-empty', 'bare-empty') else [120, 32]
    bs = [I.fresh_byte('%s_w%d' % (tag, i), lead_alpha) for i in range(lead)]
    if cfg.mode == 'group-optional':
        # pattern z(?P<value>[ab]+)? : the group takes part only when letters follow the z; otherwise the
        # key of the line is the whole match
        off = len(bs)
        key = [I.fresh_byte('%s_k%d' % (tag, i), cfg.key_alphabet) for i in range(klen)]
        bs += [122] + key + [I.fresh_byte('%s_t%d' % (tag, i), trail_alpha) for i in range(trail)]
        return tuple(bs), (tuple(key) if klen else (122,)), (off + 1 if klen else off)
    if cfg.mode == 'bare-empty':
        # pattern (?P<value>[ab]*) : every line matches at its very first byte; the key is the run of key
        # letters the line starts with - possibly none (an empty key at offset 0)
        key = [I.fresh_byte('%s_k%d' % (tag, i), cfg.key_alphabet) for i in range(klen)]
        bs = key + [I.fresh_byte('%s_t%d' % (tag, i), trail_alpha) for i in range(trail)]
        return tuple(bs), tuple(key), 0
    if cfg.mode == 'group-empty' and klen == 0:
        # pattern k=(?P<value>[ab]*) : the group takes part and matches nothing - the key is the empty string
        bs += [107, 61]
        off = len(bs)
        bs += [I.fresh_byte('%s_t%d' % (tag, i), trail_alpha) for i in range(trail)]
        return tuple(bs), (), off
    if klen == 0:
        bs += [I.fresh_byte('%s_t%d' % (tag, i), trail_alpha) for i in range(trail)]
        return tuple(bs), None, 0
    if cfg.mode in ('group', 'group-empty'):
        bs += [107, 61]
    off = len(bs)
    key = [I.fresh_byte('%s_k%d' % (tag, i), cfg.key_alphabet) for i in range(klen)]
    bs += key
    if cfg.mode == 'group-suffix':
        # the match goes on after the group with text that varies from line to line: `KEY=c` / `KEY=d`
        bs += [61, I.fresh_byte('%s_s' % tag, [99, 100])]
    bs += [I.fresh_byte('%s_t%d' % (tag, i), trail_alpha) for i in range(trail)]
    return tuple(bs), tuple(key), off


def num_value(key):
    if len(key) > 1:
        tail = 0
        for b in key[1:]:
            tail = tail * 10 + (b - 48)
        full = 0
        for b in key:
            full = full * 10 + (b - 48)
        return z3.If(key[0] == 45, -tail, full)
    return key[0] - 48


PATTERNS = {
    # name -> (regex text, formula over key bytes saying the trimmed key MATCHES)
    'all-a': (r'^a+$', lambda k: zand([b == 97 for b in k])),
    'has-a': (r'a', lambda k: zor([b == 97 for b in k])),
    'one-ab': (r'^[ab]$', lambda k: z3.BoolVal(False) if len(k) != 1 else z3.Or(k[0] == 97, k[0] == 98)),
    'ends-b': (r'^.*b$', lambda k: k[-1] == 98),
    'empty': (r'^$', lambda k: z3.BoolVal(False)),
    'maybe-a': (r'^a*', lambda k: z3.BoolVal(True)),        # matches the empty string at the start of every line
    'a-then-b': (r'^a*b+$', lambda k: zor([zand([b == 97 for b in k[:i]] + [b == 98 for b in k[i:]]) for i in range(0, len(k))])),
}


def offender_conditions(cfg, keys):
    """keys: list of key byte tuples (non-blank / matching lines, in order).
    Returns ([cond_i that key i is the first to be reported], cond_none)."""
    conds = []
    none_before = []
    for i in range(len(keys)):
        if cfg.rule in ('asc', 'desc'):
            if i == 0:
                bad = z3.BoolVal(False)
            else:
                a, b = keys[i - 1], keys[i]
                if cfg.numeric:
                    va, vb = num_value(a), num_value(b)
                    bad = (vb < va) if cfg.rule == 'asc' else (vb > va)
                else:
                    bad = lex_lt(b, a) if cfg.rule == 'asc' else lex_lt(a, b)
        elif cfg.rule == 'unique':
            bad = zor([lex_eq(keys[j], keys[i]) for j in range(i)])
        else:
            bad = z3.Not(PATTERNS[cfg.rule[1]][1](keys[i]))
        conds.append(zand(none_before + [bad]))
        none_before = none_before + [z3.Not(bad)]
    return conds, zand(none_before)


def run_case(task):
    cfg, lay_spec, line_specs, want_sample = task
    # line_specs is one (spec0, specs, spec_last) triple or a list of them (several blocks in one file)
    block_specs = line_specs if isinstance(line_specs, list) else [line_specs]
    # one configuration for all blocks, or one per block (blocks with different rules in one file)
    cfgs = list(cfg) if isinstance(cfg, (list, tuple)) else [cfg] * len(block_specs)
    cfg = cfgs[0]
    prog = driver.load_program()
    stats = PathStats()
    out = dict(violations=[], samples=[], obligations=0, cover={}, panic_paths=0)
    holder = {}
    roles = set()

    def run_path(I):
        lays = []
        rows_all = []
        base_line, base_off = 1, 0
        src = ()
        for bi, (spec0, specs, spec_last) in enumerate(block_specs):
            rows = []
            bcfg = cfgs[bi]
            t0, k0, o0 = make_line(I, bcfg, 'B%dL0' % bi, spec0)
            rows.append((0, k0, o0))
            lines = []
            for i, sp in enumerate(specs):
                l, k, o = make_line(I, bcfg, 'B%dL%d' % (bi, i + 1), sp)
                lines.append(l)
                rows.append((i + 1, k, o))
            ll, kl, ol = make_line(I, bcfg, 'B%dLZ' % bi, spec_last)
            rows.append((len(specs) + 1, kl, ol))
            lay = Layout(lay_spec[0] if bi == 0 else 0, lay_spec[1], lay_spec[2], lay_spec[3], lay_spec[4], bcfg.attrs,
                         t0, lines, ll, name='blk%d' % bi, base_line=base_line, base_off=base_off, tail=True)
            lays.append(lay)
            rows_all.append(rows)
            src = src + lay.src
            base_line, base_off = lay.end_line, lay.end_off
        holder['lays'] = lays
        holder['rows'] = rows_all
        holder['src'] = src
        res = parse_layout_blocks(I, prog, lays)
        if res.v != 0 or len(res.f[0].items) != len(lays):
            raise EngineError('layout did not parse into %d block(s)' % len(lays))
        bwcs = []
        for bi, b in enumerate(res.f[0].items):
            cm = I.fresh_bool('content_modified%d' % bi)
            tm = I.fresh_bool('tag_modified%d' % bi)
            bwcs.append(mk_bwc(prog, b, content_modified=cm, tag_modified=tm))
        ctx = mk_context(prog, I, [(b'f.js', src, bwcs)])
        return run_validator(I, prog, cfg.validator, ctx)

    def viol(I, cond, role, summary):
        out['obligations'] += 1
        if role in roles:
            return
        if I.check(cond):
            roles.add(role)
            m = I.solver.model()
            out['violations'].append(dict(role=role, summary=summary, cfg=' | '.join(c.attrs for c in cfgs) if len(set(cfgs)) > 1 else cfg.attrs, code=cfg.code,
                                          src=model_bytes(m, holder['src']).decode('latin1')))

    for I, pk, val in explore(prog, models.M, run_path, stats=stats, max_paths=100000):
        if pk == 'panic':
            out['panic_paths'] += 1
            viol(I, z3.BoolVal(True), 'panic', 'panic: %s' % val.msg[:120])
            continue
        lays = holder['lays']
        stt, res = decode_violations(prog, val)
        if stt == 'err':
            viol(I, z3.BoolVal(True), 'unexpected-error', 'validator returned Err on a well-formed rule')
            continue
        vs = res.get(b'f.js', [])
        if [p for p in res if p != b'f.js']:
            viol(I, z3.BoolVal(True), 'foreign-file-key', 'violations filed under another file')
        reported = [(v['start'], v['end']) for v in vs]
        for v0 in vs:
            if bytes(v0['code']) != cfg.code.encode():
                viol(I, z3.BoolVal(True), 'wrong-code', 'code %r' % bytes(v0['code']))
        justified = {i: [] for i in range(len(reported))}
        for bi, lay in enumerate(lays):
            pos = []
            for idx, k, off in holder['rows'][bi]:
                if k is None:
                    continue
                ln, col, _bs = lay.content_lines[idx]
                pos.append(((ln, col + off), (ln, col + off + len(k) - 1), k))
            conds, none = offender_conditions(cfgs[bi], [p[2] for p in pos])
            first_line, last_line = lay.content_lines[0][0], lay.content_lines[-1][0]
            mine = [r for r in reported if first_line <= r[0][0] <= last_line]
            if len(mine) > 1:
                viol(I, z3.BoolVal(True), 'more-than-one-violation', 'more than one violation for one block')
            if not mine:
                viol(I, z3.Not(none), 'offending-block-passes', 'an offending key exists in block %d but nothing is reported for it' % bi)
            for i, c in enumerate(conds):
                want = (pos[i][0], pos[i][1])
                if want in reported:
                    justified[reported.index(want)].append(c)
                else:
                    viol(I, c, 'not-the-first-offender' if mine else 'offending-block-passes',
                         'first offending key of block %d at %s, reported %s' % (bi, want, mine))
        for ri, cs in justified.items():
            viol(I, z3.Not(zor(cs)), 'conforming-block-reported',
                 'violation at %s reported although no key offends there' % (reported[ri],))
        out['cover']['reported' if reported else 'clean'] = out['cover'].get('reported' if reported else 'clean', 0) + 1
        if len(reported) >= 2:
            out['cover']['two violating blocks in one file'] = 1
        out['cover']['mode:' + cfg.mode] = 1
        if len(set(cfgs)) > 1:
            out['cover']['blocks with different rules in one file'] = 1
        out['cover']['rule:' + (cfg.rule if isinstance(cfg.rule, str) else cfg.rule[1])] = 1
        if cfg.numeric:
            out['cover']['numeric'] = 1
        if want_sample and len(out['samples']) < 1:
            m = I.ensure_model()
            out['samples'].append(dict(src=model_bytes(m, holder['src']).decode('latin1'), code=cfg.code,
                                       reported=sorted(reported)))
    out.update(Agg(cfg.prop, 'x').stats_from(stats))
    return out


# ------------------------------------------------------------------ replay / reference

def observe(binary, src, code):
    r = run_scan(binary, {'f.js': src}, ['f.js'])
    out = dict(code=r['code'], stderr=r['stderr'][-300:])
    if r['diags'] is not None:
        ds = [x for x in r['diags'].get('f.js', []) if x.get('code') == code]
        out['diags'] = [((x['range']['start']['line'], x['range']['start']['character']),
                         (x['range']['end']['line'], x['range']['end']['character'])) for x in ds]
    elif r['code'] == 0:
        out['diags'] = []
    return out


RUST_WS = ' \t\x0b\x0c\r'      # char::is_whitespace below U+0080 (line breaks aside)
WIDE_WS = ['\xe3\x80\x80', '\xc2\xa0', '\xe2\x80\x83']      # U+3000, U+00A0, U+2003 as UTF-8 bytes (text is handled as latin1)


def rust_trim_span(ln):
    """(a, e): byte offsets of str::trim() within the line (latin1 view of UTF-8 text)."""
    a, e = 0, len(ln)
    moved = True
    while moved and a < e:
        moved = False
        if ln[a] in RUST_WS:
            a += 1
            moved = True
        else:
            for w in WIDE_WS:
                if ln.startswith(w, a):
                    a += len(w)
                    moved = True
    moved = True
    while moved and e > a:
        moved = False
        if ln[e - 1] in RUST_WS:
            e -= 1
            moved = True
        else:
            for w in WIDE_WS:
                if ln.endswith(w, a, e):
                    e -= len(w)
                    moved = True
    return a, e


def ref_expected(src, code):
    """Independent reference on concrete text (Python re as the regex engine); all blocks of the file."""
    s = src.decode('latin1')
    out = []
    for m in re.finditer(r'<block ([^>]*)>', s):
        out.extend(_ref_block(s, m, code))
    return sorted(out)


def _ref_block(s, m, code):
    attrs = dict((a, b) for a, b in re.findall(r'([\w-]+)="([^"]*)"', m.group(1)))
    for bare in re.findall(r'(?:^|\s)([\w-]+)(?=\s|$)', re.sub(r'[\w-]+="[^"]*"', ' ', m.group(1))):
        attrs.setdefault(bare, '')
    cstart = s.index('*/', m.end()) + 2
    cend = s.index('/* </block>', cstart)

    def pos(o):
        return (s.count('\n', 0, o) + 1, o - (s.rfind('\n', 0, o) + 1) + 1)
    pat = None
    if code == 'keep-sorted':
        pat = attrs.get('keep-sorted-pattern') or None
    elif code == 'keep-unique':
        pat = attrs.get('keep-unique') or None
    keys = []
    off = cstart
    for ln in s[cstart:cend].split('\n'):
        if pat:
            mm = re.search(pat.replace('$', r'\Z'), ln)
            if mm:
                a, e = mm.span('value') if mm.groupdict().get('value') is not None else mm.span()
                keys.append((ln[a:e], off + a, off + e - 1))
        else:
            ta, te = rust_trim_span(ln)
            t = ln[ta:te]
            if t:
                a = off + ta
                keys.append((t, a, a + len(t) - 1))
        off += len(ln) + 1
    desc = attrs.get('keep-sorted', '').strip().lower() == 'desc'
    numeric = attrs.get('keep-sorted-format', '').strip().lower() == 'numeric'
    seen = set()
    for i, (t, a, e) in enumerate(keys):
        if code == 'keep-sorted':
            if i == 0:
                bad = False
            else:
                x, y = keys[i - 1][0], t
                if numeric:
                    x, y = float(x), float(y)
                else:
                    x, y = x.encode('latin1'), y.encode('latin1')
                bad = (y > x) if desc else (y < x)
        elif code == 'keep-unique':
            bad = t in seen
            seen.add(t)
        else:
            bad = re.search(attrs['line-pattern'].replace('$', r'\Z'), t) is None
        if bad:
            return [(pos(a), pos(e))]
    return []


def confirm(prop, binary, v, idx):
    src = v['src'].encode('latin1')
    obs = observe(binary, src, v['code'])
    want = ref_expected(src, v['code'])
    v['observed'] = obs
    v['expected'] = want
    got = obs.get('diags')
    bad = got is None or sorted(tuple(map(tuple, x)) for x in got) != sorted(tuple(map(tuple, x)) for x in want)
    v['confirmed'] = bool(bad)
    if bad:
        v['replay'] = save_replay(prop, '%s-%d' % (v['role'], idx), {'f.js': src}, 'f.js',
                                  'expected %s ranges %s ; %s' % (v['code'], want, v['summary']), v)
    return v


WIDE = '\u3000'.encode('utf-8')      # IDEOGRAPHIC SPACE: whitespace for str::trim, three bytes wide


def gen_tasks(rnd, configs, specs_for, nlines, per_cfg, min_keys=2):
    tasks = []
    for cfg in configs:
        specs = list(specs_for(cfg))
        if cfg.mode == 'trim' and not cfg.numeric:
            specs.append((WIDE, 1, 0))      # a key indented with multi-byte whitespace (byte column != char column)
        combos = []
        for n in range(1, nlines + 1):
            for ls in itertools.product(specs, repeat=n):
                if sum(1 for x in ls if x[1] > 0 or cfg.mode in ('group-empty', 'bare-empty')) < min_keys:
                    continue
                combos.append(ls)
        short = [c for c in combos if len(c) <= 2]
        longer = [c for c in combos if len(c) > 2]
        rnd.shuffle(short)
        rnd.shuffle(longer)
        chosen = (short + longer)[:per_cfg]
        for i, ls in enumerate(chosen):
            lay = (0, 0, 1, 0, 0) if i % 3 else (1, 2, 2, 0, 1)
            s0 = (0, 0, 0) if i % 5 else (1, 1, 0)
            tasks.append((cfg, lay, (s0, ls, (0, 0, 0)), i % 4 == 0))
        # several blocks in one file (each may violate)
        two = [c for c in short if len(c) == 2][:max(2, per_cfg // 12)]
        for i, ls in enumerate(two):
            other = two[(i + 1) % len(two)]
            tasks.append((cfg, (0, 0, 1, 0, 0), [((0, 0, 0), ls, (0, 0, 0)), ((0, 0, 0), other, (0, 0, 0))], i % 2 == 0))
        # ... and with a different rule on the second block (state must not leak from block to block)
        nxt = configs[(configs.index(cfg) + 1) % len(configs)]
        if nxt is not cfg and nxt.numeric == cfg.numeric:
            for i, ls in enumerate(two[:max(2, per_cfg // 25)]):
                tasks.append(([cfg, nxt], (0, 0, 1, 0, 0), [((0, 0, 0), ls, (0, 0, 0)), ((0, 0, 0), ls, (0, 0, 0))], False))
    return tasks


def run_main(prop, tier, configs, specs_for, bounds, assumptions, must_cover, min_keys=2):
    b = bounds[tier]
    agg = Agg(prop, tier)
    binary = driver.real_binary()
    driver.load_program()
    rnd = random.Random(seed())
    tasks = gen_tasks(rnd, configs, specs_for, b['nlines'], b['per_cfg'], min_keys)
    results = pmap(run_case, tasks, chunksize=4)
    for r in results:
        agg.add(r)
    by_role = {}
    for v in agg.violations:
        by_role.setdefault((v['role'], v['cfg']), []).append(v)
    final = []
    for key, vs in sorted(by_role.items()):
        vs.sort(key=lambda v: len(v['src']))
        got = None
        for i, v in enumerate(vs[:6]):
            confirm(prop, binary, v, i)
            if v['confirmed']:
                got = v
                break
        final.append(got or vs[0])
    agg.violations = final
    samples = [s for r in results for s in r.get('samples', [])]
    rnd.shuffle(samples)
    for s in samples[:b['validate']]:
        obs = observe(binary, s['src'].encode('latin1'), s['code'])
        got = None if obs.get('diags') is None else sorted(tuple(map(tuple, x)) for x in obs['diags'])
        want = sorted(tuple(map(tuple, x)) for x in (s['reported'] or []))
        if got == want:
            agg.validated += 1
        else:
            msg = 'mirsym %s vs real %s on %r' % (want, obs, s['src'])
            agg.validation_failures.append(msg)
            agg.engine_errors.append({'engine_error': 'translator validation: ' + msg})
    bd = dict(b)
    bd.update(tasks=len(tasks), configs=[c.attrs for c in configs])
    return finish(
        agg, bd, assumptions=assumptions,
        stubs=['WinnowBlockTagParser::next (reference scanner)', 'serde_json::to_value',
               'regex crate: mirsym/rexmodel.py (reference backtracking matcher, leftmost-first) for the listed patterns'],
        must_cover=must_cover,
        explanation='first-offender conditions as Z3 formulas over the key bytes, compared with the reported verdict and range on every path; lines in a structural normal form with all bytes symbolic')
