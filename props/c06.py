"""C06 — keep-sorted reports a block iff its keys are out of order (no-pattern configurations).

Encoded (real MIR): KeepSortedValidator::validate (+closures), trimmed_line_value,
SortFormat::cmp (+closures), strum-generated SortFormat::from_str, keep_sorted::create_violation,
Block::content / severity / name_display, plus the block-parser glue that builds the Block.
Symbolic: every key byte and blank byte; the is_content_modified / tag-modified flags
(non-interference, C02).  Enumerated: direction and format spellings, per-line shapes.
Oracle: keys = trimmed non-blank lines; violation iff some key is strictly out of order
w.r.t. its predecessor (bytewise, or as integers under numeric), at most one, on the first.
"""
import itertools
import json
import random
import sys

import z3

from .common import *  # noqa
from .vharness import *  # noqa
from .layout import *  # noqa
from . import c10
from mirsym.interp import explore, PathStats

PROP = 'C06'
KEY_ALPHABET = [ord(c) for c in 'abB1']
NUM_FIRST = [ord(c) for c in '-0129']
NUM_REST = [ord(c) for c in '0129']

CONFIGS = [
    # (attrs text, direction, numeric)
    (' keep-sorted', 'asc', False),
    (' keep-sorted="asc"', 'asc', False),
    (' keep-sorted="ASC"', 'asc', False),
    (' keep-sorted="desc"', 'desc', False),
    (' keep-sorted="Desc"', 'desc', False),
    (' keep-sorted keep-sorted-format="numeric"', 'asc', True),
    (' keep-sorted="desc" keep-sorted-format="NUMERIC"', 'desc', True),
    (' keep-sorted="asc" keep-sorted-format=" lexicographic "', 'asc', False),
]


def sym_num_line(I, tag, spec):
    lead, klen, trail = spec
    bs = [I.fresh_byte('%s_w%d' % (tag, i), WS) for i in range(lead)]
    key = []
    for i in range(klen):
        key.append(I.fresh_byte('%s_k%d' % (tag, i), NUM_FIRST if i == 0 else NUM_REST))
    if klen == 1:
        I.add(key[0] != 45)           # a lone '-' is not a number (that case is C13's)
    bs.extend(key)
    bs.extend(I.fresh_byte('%s_t%d' % (tag, i), WS) for i in range(trail))
    return tuple(bs), tuple(key)


def num_value(key):
    digs = key
    neg = None
    if len(key) > 1:
        neg = key[0] == 45
        tail = 0
        for b in key[1:]:
            tail = tail * 10 + (b - 48)
        full = 0
        for b in key:
            full = full * 10 + (b - 48)
        return z3.If(neg, -tail, full)
    return key[0] - 48


def run_case(task):
    cfg_i, lay_spec, line_specs, want_sample = task
    attrs, direction, numeric = CONFIGS[cfg_i]
    prog = driver.load_program()
    stats = PathStats()
    out = dict(violations=[], samples=[], obligations=0, cover={}, panic_paths=0)
    holder = {}
    roles = set()

    def run_path(I):
        spec0, specs, spec_last = line_specs
        mk = (lambda tag, sp: sym_num_line(I, tag, sp)) if numeric else \
             (lambda tag, sp: sym_line(I, tag, sp, KEY_ALPHABET, KEY_ALPHABET + [32]))
        t0, k0 = mk('L0', spec0)
        keys = [(0, spec0, k0)]
        lines = []
        for i, sp in enumerate(specs):
            l, k = mk('L%d' % (i + 1), sp)
            lines.append(l)
            keys.append((i + 1, sp, k))
        ll, kl = mk('LZ', spec_last)
        keys.append((len(specs) + 1, spec_last, kl))
        lay = Layout(lay_spec[0], lay_spec[1], lay_spec[2], lay_spec[3], lay_spec[4], attrs, t0, lines, ll)
        holder['lay'] = lay
        holder['keys'] = keys
        res = parse_layout_blocks(I, prog, lay)
        if res.v != 0 or len(res.f[0].items) != 1:
            raise EngineError('layout did not parse into one block')
        cm = I.fresh_bool('content_modified')
        tm = I.fresh_bool('tag_modified')
        bwc = mk_bwc(prog, res.f[0].items[0], content_modified=cm, tag_modified=tm)
        ctx = mk_context(prog, I, [(b'f.js', lay.src, [bwc])])
        return run_validator(I, prog, 'KeepSortedValidator', ctx)

    def viol(I, cond, role, summary):
        out['obligations'] += 1
        if role in roles:
            return
        if I.check(cond):
            roles.add(role)
            m = I.solver.model()
            out['violations'].append(dict(role=role, summary=summary, cfg=attrs,
                                          src=model_bytes(m, holder['lay'].src).decode('latin1')))

    for I, pk, val in explore(prog, models.M, run_path, stats=stats, max_paths=100000):
        if pk == 'panic':
            out['panic_paths'] += 1
            viol(I, z3.BoolVal(True), 'panic', 'panic: %s' % val.msg[:120])
            continue
        lay = holder['lay']
        stt, res = decode_violations(prog, val)
        if stt == 'err':
            viol(I, z3.BoolVal(True), 'unexpected-error', 'validator returned Err on a well-formed rule')
            continue
        pos = c10.key_positions(lay, holder['keys'])
        conds = []
        none_before = []
        for i in range(len(pos)):
            if i == 0:
                bad = z3.BoolVal(False)
            else:
                a, b = pos[i - 1][3], pos[i][3]
                if numeric:
                    va, vb = num_value(a), num_value(b)
                    bad = (vb < va) if direction == 'asc' else (vb > va)
                else:
                    bad = lex_lt(b, a) if direction == 'asc' else lex_lt(a, b)
            conds.append(zand(none_before + [bad]))
            none_before = none_before + [z3.Not(bad)]
        none = zand(none_before)
        vs = res.get(b'f.js', [])
        if len(vs) > 1 or [p for p in res if p != b'f.js']:
            viol(I, z3.BoolVal(True), 'more-than-one-violation', 'more than one violation for one block')
        if not vs:
            viol(I, z3.Not(none), 'unsorted-block-passes', 'a key is out of order but nothing is reported')
            out['cover']['clean'] = out['cover'].get('clean', 0) + 1
        else:
            v0 = vs[0]
            viol(I, none, 'sorted-block-reported', 'all keys are in order (equal neighbours allowed) but a violation is reported')
            rep = (v0['start'], v0['end'])
            for i, c in enumerate(conds):
                want = ((pos[i][0], pos[i][1]), (pos[i][0], pos[i][2]))
                if want != rep:
                    viol(I, c, 'not-the-first-offender', 'first out-of-order key at %s, reported %s' % (want, rep))
            if bytes(v0['code']) != b'keep-sorted':
                viol(I, z3.BoolVal(True), 'wrong-code', 'code %r' % bytes(v0['code']))
            out['cover']['reported'] = out['cover'].get('reported', 0) + 1
        out['cover']['numeric' if numeric else 'lexicographic'] = 1
        out['cover'][direction] = 1
        if want_sample and len(out['samples']) < 1:
            m = I.ensure_model()
            out['samples'].append(dict(src=model_bytes(m, lay.src).decode('latin1'),
                                       reported=None if not vs else (vs[0]['start'], vs[0]['end'])))
    out.update(Agg(PROP, 'x').stats_from(stats))
    return out


def observe(binary, src):
    r = run_scan(binary, {'f.js': src}, ['f.js'])
    out = dict(code=r['code'], stderr=r['stderr'][-300:])
    if r['diags'] is not None:
        ds = [x for x in r['diags'].get('f.js', []) if x.get('code') == 'keep-sorted']
        out['diags'] = [((x['range']['start']['line'], x['range']['start']['character']),
                         (x['range']['end']['line'], x['range']['end']['character'])) for x in ds]
    elif r['code'] == 0:
        out['diags'] = []
    return out


def ref_expected(src):
    import re
    s = src.decode('latin1')
    m = re.search(r'<block ([^>]*)>', s)
    attrs = m.group(1)
    desc = re.search(r'keep-sorted="desc"', attrs, re.I) is not None
    numeric = re.search(r'keep-sorted-format="\s*numeric\s*"', attrs, re.I) is not None
    cstart = s.index('*/', m.end()) + 2
    cend = s.index('/* </block>')
    keys = []
    off = cstart

    def pos(o):
        return (s.count('\n', 0, o) + 1, o - (s.rfind('\n', 0, o) + 1) + 1)
    for ln in s[cstart:cend].split('\n'):
        t = ln.strip(' \t')
        if t:
            a = off + (len(ln) - len(ln.lstrip(' \t')))
            keys.append((t, a, a + len(t) - 1))
        off += len(ln) + 1
    for i in range(1, len(keys)):
        a, b = keys[i - 1][0], keys[i][0]
        if numeric:
            a, b = float(a), float(b)
        else:
            a, b = a.encode('latin1'), b.encode('latin1')
        if (b > a) if desc else (b < a):
            return [(pos(keys[i][1]), pos(keys[i][2]))]
    return []


def confirm(binary, v, idx):
    src = v['src'].encode('latin1')
    obs = observe(binary, src)
    want = ref_expected(src)
    v['observed'] = obs
    v['expected'] = want
    got = obs.get('diags')
    bad = got is None or [tuple(map(tuple, x)) for x in got] != [tuple(map(tuple, x)) for x in want]
    v['confirmed'] = bool(bad)
    if bad:
        v['replay'] = save_replay(PROP, '%s-%d' % (v['role'], idx), {'f.js': src}, 'f.js',
                                  'expected keep-sorted ranges %s ; %s' % (want, v['summary']), v)
    return v


SPECS = [(0, 1, 0), (1, 2, 0), (0, 2, 1), (1, 0, 0), (0, 0, 0)]
NUM_SPECS = [(0, 1, 0), (1, 2, 0), (0, 3, 1), (1, 0, 0)]

BOUNDS = {
    'quick': dict(nlines=3, per_cfg=45, validate=30),
    'thorough': dict(nlines=5, per_cfg=700, validate=150),
}


def main(tier):
    b = BOUNDS[tier]
    agg = Agg(PROP, tier)
    binary = driver.real_binary()
    driver.load_program()
    rnd = random.Random(seed())
    tasks = []
    for ci, (attrs, direction, numeric) in enumerate(CONFIGS):
        specs = NUM_SPECS if numeric else SPECS
        combos = []
        for n in range(1, b['nlines'] + 1):
            for ls in itertools.product(specs, repeat=n):
                if sum(1 for x in ls if x[1] > 0) < 2:
                    continue
                combos.append(ls)
        rnd.shuffle(combos)
        combos.sort(key=len)
        short = [c for c in combos if len(c) <= 2]
        longer = [c for c in combos if len(c) > 2]
        rnd.shuffle(longer)
        chosen = (short + longer)[:b['per_cfg']] if len(short) < b['per_cfg'] else short[:b['per_cfg']]
        for i, ls in enumerate(chosen):
            lay = (0, 0, 1, 0, 0) if i % 3 else (1, 2, 2, 0, 1)
            s0 = (0, 0, 0) if i % 5 else ((1, 1, 0) if not numeric else (1, 1, 0))
            tasks.append((ci, lay, (s0, ls, (0, 0, 0)), i % 4 == 0))
    results = pmap(run_case, tasks, chunksize=4)
    for r in results:
        agg.add(r)
    by_role = {}
    for v in agg.violations:
        by_role.setdefault(v['role'], []).append(v)
    final = []
    for role, vs in sorted(by_role.items()):
        vs.sort(key=lambda v: len(v['src']))
        got = None
        for i, v in enumerate(vs[:6]):
            confirm(binary, v, i)
            if v['confirmed']:
                got = v
                break
        final.append(got or vs[0])
    agg.violations = final
    samples = [s for r in results for s in r.get('samples', [])]
    rnd.shuffle(samples)
    for s in samples[:b['validate']]:
        obs = observe(binary, s['src'].encode('latin1'))
        got = None if obs.get('diags') is None else [tuple(map(tuple, x)) for x in obs['diags']]
        want = [] if s['reported'] is None else [tuple(map(tuple, s['reported']))]
        if got == want:
            agg.validated += 1
        else:
            msg = 'mirsym %s vs real %s on %r' % (want, obs, s['src'])
            agg.validation_failures.append(msg)
            agg.engine_errors.append({'engine_error': 'translator validation: ' + msg})
    bounds = dict(b)
    bounds.update(tasks=len(tasks), configs=[c[0] for c in CONFIGS], key_alphabet='abB1 (+inner blanks)',
                  numeric_keys='-?[0129]{1,3}', line_shapes=SPECS)
    return finish(
        agg, bounds,
        assumptions=['keep-sorted-pattern (regex) configurations are outside this check',
                     'numeric keys are integer literals -?[0-9]{1,3} (exactly representable); decimals, exponents, inf/nan are outside',
                     'tree-sitter / tag scanner replaced as in C10; ASCII only',
                     'is_content_modified and _is_start_tag_modified are free booleans: the verdict must not depend on them (C02)'],
        stubs=['WinnowBlockTagParser::next (reference scanner)', 'serde_json::to_value'],
        must_cover=['clean', 'reported', 'numeric', 'lexicographic', 'asc', 'desc'],
        explanation='first-out-of-order conditions as Z3 formulas over the key bytes (bytewise / integer value), compared with the reported verdict and range on every path')


if __name__ == '__main__':
    sys.exit(main(sys.argv[1] if len(sys.argv) > 1 else 'quick'))
