"""C06 — keep-sorted reports a block iff its keys are out of order.

Encoded (real MIR): KeepSortedValidator::validate (+closures), trimmed_line_value, regex_value,
SortFormat::cmp (+closures), strum-generated SortFormat::from_str, keep_sorted::create_violation,
Block::content / severity / name_display, and the block-parser glue that builds the Block.
See props/keycheck.py for the harness; oracle: keys = trimmed non-blank lines / `value` group /
whole match; violation iff some key is strictly out of order w.r.t. its predecessor (bytewise,
or as integers under numeric), exactly one, on the first such key.
"""
import sys
from .keycheck import Config, run_main

PROP = 'C06'
AB = [97, 98, 66, 49]
V, C = 'KeepSortedValidator', 'keep-sorted'
CONFIGS = [
    Config(PROP, V, C, ' keep-sorted', 'trim', 'asc', AB, AB + [32]),
    Config(PROP, V, C, ' keep-sorted="asc"', 'trim', 'asc', AB, AB + [32]),
    Config(PROP, V, C, ' keep-sorted="ASC"', 'trim', 'asc', AB, AB + [32]),
    Config(PROP, V, C, ' keep-sorted="desc"', 'trim', 'desc', AB, AB + [32]),
    Config(PROP, V, C, ' keep-sorted="Desc"', 'trim', 'desc', AB, AB + [32]),
    Config(PROP, V, C, ' keep-sorted keep-sorted-format="numeric"', 'trim', 'asc', None, numeric=True),
    Config(PROP, V, C, ' keep-sorted="desc" keep-sorted-format="NUMERIC"', 'trim', 'desc', None, numeric=True),
    Config(PROP, V, C, ' keep-sorted="asc" keep-sorted-format=" lexicographic "', 'trim', 'asc', AB, AB + [32]),
    Config(PROP, V, C, ' keep-sorted keep-sorted-pattern="k=(?P<value>[ab]+)"', 'group', 'asc', [97, 98]),
    Config(PROP, V, C, ' keep-sorted="desc" keep-sorted-pattern="[ab]+"', 'plain', 'desc', [97, 98]),
    Config(PROP, V, C, ' keep-sorted keep-sorted-pattern="z(?P<value>[ab]+)?"', 'group-optional', 'asc', [97, 98]),
    Config(PROP, V, C, ' keep-sorted keep-sorted-pattern="k=(?P<value>[ab]*)"', 'group-empty', 'asc', [97, 98]),
    Config(PROP, V, C, ' keep-sorted="desc" keep-sorted-pattern="(?P<value>[ab]*)"', 'bare-empty', 'desc', [97, 98]),
]
SPECS = [(0, 1, 0), (1, 2, 0), (0, 2, 1), (1, 0, 0), (0, 0, 0)]
NUM_SPECS = [(0, 1, 0), (1, 2, 0), (0, 3, 1), (1, 0, 0)]
BARE_SPECS = [(0, 1, 1), (0, 0, 1), (0, 2, 0), (0, 0, 2), (0, 0, 0)]
BOUNDS = {'quick': dict(nlines=3, per_cfg=36, validate=30), 'thorough': dict(nlines=5, per_cfg=600, validate=150)}


def main(tier):
    return run_main(PROP, tier, CONFIGS, lambda c: NUM_SPECS if c.numeric else (BARE_SPECS if c.mode == 'bare-empty' else SPECS), BOUNDS,
                    assumptions=['keys over {a,b,B,1} with inner blanks (trim form), {a,b} for the regex forms k=(?P<value>[ab]+), k=(?P<value>[ab]*) (a key may be the empty string), z(?P<value>[ab]+)? and [ab]+',
                                 'numeric keys are integer literals -?[0129]{1,3} (exactly representable); decimals, exponents, inf/nan are outside',
                                 'the regex engine is the reference model mirsym/rexmodel.py, not the regex crate',
                                 'tree-sitter / tag scanner replaced as in C10; ASCII only',
                                 'is_content_modified and _is_start_tag_modified are free booleans: the verdict must not depend on them (C02)'],
                    must_cover=['clean', 'reported', 'two violating blocks in one file', 'numeric', 'mode:trim', 'mode:group', 'mode:plain', 'mode:group-empty', 'mode:bare-empty', 'rule:asc', 'rule:desc'])


if __name__ == '__main__':
    sys.exit(main(sys.argv[1] if len(sys.argv) > 1 else 'quick'))
