"""C16 — grammar is chosen by file name; unknown names are skipped; bad -E rejected.

Encoded (real MIR): blocks::parser_for_file_path, try_parser_for_extension, parse_file (up
to the parser call), language_parsers::language_parsers (executed with the 23 grammar
constructors stubbed, to read the real suffix table out of the code), flags::Args::validate,
flags::parse_extensions (+closures), Args::extensions (+closure).
Symbolic: every byte of the path (file name with directories), key/value of a -E pair.
Oracle: a Z3 formula over the same bytes: the entry of the shortest dotted suffix that is
(after remapping) a key, else of the whole file name, else none.
"""
import itertools
import json
import random
import re
import sys

import z3

from .common import *  # noqa
from .vharness import *  # noqa
from mirsym.interp import explore, PathStats, Interp
from mirsym.models import reg, new_string, as_sstr

PROP = 'C16'
NAME_ALPHABET = [ord(c) for c in './gomdtsxkhcMD']
EXT_ALPHABET = [ord(c) for c in 'xq= \t']

_table_cache = {}


def real_table(prog):
    """Execute language_parsers() from MIR with grammar constructors stubbed.
    Returns (MapVal, {key bytes: grammar name})."""
    if 'v' in _table_cache:
        return _table_cache['v']
    I = Interp(prog, models.M)
    lp = prog.find_fn('language_parsers')
    n = 0
    for name, lst in prog.fns.items():
        m = re.match(r'^(\w+)::parser$', name)
        if m and lst[0].kind == 'fn' and lst[0].nargs == 0:
            lang = m.group(1)
            I.stubs[name] = (lambda lang: (lambda I2, a, ci, dt: Ok(Struct('Grammar', (lang,)))))(lang)
            n += 1
    if n < 10:
        raise EngineError('only %d grammar constructors found in the dump' % n)
    res = I.call_fn(lp, [])
    if res.v != 0:
        raise EngineError('language_parsers() returned Err under stubs')
    table = res.f[0]
    names = {}
    for e in table.entries:
        key = bytes(e.f[0].b)
        g = I.deref_value(e.f[1])
        while isinstance(g, Ref):
            g = I.deref_value(g)
        names[key] = g.f[0]
    _table_cache['v'] = (table, names, I.stats)
    return _table_cache['v']


# The language every registered suffix conventionally denotes (what the README's language list
# promises), written independently of the code: a suffix wired to a sibling grammar (`cc` -> C)
# parses, but finds tags inside that language's string literals.  Suffixes the table may gain
# later are not judged; `h` -> C++ and `go.*` -> Go are the project's documented choices.
CONVENTIONAL = {
    'Makefile': 'makefile', 'makefile': 'makefile', 'mk': 'makefile', 'bash': 'bash', 'sh': 'bash', 'c': 'c', 'cc': 'cpp',
    'cpp': 'cpp', 'h': 'cpp', 'cs': 'c_sharp', 'css': 'css', 'd.ts': 'typescript', 'ts': 'typescript', 'tsx': 'tsx',
    'go': 'go', 'go.mod': 'go', 'go.sum': 'go', 'go.work': 'go', 'htm': 'html', 'html': 'html', 'java': 'java',
    'js': 'javascript', 'jsx': 'javascript', 'kt': 'kotlin', 'kts': 'kotlin', 'markdown': 'markdown', 'md': 'markdown',
    'php': 'php', 'phtml': 'php', 'py': 'python', 'pyi': 'python', 'rb': 'ruby', 'rs': 'rust', 'sql': 'sql',
    'swift': 'swift', 'toml': 'toml', 'xml': 'xml', 'yaml': 'yaml', 'yml': 'yaml'}
# a construct of the conventional language that its sibling grammar misreads: (file text, blocks expected)
PROBES = {
    ('cc', 'c'): b'const char* s = R"doc(fits 12" racks // <block name="decoy"> )doc";\n',
    ('cpp', 'c'): b'const char* s = R"doc(fits 12" racks // <block name="decoy"> )doc";\n',
}


def run_files(task):
    """Several files in one run through parse_blocks (walk order given): each file gets the grammar of
    its own name, whatever was resolved for the files before it."""
    files, want_sample = task
    from mirsym.models import ListIter
    prog = driver.load_program()
    stats = PathStats()
    table, names, _st = real_table(prog)
    f_pb = prog.find_fn('parse_blocks')
    out = dict(violations=[], samples=[], obligations=0, cover={}, panic_paths=0)
    holder = {}

    def run_path(I):
        used = {}
        holder['used'] = used
        cur = {}

        def read_stub(I2, a, ci, dt):
            fn = bytes(as_sstr(I2, a[1]).b)
            cur['f'] = fn
            return Ok(new_string(I2, b'FILE:' + fn + b'\n# <block name="n">\nx\n# </block>\n'))

        def parse_stub(I2, a, ci, dt):
            g = I2.deref_value(a[0])
            while isinstance(g, Ref):
                g = I2.deref_value(g)
            src = bytes(as_sstr(I2, a[1]).b)
            fn = src[len(b'FILE:'):src.index(b'\n')]
            used[fn] = g.f[0]
            return Ok(VecVal([mk_block(prog, I2, {}, (2, 3), (2, 9), (9, 11), (2, 10), (4, 1))]))
        I.stubs['FileSystem::walk'] = lambda I2, a, ci, dt: ListIter([Ok(new_string(I2, f)) for f in files])
        I.stubs['PathChecker::should_allow'] = lambda I2, a, ci, dt: True
        I.stubs['PathChecker::should_ignore'] = lambda I2, a, ci, dt: False
        I.stubs['FileSystem::read_to_string'] = read_stub
        I.stubs['BlocksParser::parse'] = parse_stub
        r = I.call_fn(f_pb, [MapVal((), 'HashMap'), True, Ref(Cell(Struct('FakeFS', ())), ()), Ref(Cell(Struct('FakePC', ())), ()),
                             table, MapVal((), 'HashMap')])
        return r

    for I, kind, val in explore(prog, models.M, run_path, stats=stats, max_paths=2000):
        out['obligations'] += 1
        if kind == 'panic' or val.v != 0:
            out['violations'].append(dict(role='unexpected-error', summary='parse_blocks failed on %s' % (files,), files=[f.decode() for f in files]))
            continue
        for f in files:
            want = ref_grammar(f.decode('latin1'), None, names)
            got = holder['used'].get(f)
            if got != want:
                out['violations'].append(dict(role='grammar-depends-on-other-files', files=[x.decode() for x in files], file=f.decode(),
                                              summary='%s processed after %s: grammar %s used, its name maps to %s' % (
                                                  f.decode(), [x.decode() for x in files[:files.index(f)]], got, want)))
                break
        out['cover']['several files'] = out['cover'].get('several files', 0) + 1
    out.update(Agg(PROP, 'x').stats_from(stats))
    return out


def confirm_files(binary, v, idx, names):
    """Replay: the files in scan order are not controllable through the CLI, but the order 'glob-matched
    first, then files only named in the diff' is: the first file by glob, the others through a diff."""
    files = v['files']
    body = b'# <block name="n">\nx\n# </block>\n'
    tree = {f: body for f in files}
    diff = ''
    for f in files[1:]:
        diff += 'diff --git a/%s b/%s\n--- a/%s\n+++ b/%s\n@@ -2 +2 @@\n-y\n+x\n' % (f, f, f, f)
    d = scratch_dir('c16f')
    try:
        git_init(d)
        for f, c in tree.items():
            pth = os.path.join(d, f)
            os.makedirs(os.path.dirname(pth), exist_ok=True)
            open(pth, 'wb').write(c)
        r = run_blockwatch(binary, d, ['list', files[0]], stdin=diff.encode())
    finally:
        shutil.rmtree(d, ignore_errors=True)
    try:
        listed = sorted(json.loads(r['stdout']).keys()) if r['stdout'].strip() else []
    except ValueError:
        listed = None
    want = sorted(f for f in files if ref_grammar(f, None, names))
    v['observed'] = dict(code=r['code'], listed=listed, stderr=r['stderr'][-200:])
    v['expected'] = want
    v['confirmed'] = listed != want
    if v['confirmed']:
        tree['input.diff'] = diff.encode()
        v['replay'] = save_replay(PROP, 'files-%d' % idx, tree, 'list %s' % files[0],
                                  'expected blocks listed for exactly %s; %s' % (want, v['summary']), v, stdin_file='input.diff')
    return v


class FakeFS:
    pass


def run_name(task):
    nlen, remap, want_sample, fixed_last = task
    prog = driver.load_program()
    stats = PathStats()
    table, names, _st = real_table(prog)
    f_pf = prog.find_fn('parse_file')
    out = dict(violations=[], samples=[], obligations=0, cover={}, panic_paths=0)
    holder = {}
    roles = set()
    keys = sorted(names.keys())

    def run_path(I):
        if isinstance(fixed_last, bytes):
            # a literal (compound) suffix after a symbolic stem: names longer than the all-symbolic bound
            name = tuple(I.fresh_byte('p%d' % i, NAME_ALPHABET) for i in range(nlen)) + tuple(fixed_last)
        else:
            name = tuple(I.fresh_byte('p%d' % i, NAME_ALPHABET) for i in range(nlen))
            if fixed_last is not None:
                I.add(name[-1] == fixed_last)      # work split only: all values of the alphabet are enumerated
        holder['name'] = name
        extra_ents = []
        holder['remap'] = None
        if remap is not None:
            klen, vspec = remap
            k = tuple(I.fresh_byte('k%d' % i, NAME_ALPHABET) for i in range(klen))
            if isinstance(vspec, int):
                v = tuple(I.fresh_byte('v%d' % i, NAME_ALPHABET) for i in range(vspec))
            else:
                v = tuple(vspec)
            extra_ents.append(Tuple(new_string(I, k), new_string(I, v)))
            holder['remap'] = (k, v)
        extra = MapVal(extra_ents, 'HashMap')
        reads = []
        holder['reads'] = reads
        holder['parsed_with'] = []

        def read_stub(I2, a, ci, dt):
            reads.append(1)
            return Ok(new_string(I2, b'# <block name="n">\nx\n# </block>\n'))

        def parse_stub(I2, a, ci, dt):
            g = I2.deref_value(a[0])
            while isinstance(g, Ref):
                g = I2.deref_value(g)
            holder['parsed_with'].append(g.f[0])
            return Ok(VecVal(()))

        I.stubs['FileSystem::read_to_string'] = read_stub
        I.stubs['BlocksParser::parse'] = parse_stub
        filt = Enum('BlocksFilter', prog.variant_index('BlocksFilter', 'All'), 'All')
        return I.call_fn(f_pf, [SStr(name, I.new_alloc(), 0), Ref(Cell(VecVal(())), ()), filt,
                                Ref(Cell(Struct('FakeFS', ())), ()), Ref(Cell(table), ()), Ref(Cell(extra), ())])

    def viol(I, cond, role, summary):
        out['obligations'] += 1
        if role in roles:
            return
        if I.check(cond):
            roles.add(role)
            m = I.solver.model()
            rm = holder['remap']
            out['violations'].append(dict(
                role=role, summary=summary, path=model_bytes(m, holder['name']).decode('latin1'),
                remap=None if rm is None else [model_bytes(m, rm[0]).decode('latin1'), model_bytes(m, rm[1]).decode('latin1')],
                got=holder['parsed_with'][:1]))

    def eq(bs, const):
        if len(bs) != len(const):
            return z3.BoolVal(False)
        return zand([(b == c) if not isinstance(b, int) else z3.BoolVal(b == c) for b, c in zip(bs, const)])

    def eqsym(a, b):
        if len(a) != len(b):
            return z3.BoolVal(False)
        return zand([x == y for x, y in zip(a, b)])

    for I, kind, val in explore(prog, models.M, run_path, stats=stats, max_paths=300000):
        name = holder['name']
        if kind == 'panic':
            out['panic_paths'] += 1
            viol(I, z3.BoolVal(True), 'panic', 'panic: %s' % val.msg[:120])
            continue
        if val.v != 0:
            viol(I, z3.BoolVal(True), 'unexpected-error', 'parse_file returned Err under total stubs')
            continue
        got = holder['parsed_with'][0] if holder['parsed_with'] else None
        if got is None and (val.f[0].v != 0 or holder['reads']):
            viol(I, z3.BoolVal(True), 'unknown-name-not-skipped', 'no grammar chosen but the file was read / a result produced')
        rm = holder['remap']

        # reference: file name = bytes after the last '/', (trailing '/' and '.', '..' components give no name)
        n = len(name)
        # candidate starts s of the file name
        cands = []
        for s in range(0, n + 1):
            fname = name[s:]
            is_start = zand([z3.BoolVal(True) if s == 0 else name[s - 1] == 47] + [b != 47 for b in fname])
            if len(fname) == 0:
                continue
            cands.append((is_start, fname))
        # grammar of an extension string (symbolic bytes) after remapping: formula per grammar name
        grams = sorted(set(names.values()))

        def gram_of(ext):
            """dict grammar -> condition that ext (after remap) is a key of that grammar; plus 'none'."""
            res = {g: [] for g in grams}
            if rm is not None:
                k, v = rm
                is_rm = eqsym(ext, k)
                for key in keys:
                    res[names[key]].append(z3.And(is_rm, eq(v, key)))
                    res[names[key]].append(z3.And(z3.Not(is_rm), eq(ext, key)))
            else:
                for key in keys:
                    c = eq(ext, key)
                    if not z3.is_false(c):
                        res[names[key]].append(c)
            return {g: zor(cs) for g, cs in res.items()}

        expect = {g: [] for g in grams}       # conditions under which grammar g must be chosen
        expect_none = []
        for is_start, fname in cands:
            if len(fname) <= 2:
                pass
            # '.' and '..' have no file name
            dotdot = zor([eq(fname, b'.'), eq(fname, b'..')])
            L = len(fname)
            dots = [i for i in range(L)]
            # suffix tried at dot position i (from the right): fname[i+1:]
            none_so_far = z3.BoolVal(True)
            for i in range(L - 1, -1, -1):
                ext = fname[i + 1:]
                is_dot = fname[i] == 46
                go = gram_of(ext)
                anyg = zor(list(go.values()))
                for g, c in go.items():
                    if not z3.is_false(c):
                        expect[g].append(zand([is_start, z3.Not(dotdot), none_so_far, is_dot, c]))
                none_so_far = z3.And(none_so_far, z3.Not(z3.And(is_dot, anyg)))
            go = gram_of(fname)
            for g, c in go.items():
                if not z3.is_false(c):
                    expect[g].append(zand([is_start, z3.Not(dotdot), none_so_far, c]))
            expect_none.append(zand([is_start, z3.Not(dotdot), none_so_far, z3.Not(zor(list(go.values())))]))
            expect_none.append(z3.And(is_start, dotdot))
        # names ending in '/' : std's file_name() drops trailing separators; keep them out of the claim
        trailing_slash = (name[-1] == 47) if n else z3.BoolVal(False)
        # components '.', '..' and empty components are normalised by std::path and never
        # occur in paths git or the directory walk produce: outside the claim
        weird = [trailing_slash]
        for i in range(n):
            at_start = z3.BoolVal(True) if i == 0 else name[i - 1] == 47
            end1 = z3.BoolVal(True) if i + 1 == n else name[i + 1] == 47
            weird.append(z3.And(at_start, name[i] == 46, end1))
            if i + 1 < n:
                end2 = z3.BoolVal(True) if i + 2 == n else name[i + 2] == 47
                weird.append(z3.And(at_start, name[i] == 46, name[i + 1] == 46, end2))
                weird.append(z3.And(name[i] == 47, name[i + 1] == 47))
        trailing_slash = zor(weird)
        for g in grams:
            if g == got:
                continue
            cond = zor(expect[g])
            if not z3.is_false(cond):
                viol(I, z3.And(cond, z3.Not(trailing_slash)), 'wrong-grammar',
                     'file name maps to grammar %s but %s was used' % (g, got))
        if got is not None:
            viol(I, z3.And(zor(expect_none), z3.Not(trailing_slash)), 'unknown-name-parsed',
                 'file name maps to no grammar but %s was used' % got)
        out['cover']['chosen' if got else 'skipped'] = out['cover'].get('chosen' if got else 'skipped', 0) + 1
        if want_sample and len(out['samples']) < 3:
            m = I.ensure_model()
            out['samples'].append(dict(path=model_bytes(m, name).decode('latin1'), grammar=got,
                                       remap=None if rm is None else [model_bytes(m, rm[0]).decode('latin1'),
                                                                      model_bytes(m, rm[1]).decode('latin1')]))
    out.update(Agg(PROP, 'x').stats_from(stats))
    return out


# ------------------------------------------------------------------ -E parsing / validation

def run_flags(task):
    slen, want_sample = task
    prog = driver.load_program()
    stats = PathStats()
    table, names, _st = real_table(prog)
    f_pe = prog.find_fn('parse_extensions')
    f_val = prog.find_method('Args', 'validate')
    out = dict(violations=[], samples=[], obligations=0, cover={}, panic_paths=0)
    holder = {}
    roles = set()

    def run_path(I):
        s = tuple(I.fresh_byte('s%d' % i, EXT_ALPHABET) for i in range(slen))
        holder['s'] = s
        r = I.call_fn(f_pe, [SStr(s, I.new_alloc(), 0)])
        holder['pe'] = r
        if r.v != 0:
            return None
        pair = r.f[0]
        # Args { extensions: [pair], ... } validated against the real key set
        args = mk_struct(prog, 'Args', extensions=VecVal([pair]), disabled_validators=VecVal(()),
                         enabled_validators=VecVal(()), ignore=VecVal(()), globs=VecVal(()), command=NONE)
        keyset = MapVal([Tuple(Ref(Cell(e.f[0]), ()), UNIT) for e in table.entries], 'HashSet')
        return I.call_fn(f_val, [Ref(Cell(args), ()), Ref(Cell(keyset), ())])

    def viol(I, cond, role, summary):
        out['obligations'] += 1
        if role in roles:
            return
        if I.check(cond):
            roles.add(role)
            m = I.solver.model()
            out['violations'].append(dict(role=role, summary=summary, flag=model_bytes(m, holder['s']).decode('latin1')))

    for I, kind, val in explore(prog, models.M, run_path, stats=stats, max_paths=100000):
        s = holder['s']
        if kind == 'panic':
            viol(I, z3.BoolVal(True), 'panic', 'panic: %s' % val.msg[:120])
            continue
        has_eq = zor([b == 61 for b in s])
        pe = holder['pe']
        if pe.v != 0:
            viol(I, has_eq, 'kv-rejected', 'KEY=VALUE with an = sign rejected')
            out['cover']['no-equals'] = 1
            continue
        viol(I, z3.Not(has_eq), 'kv-without-equals-accepted', 'flag without = accepted')
        # value = trimmed text after the first '='; it is over {x,q,space,tab,=} so never a real key
        # unless empty...: every accepted mapping here names an unsupported grammar => validate must fail
        if val.v == 0:
            viol(I, z3.BoolVal(True), 'unsupported-mapping-accepted', '-E onto an unsupported grammar accepted')
        out['cover']['unsupported-rejected' if val.v != 0 else 'accepted'] = 1
        if want_sample and len(out['samples']) < 2:
            m = I.ensure_model()
            out['samples'].append(dict(flag=model_bytes(m, s).decode('latin1'), parse='ok', validate='err' if val.v else 'ok'))
    out.update(Agg(PROP, 'x').stats_from(stats))
    return out


def run_flags_supported(task):
    """-E k=<every real key> is accepted; both -d and -e is rejected (concrete table-driven)."""
    prog = driver.load_program()
    stats = PathStats()
    table, names, _st = real_table(prog)
    f_val = prog.find_method('Args', 'validate')
    out = dict(violations=[], samples=[], obligations=0, cover={}, panic_paths=0)
    I = Interp(prog, models.M, stats=stats)
    keyset = MapVal([Tuple(Ref(Cell(e.f[0]), ()), UNIT) for e in table.entries], 'HashSet')
    for key in sorted(names.keys()):
        args = mk_struct(prog, 'Args', extensions=VecVal([Tuple(new_string(I, b'zz'), new_string(I, key))]),
                         disabled_validators=VecVal(()), enabled_validators=VecVal(()), ignore=VecVal(()),
                         globs=VecVal(()), command=NONE)
        r = I.call_fn(f_val, [Ref(Cell(args), ()), Ref(Cell(keyset), ())])
        out['obligations'] += 1
        if r.v != 0:
            out['violations'].append(dict(role='supported-mapping-rejected', summary='-E zz=%s rejected' % key.decode(),
                                          flag='zz=' + key.decode()))
    # a repeated key: every mapping given on the command line is validated, not only the last one
    for first, second in ((b'jinja', b'html'), (b'html', b'jinja'), (b'nope', b'nope')):
        args = mk_struct(prog, 'Args', extensions=VecVal([Tuple(new_string(I, b'tpl'), new_string(I, first)),
                                                           Tuple(new_string(I, b'tpl'), new_string(I, second))]),
                         disabled_validators=VecVal(()), enabled_validators=VecVal(()), ignore=VecVal(()),
                         globs=VecVal(()), command=NONE)
        r = I.call_fn(f_val, [Ref(Cell(args), ()), Ref(Cell(keyset), ())])
        out['obligations'] += 1
        if r.v == 0:
            out['violations'].append(dict(role='unsupported-mapping-accepted',
                                          summary='-E tpl=%s -E tpl=%s accepted' % (first.decode(), second.decode()),
                                          flags=['tpl=' + first.decode(), 'tpl=' + second.decode()]))
    stats.paths += 1
    out['cover']['supported-accepted'] = 1
    out.update(Agg(PROP, 'x').stats_from(stats))
    return out


# ------------------------------------------------------------------ replay


def run_remap_chain(task):
    """Several -E pairs at once, also pairs that chain or form a cycle (h=c with c=h, py=py): the lookup ends,
    does not panic, and a name is remapped ONCE (the value of a pair is a grammar key, not another name to
    look up).  Concrete names and pairs; real MIR of parse_file / parser_for_file_path / try_parser_for_extension."""
    fname, pairs = task
    prog = driver.load_program()
    stats = PathStats()
    table, names, _st = real_table(prog)
    f_pf = prog.find_fn('parse_file')
    out = dict(violations=[], samples=[], obligations=0, cover={}, panic_paths=0)
    holder = {}

    def run_path(I):
        holder['parsed_with'] = []

        def parse_stub(I2, a, ci, dt):
            g = I2.deref_value(a[0])
            while isinstance(g, Ref):
                g = I2.deref_value(g)
            holder['parsed_with'].append(g.f[0])
            return Ok(VecVal(()))
        I.stubs['FileSystem::read_to_string'] = lambda I2, a, ci, dt: Ok(new_string(I2, b'# <block name="n">\nx\n# </block>\n'))
        I.stubs['BlocksParser::parse'] = parse_stub
        I.max_steps = min(getattr(I, 'max_steps', 200000), 200000)
        extra = MapVal([Tuple(new_string(I, k), new_string(I, v)) for k, v in pairs], 'HashMap')
        filt = Enum('BlocksFilter', prog.variant_index('BlocksFilter', 'All'), 'All')
        return I.call_fn(f_pf, [SStr(tuple(fname), I.new_alloc(), 0), Ref(Cell(VecVal(())), ()), filt,
                                Ref(Cell(Struct('FakeFS', ())), ()), Ref(Cell(table), ()), Ref(Cell(extra), ())])

    def add(role, summary):
        out['obligations'] += 1
        out['violations'].append(dict(role=role, summary=summary, path=fname.decode(), chain=True,
                                      remap=[[k.decode(), v.decode()] for k, v in pairs], got=holder.get('parsed_with', [])[:1]))
    ext = fname.rsplit(b'.', 1)[-1]
    once = dict(pairs).get(ext, ext)
    want = names.get(once)
    try:
        for I, kind, val in explore(prog, models.M, run_path, stats=stats, max_paths=2000):
            out['obligations'] += 1
            if kind == 'panic':
                out['panic_paths'] += 1
                add('panic', 'panic: %s' % val.msg[:120])
                continue
            got = holder['parsed_with'][0] if holder['parsed_with'] else None
            if got != want:
                add('remap-followed-more-than-once', '%s with %s: grammar %s, one remap step gives %s' % (fname.decode(), [(k.decode(), v.decode()) for k, v in pairs], got, want))
            out['cover']['remap chains'] = out['cover'].get('remap chains', 0) + 1
    except Truncated as e:
        add('extension-lookup-does-not-end', '%s with %s: %s' % (fname.decode(), [(k.decode(), v.decode()) for k, v in pairs], e))
        out['cover']['remap chains'] = out['cover'].get('remap chains', 0) + 1
    out.update(Agg(PROP, 'x').stats_from(stats))
    return out


def confirm_chain(binary, v, idx, names):
    obs = observe_name(binary, v['path'], [tuple(p) for p in v['remap']])
    ext = v['path'].rsplit('.', 1)[-1]
    once = dict((k, x) for k, x in v['remap']).get(ext, ext)
    want = STYLES.get(names.get(once.encode()), set()) if names.get(once.encode()) else set()
    v['observed'] = obs
    v['expected'] = sorted(want)
    v['confirmed'] = bool(obs.get('hang')) or set(obs['styles']) != set(want)
    if v['confirmed']:
        v['replay'] = save_replay(PROP, 'chain-%s-%d' % (v['role'], idx), {v['path']: b'# <block name="hash">\n# </block>\n// <block name="slash">\n// </block>\n'},
                                  ' '.join('-E %s=%s' % (k, x) for k, x in v['remap']) + " list '**'",
                                  'expected the run to end and to use the grammar whose comment styles are %s; %s' % (sorted(want), v['summary']), v)
    return v


def observe_name(binary, path, remap):
    """Real binary: which grammar handles `path`?  Probe file holds a tag in each comment style."""
    probes = {
        'hash': b'# <block name="hash">\n# </block>\n',
        'slash': b'// <block name="slash">\n// </block>\n',
        'cblock': b'/* <block name="cblock"> */\n/* </block> */\n',
        'html': b'<!-- <block name="html"> -->\n<!-- </block> -->\n',
        'dash': b'-- <block name="dash">\n-- </block>\n',
    }
    seen = set()
    err = None
    for style, text in probes.items():
        args = ['list']
        if remap and isinstance(remap[0], (list, tuple)):
            for k_, v_ in remap:
                args = ['-E', '%s=%s' % (k_, v_)] + args
        elif remap:
            args = ['-E', '%s=%s' % (remap[0], remap[1])] + args
        r = run_scan(binary, {path: text}, ['**'], extra_args=args)
        if r['code'] == 'timeout':
            return dict(styles=[], error='timeout', hang=True)
        if r['code'] != 0:
            err = r['stderr'][-200:]
            continue
        try:
            js = json.loads(r['stdout']) if r['stdout'].strip() else {}
        except ValueError:
            js = {}
        for k, v in js.items():
            for b in v:
                seen.add(b.get('name'))
    return dict(styles=sorted(seen), error=err)


# comment styles each grammar accepts (used only to confirm counterexamples on the real binary)
STYLES = {
    'bash': {'hash'}, 'python': {'hash'}, 'ruby': {'hash'}, 'toml': {'hash'}, 'yaml': {'hash'}, 'makefile': {'hash'},
    'c': {'slash', 'cblock'}, 'cpp': {'slash', 'cblock'}, 'c_sharp': {'slash', 'cblock'}, 'go': {'slash', 'cblock'},
    'java': {'slash', 'cblock'}, 'javascript': {'slash', 'cblock'}, 'kotlin': {'slash', 'cblock'},
    'rust': {'slash', 'cblock'}, 'swift': {'slash', 'cblock'}, 'typescript': {'slash', 'cblock'}, 'tsx': {'slash', 'cblock'},
    'css': {'cblock'}, 'html': {'html'}, 'xml': {'html'}, 'markdown': {'html'}, 'php': {'slash', 'cblock', 'hash'},
    'sql': {'dash', 'cblock'},
}


def ref_grammar(path, remap, names):
    name = path.rstrip('/').split('/')[-1] if path else ''
    if name in ('', '.', '..'):
        return None

    def look(ext):
        if remap and ext == remap[0]:
            ext = remap[1]
        return names.get(ext.encode('latin1'))
    idx = [i for i, c in enumerate(name) if c == '.']
    for i in reversed(idx):
        g = look(name[i + 1:])
        if g:
            return g
    return look(name)


def confirm(binary, v, idx, names):
    v['confirmed'] = False
    if 'path' not in v:
        # flag handling: replay through the CLI
        flag = v.get('flag', '')
        if 'flags' in v:
            ea = []
            for fl in v['flags']:
                ea += ['-E', fl]
            r = run_scan(binary, {'a.py': b'x = 1\n'}, ['a.py'], extra_args=ea)
            v['observed'] = r
            if r['code'] == 0:
                v['confirmed'] = True
                v['replay'] = save_replay(PROP, '%s-%d' % (v['role'], idx), {'a.py': b'x = 1\n'}, ' '.join(ea) + ' a.py', v['summary'], v)
            return v
        r = run_scan(binary, {'a.py': b'x = 1\n'}, ['a.py'], extra_args=['-E', flag])
        want_fail = v['role'] in ('kv-without-equals-accepted', 'unsupported-mapping-accepted')
        bad = (r['code'] == 0) if want_fail else (r['code'] != 0)
        v['observed'] = r
        if bad:
            v['confirmed'] = True
            v['replay'] = save_replay(PROP, '%s-%d' % (v['role'], idx), {'a.py': b'x = 1\n'}, "-E '%s' a.py" % flag,
                                      v['summary'], v)
        return v
    path = v['path']
    if not path or path.startswith('/') or '//' in path or any(seg in ('.', '..', '') for seg in path.split('/')[:-1]) \
            or path.split('/')[-1].startswith('.') and False:
        return v
    want = ref_grammar(path, v['remap'], names)
    obs = observe_name(binary, path, v['remap'])
    v['observed'] = obs
    v['expected_grammar'] = want
    got = set(obs['styles'])
    exp = STYLES.get(want, set()) if want else set()
    if got != exp and not (want and want not in STYLES):
        v['confirmed'] = True
        v['replay'] = save_replay(PROP, '%s-%d' % (v['role'], idx), {path: b'# <block name="hash">\n# </block>\n'},
                                  'list', 'expected grammar %s for %r (remap %r); %s' % (want, path, v['remap'], v['summary']), v)
    return v


BOUNDS = {
    'quick': dict(name_max=6, remaps=[None, (1, b'md')], flag_max=4, validate=20),
    'thorough': dict(name_max=9, remaps=[None, (1, b'md'), (2, 2), (1, b'go.mod')], flag_max=6, validate=60),
}


def main(tier):
    b = BOUNDS[tier]
    agg = Agg(PROP, tier)
    binary = driver.real_binary()
    prog = driver.load_program()
    table, names, st0 = real_table(prog)
    agg.fns.update(st0.fns_used)
    rnd = random.Random(seed())
    tasks = []
    for n in range(0, b['name_max'] + 1):
        for rm in b['remaps']:
            if rm is not None and n > b['name_max'] - 2:
                continue
            if n >= 5:
                for ch in NAME_ALPHABET:
                    tasks.append((n, rm, ch in (104, 115, 100), ch))
            else:
                tasks.append((n, rm, True, None))
    for suf in (b'.go.mod', b'.go.sum', b'.go.work', b'.d.ts', b'go.mod', b'.x.go.mod', b'.tar.md'):
        for n in (1, 2, 3):
            tasks.append((n, None, n == 1, suf))
    tasks.sort(key=lambda t: -t[0])
    results = pmap(run_name, tasks)
    results += pmap(run_flags, [(n, True) for n in range(0, b['flag_max'] + 1)])
    results += pmap(run_flags_supported, [0], jobs=1)
    pairs = [(b'go.mod', b'deps.mod'), (b'deps.mod', b'go.mod'), (b'a.d.ts', b'b.s'), (b'Makefile', b'x.Makefile', b'y.mk'),
             (b'x.work', b'go.work', b'd/go.work'), (b'a.py', b'b.py', b'c.txt'), (b'go.sum', b'x.sum', b'go.sum.bak')]
    results += pmap(run_files, [(p_, False) for p_ in pairs])
    # several -E pairs that chain or form a cycle: the lookup ends and remaps once
    chains = [(b'a.h', ((b'h', b'c'), (b'c', b'h'))), (b'a.c', ((b'h', b'c'), (b'c', b'h'))), (b'a.py', ((b'py', b'py'),)),
              (b'a.foo', ((b'foo', b'py'), (b'py', b'sql'))), (b'a.py', ((b'foo', b'py'), (b'py', b'sql')))]
    results += pmap(run_remap_chain, chains, chunksize=1)
    for r in results:
        agg.add(r)
    # the registered table against the conventional language of each suffix
    for key, g in sorted(names.items()):
        k = key.decode('latin1')
        agg.obligations += 1
        if k in CONVENTIONAL and CONVENTIONAL[k] != g:
            v = dict(role='suffix-registered-with-wrong-grammar', summary='suffix %r is registered with grammar %s, its language is %s' % (k, g, CONVENTIONAL[k]),
                     suffix=k, grammar=g, table=True)
            probe = PROBES.get((k, g), ('// <block name="x">\n// </block>\n').encode())
            fname = k if k in ('Makefile', 'makefile', 'go.mod', 'go.sum', 'go.work') else 'f.' + k
            r = run_scan(binary, {fname: probe}, ['**'], extra_args=['list'])
            v['observed'] = dict(code=r['code'], stdout=r['stdout'][-200:], stderr=r['stderr'][-200:])
            misparsed = (k, g) in PROBES and ('decoy' in r['stdout'] or r['code'] != 0)
            v['confirmed'] = True if misparsed or (k, g) not in PROBES else False
            v['replay'] = save_replay(PROP, 'table-%s' % k.replace('.', '_'), {fname: probe}, "list '**'",
                                      'a %s construct in a %r file; %s' % (CONVENTIONAL[k], k, v['summary']), v)
            agg.violations.append(v)
    by_role = {}
    for v in agg.violations:
        by_role.setdefault(v['role'], []).append(v)
    final = []
    for role, vs in sorted(by_role.items()):
        got = None
        for i, v in enumerate(vs[:8]):
            if v.get('table'):
                got = v
                break
            if v.get('chain'):
                confirm_chain(binary, v, i, names)
            elif 'files' in v and 'path' not in v:
                confirm_files(binary, v, i, names)
            else:
                confirm(binary, v, i, names)
            if v['confirmed']:
                got = v
                break
        final.append(got or vs[0])
    agg.violations = final
    samples = [s for r in results for s in r.get('samples', []) if 'path' in s]
    rnd.shuffle(samples)
    supported = set(n.decode('latin1') if isinstance(n, bytes) else n for n in names)
    done = 0
    for s in samples:
        if done >= b['validate']:
            break
        path = s['path']
        if not path or path.startswith('/') or path.endswith('/') or '//' in path or \
                any(seg in ('.', '..') for seg in path.split('/')) or path.split('/')[0] == '':
            continue
        if any(seg.startswith('.') for seg in path.split('/')):
            continue      # hidden files are not walked by the CLI
        if s['remap'] and (s['remap'][1] not in supported or '=' in s['remap'][0] or not s['remap'][0]):
            continue      # the CLI (Args::validate, decided above) refuses such a -E pair: no run to compare with
        obs = observe_name(binary, path, s['remap'])
        exp = STYLES.get(s['grammar'], set()) if s['grammar'] else set()
        done += 1
        if set(obs['styles']) == exp:
            agg.validated += 1
        else:
            msg = 'mirsym grammar %s vs real styles %s on %r' % (s['grammar'], obs, s)
            agg.validation_failures.append(msg)
            agg.engine_errors.append({'engine_error': 'translator validation: ' + msg})
    bounds = dict(name_max=b['name_max'], flag_max=b['flag_max'], remaps=[str(r) for r in b['remaps']],
                  name_alphabet=''.join(map(chr, NAME_ALPHABET)), table_keys=len(names))
    return finish(
        agg, bounds,
        assumptions=['ASCII; path bytes over the stated alphabet (covers go, mod, go.mod, d.ts, ts, md, h, c, cc, cs, kt, kts, mk, sh, htm ... and upper-case look-alikes)',
                     'the suffix table is read by executing language_parsers() from MIR with the 23 grammar constructors stubbed',
                     'FileSystem::read_to_string and BlocksParser::parse are recording stubs; paths ending in / are outside the claim',
                     'clap itself is not encoded: parse_extensions and Args::validate are driven directly'],
        stubs=['<lang>::parser constructors', 'FileSystem::read_to_string', 'BlocksParser::parse'],
        must_cover=['chosen', 'skipped', 'several files', 'remap chains', 'no-equals', 'unsupported-rejected', 'supported-accepted'],
        explanation='reference suffix rule as a Z3 formula over the path bytes; per path: PC∧expect(g)∧chosen≠g, PC∧expect(none)∧chosen')


if __name__ == '__main__':
    sys.exit(main(sys.argv[1] if len(sys.argv) > 1 else 'quick'))
