"""C20 — same input, same verdict: determinism w.r.t. iteration order (≙ every hashing seed).

Every HashMap/HashSet the encoded functions iterate is a model whose iteration order is a
parameter of the run.  For concrete scenarios (several files, several validators, a diff), the
real MIR of parse_blocks, detect_validators, validators::run (sync path), the sync validators and
process_violations is executed under every iteration order (all permutations for <=3 entries,
applied to every map; walk order and validator spawn order permuted too) with the violations'
severities symbolic, and the results are compared as sets/multisets across orders.
An async scenario (four check-lua blocks, one check-ai block, one sync validator; healthy and
with one failing script) is run on the coroutine MIR under every completion order of the tokio
tasks, every map order and a symbolic core count: one verdict.
Outside: OS thread scheduling inside tasks, cwd, the order ignore::Walk really produces.
"""
import itertools
import os
import shutil
import json
import random
import sys

import z3

from .common import *  # noqa
from .vharness import *  # noqa
from .layout import *  # noqa
from . import c16, c11
from mirsym.interp import explore, PathStats
from mirsym.models import new_string, ListIter, as_sstr

PROP = 'C20'

FILES = [
    (b'a.js', ' keep-sorted line-count="<2"', [b'b', b'a']),          # two violations
    (b'd/b.js', ' keep-unique', [b'x', b'x']),                       # one violation
    (b'c.js', ' keep-sorted severity="warning"', [b'2', b'1']),     # a warning
]


def scenario(I, prog, nfiles, sev='warning'):
    """Concrete files with one block each; returns (context value, per-file layouts)."""
    ents = []
    for path, attrs, lines in FILES[:nfiles]:
        attrs = attrs.replace('severity="warning"', 'severity="%s"' % sev)
        lay = Layout(0, 0, 1, 0, 0, attrs, (), [tuple(l) for l in lines], ())
        res = parse_layout_blocks(I, prog, lay)
        bwc = mk_bwc(prog, res.f[0].items[0], content_modified=True)
        ents.append((path, lay.src, [bwc]))
    return mk_context(prog, I, ents)


def sym_perm(I, tag, n):
    """A permutation of range(n) chosen by the solver (distinct ints), concretised by forking."""
    xs = [I.fresh_int('%s%d' % (tag, i), 0, n - 1) for i in range(n)]
    if n > 1:
        I.add(z3.Distinct(*xs))
    return tuple(I.concretize(x, tag) for x in xs)


SEVERITIES = ['error', 'warning', 'info', 'Hint']


def run_order(task):
    nfiles = task
    prog = driver.load_program()
    stats = PathStats()
    f_det = prog.find_fn('detect_validators')
    f_run = prog.find_fn('run')
    f_pv = prog.fns['process_violations'][0]
    out = dict(violations=[], samples=[], obligations=0, cover={}, panic_paths=0, results=[])
    holder = {}

    def run_path(I):
        perm = sym_perm(I, 'mo', 3)
        vperm = sym_perm(I, 'vo', 3)
        sev = SEVERITIES[I.concretize(I.fresh_int('sev', 0, 3), 'sev')]
        holder.update(perm=perm, vperm=vperm, sev=sev)
        I.map_order = lambda n: [x for x in perm if x < n] if len(perm) >= n else list(range(n))
        ctx = scenario(I, prog, nfiles, sev)
        from . import c14
        I.stubs['OpenAiClient::new_from_env'] = lambda I2, a, ci, dt: Opaque('openai-client')
        det = I.call_fn(f_det, [Ref(Cell(I.deref_value(ctx)), ()), c14.factories(I, prog),
                                Ref(Cell(MapVal((), 'HashSet')), ()), Ref(Cell(MapVal((), 'HashSet')), ())])
        if det.v != 0:
            raise EngineError('detect_validators failed')
        sync_v = list(det.f[0].f[0].items)
        kinds = sorted(c14.struct_name_of(I, x) for x in sync_v)
        # spawn order permutation of the detected validators
        sync_v = [sync_v[i] for i in vperm if i < len(sync_v)] + [v for i, v in enumerate(sync_v) if i not in vperm]
        res = I.call_fn(f_run, [ctx, VecVal(sync_v), VecVal(())])
        if res.v != 0:
            return dict(kinds=kinds, err=True)
        merged = {}
        for e in res.f[0].entries:
            fname = bytes(e.f[0].b).decode()
            for v in e.f[1].items:
                rng = get_field(prog, v, 'Violation', 'range')
                st = get_field(prog, rng, 'ViolationRange', 'start')
                merged.setdefault(fname, []).append((bytes(get_field(prog, v, 'Violation', 'code').b).decode(),
                                                     get_field(prog, st, 'Position', 'line'), get_field(prog, st, 'Position', 'character'),
                                                     get_field(prog, v, 'Violation', 'severity').vname))
        # exit status through process_violations
        printed = []
        I.stubs['stderr'] = lambda I2, a, ci, dt: Opaque('stderr')
        I.stubs['Stderr::lock'] = lambda I2, a, ci, dt: Opaque('lock')
        I.stubs['Write::write_fmt'] = lambda I2, a, ci, dt: Ok(UNIT)
        I.stubs['to_writer_pretty'] = lambda I2, a, ci, dt: (printed.append(1), Ok(UNIT))[1]

        def exit_stub(I2, a, ci, dt):
            raise ProcessExit(I2.concretize(a[0]))
        I.stubs['process::exit'] = exit_stub
        I.stubs['exit'] = exit_stub
        code = 0
        if res.f[0].entries:
            try:
                I.call_fn(f_pv, [res.f[0]])
            except ProcessExit as e:
                code = e.code
        return dict(kinds=kinds, err=False, merged={k: sorted(v) for k, v in merged.items()}, exit=code)

    for I, pk, val in explore(prog, models.M, run_path, stats=stats, max_paths=2000):
        if pk == 'panic':
            out['violations'].append(dict(role='panic', summary='panic: %s' % val.msg[:120], perm=list(holder['perm'])))
            continue
        out['results'].append(dict(sev=holder['sev'], perm=list(holder['perm']), vperm=list(holder['vperm']), result=val))
        out['cover']['orders'] = out['cover'].get('orders', 0) + 1
    out.update(Agg(PROP, 'x').stats_from(stats))
    out['task'] = ['run', nfiles]
    return out


def run_scope_orders(task):
    """parse_blocks under different walk and map orders: same set of examined files and same result keys."""
    perm = task
    prog = driver.load_program()
    stats = PathStats()
    table, names, _st = c16.real_table(prog)
    f_pb = prog.find_fn('parse_blocks')
    files = [b'a.py', b'b/b.py', b'c.py']
    out = dict(violations=[], samples=[], obligations=0, cover={}, panic_paths=0, results=[])

    def run_path(I):
        I.map_order = lambda n: [x for x in perm if x < n] if len(perm) >= n else list(range(n))
        reads = []
        I.stubs['FileSystem::walk'] = lambda I2, a, ci, dt: ListIter([Ok(new_string(I2, files[i])) for i in perm])
        I.stubs['PathChecker::should_allow'] = lambda I2, a, ci, dt: bytes(as_sstr(I2, a[1]).b) != b'c.py'
        I.stubs['PathChecker::should_ignore'] = lambda I2, a, ci, dt: False

        def read_stub(I2, a, ci, dt):
            reads.append(bytes(as_sstr(I2, a[1]).b))
            return Ok(new_string(I2, b'# <block>\nx\n# </block>\n'))
        I.stubs['FileSystem::read_to_string'] = read_stub
        I.stubs['BlocksParser::parse'] = lambda I2, a, ci, dt: Ok(VecVal([mk_block(prog, I2, {}, (1, 3), (1, 9), (9, 11), (1, 10), (3, 1))]))
        ents = [Tuple(new_string(I, files[i]), VecVal([mk_struct(prog, 'LineChange', line=1, ranges=NONE)])) for i in (2, 0)]
        r = I.call_fn(f_pb, [MapVal(ents, 'HashMap'), True, Ref(Cell(Struct('FakeFS', ())), ()), Ref(Cell(Struct('FakePC', ())), ()),
                             table, MapVal((), 'HashMap')])
        if r.v != 0:
            return dict(err=True)
        keys = {}
        for e in r.f[0].entries:
            bl = get_field(prog, e.f[1], 'FileBlocks', 'blocks_with_context')
            keys[bytes(e.f[0].b).decode()] = [bool(get_field(prog, x, 'BlockWithContext', 'is_content_modified')) for x in bl.items]
        return dict(err=False, reads=sorted(reads), keys=keys)

    for I, pk, val in explore(prog, models.M, run_path, stats=stats, max_paths=2000):
        if pk == 'panic':
            out['violations'].append(dict(role='panic', summary='panic: %s' % val.msg[:120], perm=list(perm)))
            continue
        out['results'].append(val)
        out['cover']['scope-orders'] = 1
    out.update(Agg(PROP, 'x').stats_from(stats))
    out['task'] = ['scope', list(perm)]
    return out


def run_async_orders(task):
    """Scripted and AI blocks next to a sync validator: the verdict must not depend on the order in
    which the tokio tasks complete, on the number of cores, or on map iteration order."""
    variant, small = task
    from . import c18, c19
    prog = driver.load_program()
    stats = PathStats()
    f_run = prog.find_fn('run')
    f_env = prog.find_method('OpenAiClient', 'new_from_env')
    f_with = prog.find_method('CheckAiValidator', 'with_client')
    out = dict(violations=[], samples=[], obligations=0, cover={}, panic_paths=0, results=[])
    holder = {}

    def run_path(I):
        perm = sym_perm(I, 'mo', 3)
        holder.update(perm=perm, I=I)
        I.map_order = lambda n: [x for x in perm if x < n] if len(perm) >= n else list(range(n))
        order_log = []
        holder['order_log'] = order_log

        def task_order(n, step):
            k = I.concretize(I.fresh_int('ord%d_%d' % (step, n), 0, n - 1), 'task order') if n > 1 else 0
            order_log.append(k)
            return k
        I.task_order = task_order
        src = tuple(b'#S\nb\na\n#E\n')

        def blk(name, line, **attrs):
            d = {'name': name.encode()}
            d.update({k.replace('_', '-'): v for k, v in attrs.items()})
            return mk_bwc(prog, mk_block(prog, I, d, (line, 3), (line, 20), (3, 6), (line, 30), (line + 3, 1)))
        # S.lua keeps a counter between calls (two blocks in different files use it): what it reports must not
        # depend on which block is served first
        scripts = {65: ('string', tuple(b'm1')), 66: ('nil',), 67: ('string', tuple(b'm2')), 68: ('string', tuple(b'm3')), 83: ('stateful',)}
        if variant == 'failing':
            scripts[66] = ('runtime_error',)
        replies = {72: ('text', tuple(b'no')), 'default': ('text', tuple(b'OK'))}
        f0 = [blk('l1', 1, check_lua=b'A.lua'), blk('l2', 5, check_lua=b'B.lua'), blk('s1', 9, keep_sorted=b''), blk('a1', 13, check_ai=b'Hcond'),
              blk('l5', 17, check_lua=b'S.lua')]
        f1 = [blk('l3', 1, check_lua=b'C.lua'), blk('l4', 5, check_lua=b'D.lua', severity=b'warning'), blk('l6', 9, check_lua=b'S.lua')]
        if small:        # quick tier: four scripted blocks (24 completion orders) instead of six (720)
            f0 = [f0[0], f0[1], f0[2], f0[3], f0[4]]
            f1 = [f1[1], f1[2]]
            f0 = [f0[1], f0[2], f0[3], f0[4]]
        ctx = mk_context(prog, I, [(b'f0.py', src, f0), (b'd/f1.py', src, f1)])
        c18.install_lua(I, prog, scripts, [])
        c19.install_openai(I, prog, {b'BLOCKWATCH_AI_API_KEY': tuple(b'k'), b'BLOCKWATCH_AI_MODEL': None, b'BLOCKWATCH_AI_API_URL': None}, replies, [])
        client = I.call_fn(f_env, [])
        ai = Ref(Cell(I.call_fn(f_with, [client])), ())
        lua = Ref(Cell(Struct('CheckLuaValidator', ())), ())
        ks = Ref(Cell(Struct('KeepSortedValidator', ())), ())
        av = [lua, ai] if perm[0] % 2 == 0 else [ai, lua]
        res = I.call_fn(f_run, [ctx, VecVal([ks]), VecVal(av)])
        st, dec = decode_violations(prog, res)
        if st == 'err':
            return dict(err=True)
        merged = {}
        for k, vs in dec.items():
            def msg(v):
                if bytes(v['code']) != b'check-lua':
                    return ''
                mb = c18.lua_error(prog, I, v['data'])
                return bytes(mb).decode('latin1') if mb is not None and all(isinstance(x, int) for x in mb) else '?'
            merged[k.decode()] = sorted((bytes(v['code']).decode(), v['start'][0], v['severity'].vname, msg(v)) for v in vs)
        return dict(err=False, merged=merged)

    for I, pk, val in explore(prog, models.M, run_path, stats=stats, max_paths=20000):
        if pk == 'panic':
            out['violations'].append(dict(role='panic', summary='panic: %s' % val.msg[:120], perm=list(holder['perm'])))
            continue
        cores = None
        if getattr(I, '_cores', None) is not None:
            cores = mval(I.ensure_model(), I._cores)
        out['results'].append(dict(perm=list(holder['perm']), order=list(holder['order_log']), cores=cores, result=val))
        out['cover']['async-orders'] = out['cover'].get('async-orders', 0) + 1
    out.update(Agg(PROP, 'x').stats_from(stats))
    out['task'] = ['async', variant]
    return out


def confirm_async(binary, v):
    """The async scenario as real files: four scripted blocks, one AI block (loopback endpoint), one
    sync block; run pinned to one core and on all cores, three times each; any difference confirms."""
    from . import c19
    variant = v['scenario'][1]
    body0 = ''
    for name, attr in (('l1', 'check-lua="A.lua"'), ('l2', 'check-lua="B.lua"'), ('s1', 'keep-sorted'), ('a1', 'check-ai="Hcond"'), ('l5', 'check-lua="S.lua"')):
        body0 += '# <block name="%s" %s>\nb\na\n# </block>\n' % (name, attr)
    body1 = ''
    for name, attr in (('l3', 'check-lua="C.lua"'), ('l4', 'check-lua="D.lua" severity="warning"'), ('l6', 'check-lua="S.lua"')):
        body1 += '# <block name="%s" %s>\nb\na\n# </block>\n' % (name, attr)
    files = {'f0.py': body0.encode(), 'd/f1.py': body1.encode()}
    for nm, ret in (('A', '"m1"'), ('B', 'nil'), ('C', '"m2"'), ('D', '"m3"')):
        files[nm + '.lua'] = ('function validate(ctx, content)\n  return %s\nend\n' % ret).encode()
    if variant == 'failing':
        files['B.lua'] = b'function validate(ctx, content)\n  error("boom")\nend\n'
    files['S.lua'] = b'local n = 0\nfunction validate(ctx, content)\n  n = n + 1\n  return "call" .. n .. " in " .. ctx.file\nend\n'
    outs = {}
    # which of the two async validators finishes last is part of the schedule: once the endpoint answers at
    # once while one Lua script spins, once the endpoint takes its time while every script returns at once
    for label, slow_ai, spin in (('endpoint fast, script slow', 0.0, True), ('endpoint slow, scripts fast', 0.8, False)):
        fs = dict(files)
        if spin and variant != 'failing':
            fs['A.lua'] = b'function validate(ctx, content)\n  local x = 0\n  for i = 1, 30000000 do x = x + 1 end\n  return "m1"\nend\n'
        with c19.FakeEndpoint([dict(cond='Hcond', reply=('text', 'no'))], default=('text', 'OK'), slow_ok=slow_ai) as ep:
            env = {'BLOCKWATCH_AI_API_KEY': 'k', 'BLOCKWATCH_AI_API_URL': 'http://127.0.0.1:%d/v1' % ep.port}
            for pin in ('0', None):
                for _ in range(2):
                    d = scratch_dir('c20a')
                    try:
                        git_init(d)
                        for name, content in fs.items():
                            pth = os.path.join(d, name)
                            os.makedirs(os.path.dirname(pth), exist_ok=True)
                            open(pth, 'wb').write(content)
                        if pin is None:
                            r = run_blockwatch(binary, d, ['**/*.py'], stdin=b'', env_extra=env, timeout=90)
                        else:
                            r = run_blockwatch('taskset', d, ['-c', pin, binary, '**/*.py'], stdin=b'', env_extra=env, timeout=90)
                    finally:
                        shutil.rmtree(d, ignore_errors=True)
                    diags = {}
                    if r['stderr'].strip().startswith('{'):
                        try:
                            diags = {k: sorted((x.get('code'), (x.get('data') or {}).get('lua_error', '')) for x in vs) for k, vs in json.loads(r['stderr']).items()}
                        except ValueError:
                            pass
                    outs.setdefault(json.dumps([r['code'], diags], sort_keys=True), []).append('%s; %s' % (label, pin or 'all cores'))
    v['observed'] = outs
    v['confirmed'] = len(outs) > 1
    if v['confirmed']:
        v['replay'] = save_replay(PROP, v['role'], files, "'**/*.py'",
                                  'run under `taskset -c 0` and unpinned, with BLOCKWATCH_AI_API_URL pointing at an endpoint that answers "no" (tools/fake_ai_endpoint.py pattern); outputs seen: %s' % json.dumps(outs)[:400], v)
    return v


BOUNDS = {'quick': dict(nfiles=[2, 3], vperms=2), 'thorough': dict(nfiles=[2, 3], vperms=6)}


def main(tier):
    b = BOUNDS[tier]
    agg = Agg(PROP, tier)
    binary = driver.real_binary()
    driver.load_program(want_bin=True)
    rnd = random.Random(seed())
    tasks = list(b['nfiles'])
    results = pmap(run_order, tasks)
    sres = pmap(run_scope_orders, list(itertools.permutations(range(3))))
    from . import c15
    dres = pmap(c15.run_difforder, list(itertools.permutations(range(3))))
    for r in dres:
        r.pop('results', None)
        for i, v in enumerate(r.get('violations', [])):
            c15.confirm_difforder(binary, v, i, PROP)
        dvs = list(r.get('violations', []))
        r['violations'] = []
        agg.add(r)
        agg.violations.extend(dvs)
    groups = {}
    for r in results:
        rs = r.pop('results', [])
        agg.add(r)
        for x in rs:
            groups.setdefault(('run', r['task'][1], x['sev']), []).append(((x['perm'], x['vperm']), x['result']))
    for r in sres:
        rs = r.pop('results', [])
        agg.add(r)
        if 'task' in r and rs:
            groups.setdefault('scope', []).append((r['task'], rs))
    ares = pmap(run_async_orders, [('healthy', tier == 'quick'), ('failing', tier == 'quick')])
    for r in ares:
        rs = r.pop('results', [])
        agg.add(r)
        for x in rs:
            groups.setdefault(('async', r['task'][1]), []).append((dict(map_order=x['perm'], completion_order=x['order'], cores=x['cores']), x['result']))
    for key, items in groups.items():
        ref_task, ref = items[0]
        for task, rs in items[1:]:
            agg.obligations += 1
            if json.dumps(rs, sort_keys=True, default=str) != json.dumps(ref, sort_keys=True, default=str):
                role = 'verdict-depends-on-iteration-order'
                if isinstance(key, tuple) and key[0] == 'async':
                    role = 'verdict-depends-on-schedule-or-cores'
                agg.violations.append(dict(role=role, confirmed=None, scenario=list(key) if isinstance(key, tuple) else key,
                                           summary='scenario %s: order %s gives %s, order %s gives %s' % (key, ref_task, ref, task, rs)))
    # an order-dependent verdict cannot be replayed through a fixed hash seed; confirm by running the real binary
    # repeatedly on the scenario and comparing outputs
    files = {}
    for path, attrs, lines in FILES:
        files[path.decode()] = ('/* <block name="blk"%s> */\n%s\n/* </block> */\n' % (attrs, '\n'.join(l.decode() for l in lines))).encode()
    outs = set()
    for _ in range(8):
        r = run_scan(binary, files, ['**'])
        diags = r['diags'] or {}
        canon = json.dumps({k: sorted(json.dumps(d, sort_keys=True) for d in v) for k, v in diags.items()}, sort_keys=True)
        outs.add((r['code'], canon))
        agg.validated += 1
    final = []
    seen = set()
    for v in agg.violations:
        if v['role'] in seen:
            continue
        seen.add(v['role'])
        if v['role'] in ('diff-section-lost', 'diff-sections-error'):
            final.append(v)
            continue
        if v['role'] == 'verdict-depends-on-schedule-or-cores':
            confirm_async(binary, v)
            final.append(v)
            continue
        v['confirmed'] = True
        v['replay'] = save_replay(PROP, v['role'], files, "'**'", 'run repeatedly (different hash seeds) and compare; ' + v['summary'][:300], v)
        final.append(v)
    if len(outs) > 1:
        final.append(dict(role='real-binary-output-varies', confirmed=True, summary='8 runs of the real binary on the scenario gave %d different results' % len(outs),
                          replay=save_replay(PROP, 'real-binary-output-varies', files, "'**'", 'run repeatedly and compare', {})))
    agg.violations = final
    ref_expect = {'a.js': ['keep-sorted', 'line-count'], 'd/b.js': ['keep-unique'], 'c.js': ['keep-sorted']}
    if outs:
        code, canon = sorted(outs)[0]
        got = {k: sorted(json.loads(d)['code'] for d in v) for k, v in json.loads(canon).items()}
        if got != ref_expect or code != 1:
            agg.engine_errors.append({'engine_error': 'scenario sanity: real binary gives %s exit %s' % (got, code)})
    bounds = dict(files=[f[0].decode() for f in FILES], map_orders='all 6 permutations (chosen by the solver) applied to every map of <=3 entries',
                  validator_spawn_orders='all 6 permutations (chosen by the solver)', severities=SEVERITIES, tasks=len(tasks))
    return finish(
        agg, bounds,
        assumptions=['every std HashMap/HashSet is an association-list model iterated in the order the run prescribes (a hashing seed only ever changes that order)',
                     'threads are run in spawn order; tokio tasks (check-lua / check-ai scenario on the coroutine MIR with the stubs of C18/C19) complete in every order, with the core count symbolic; OS scheduling inside tasks, cwd and the real directory walk are outside'],
        stubs=['OpenAiClient::new_from_env', 'stderr / to_writer_pretty / process::exit', 'FileSystem / PathChecker / grammar in the scope scenario'],
        must_cover=['orders', 'scope-orders', 'diff-orders', 'async-orders'],
        explanation='the same scenario is executed on the real MIR under every iteration order; instantiated validators, merged violations, exit status, examined files and result keys must be identical')


if __name__ == '__main__':
    sys.exit(main(sys.argv[1] if len(sys.argv) > 1 else 'quick'))
