"""Harness for the per-language comment normaliser closures (used by C03 and C04).

The closures' MIR is executed on a model `Node` (kind + byte range) and a symbolic source
text.  Only the *opening* delimiter the grammar guarantees is assumed; closing delimiters are
not (error recovery hands over unterminated nodes).
"""
import re

import z3

from .common import *  # noqa
from .vharness import *  # noqa
from mirsym.models import reg, new_string, as_sstr
from mirsym.interp import explore, PathStats


@reg('Node::kind')
def _node_kind(I, a, ci, dt):
    return I.deref_value(a[0]).f[0]


@reg('Node::byte_range')
def _node_byte_range(I, a, ci, dt):
    n = I.deref_value(a[0])
    return Struct('Range', (n.f[1], n.f[2]))


@reg('Node::start_byte')
def _node_start_byte(I, a, ci, dt):
    return I.deref_value(a[0]).f[1]


@reg('Node::end_byte')
def _node_end_byte(I, a, ci, dt):
    return I.deref_value(a[0]).f[2]


# closure -> list of (node kind, capture values, opener contract, alphabet, extensions that route to it)
def closure_table(prog):
    tab = []

    def find(name):
        lst = prog.fns.get(name)
        return lst[0] if lst else None
    C_ALPHA = [ord(c) for c in '/* \na<']
    LINE_ALPHA = [ord(c) for c in '/!# \na<-']
    XML_ALPHA = [ord(c) for c in '<!-> \na']
    MD_ALPHA = [ord(c) for c in '[]/:#("\') a\n']
    entries = [
        ('c_style_comments_parser::{closure#0}', dict(comment_node_kind=b'comment'), [
            (b'comment', b'/*', C_ALPHA, ['c', 'cpp', 'go', 'java', 'js', 'kt', 'swift', 'ts', 'tsx', 'h', 'cc']),
            (b'comment', b'//', LINE_ALPHA, ['c', 'js', 'go']),
            # comment lines that begin with multi-byte whitespace (byte index != char index)
            (b'comment', '/*\n\u00a0'.encode('utf-8'), C_ALPHA, ['c', 'js', 'go']),
            (b'comment', '/* a\n\u3000\u00a0'.encode('utf-8'), C_ALPHA, ['c', 'js'])]),
        ('c_style_line_and_block_comments_parser::{closure#0}',
         dict(line_comment_node_kind=b'line_comment', block_comment_node_kind=b'block_comment'), [
            (b'block_comment', b'/*', C_ALPHA, ['java', 'kt']),
            (b'line_comment', b'//', LINE_ALPHA, ['java', 'kt'])]),
        ('python_style_comments_parser::{closure#0}', dict(comment_node_kind=b'comment'), [
            (b'comment', b'#', LINE_ALPHA, ['py', 'rb', 'toml', 'yaml', 'mk'])]),
        ('xml_style_comments_parser::{closure#0}', dict(comment_node_kind=b'comment'), [
            (b'comment', b'<!--', XML_ALPHA, ['html', 'xml'])]),
        ('rust::comments_parser::{closure#0}', {}, [
            (b'block_comment', b'/*', C_ALPHA, ['rs']), (b'line_comment', b'//', LINE_ALPHA, ['rs']),
            (b'block_comment', '/*\n\u00a0'.encode('utf-8'), C_ALPHA, ['rs'])]),
        ('php::comments_parser::{closure#0}', {}, [
            (b'comment', b'/*', C_ALPHA, ['php']), (b'comment', b'//', LINE_ALPHA, ['php']), (b'comment', b'#', LINE_ALPHA, ['php'])]),
        ('sql::comments_parser::{closure#0}', {}, [
            (b'marginalia', b'/*', C_ALPHA, ['sql']), (b'comment', b'--', LINE_ALPHA, ['sql'])]),
        ('c_sharp::comments_parser::{closure#0}', {}, [
            (b'comment', b'/*', C_ALPHA, ['cs']), (b'comment', b'//', LINE_ALPHA, ['cs'])]),
        ('css::comments_parser::{closure#0}', {}, [(b'comment', b'/*', C_ALPHA, ['css'])]),
        ('bash::comments_parser::{closure#0}', {}, [(b'comment', b'#', LINE_ALPHA, ['sh', 'bash'])]),
        ('markdown_comments_parser::{closure#0}', {}, [
            (b'link_reference_definition', b'[', MD_ALPHA, ['md']),
            # the title part: every text after the marker (closing before opening delimiters included)
            (b'link_reference_definition', b'[//]:', MD_ALPHA, ['md']),
            (b'link_reference_definition', b'[//]: <', [ord(c) for c in '()"\'>a '], ['md']),
            # a multi-byte character before the comment marker (byte index != char index)
            (b'link_reference_definition', '[\u00e9]: <[//]:'.encode('utf-8'), MD_ALPHA, ['md'])]),
    ]
    for name, caps, cases in entries:
        f = find(name)
        if f is None:
            raise EngineError('normaliser closure %s not found in the MIR dump' % name)
        tab.append((name, f, caps, cases))
    return tab


def closure_env(prog, f, caps, I):
    """Capture struct in the order the closure's debug info gives."""
    order = {}
    for m in re.finditer(r'debug (\w+) => [^;]*?\(\*?_1\)?\.(\d+): ([^;]*?)\)*;', f.text):
        order[int(m.group(2))] = (m.group(1), m.group(3))
    if set(n for n, _t in order.values()) != set(caps.keys()):
        raise EngineError('closure %s captures %r, harness provides %r' % (f.name, order, list(caps.keys())))
    vals = []
    for i in range(len(order)):
        n, t = order[i]
        v = SStr(tuple(caps[n]), -1, 0)
        vals.append(v)
    return Ref(Cell(Struct('closure', vals)), ())


def run_normaliser(task):
    """task = (closure name, case index, total length, want_sample)"""
    cname, case_i, L, pre, want_sample = task
    prog = driver.load_program()
    stats = PathStats()
    out = dict(violations=[], samples=[], obligations=0, cover={}, panic_paths=0, panics=[])
    tab = {t[0]: t for t in closure_table(prog)}
    _n, f, caps, cases = tab[cname]
    kind, opener, alphabet, exts = cases[case_i]
    holder = {}
    roles = set()

    def run_path(I):
        body = tuple(I.fresh_byte('s%d' % i, alphabet) for i in range(L - len(opener)))
        text = tuple(opener) + body
        # the node sits inside a larger source: `pre` bytes before it, two after
        src = tuple(b'x' * pre) + text + tuple(b'\ny')
        holder['text'] = text
        holder['src'] = src
        node = Struct('Node', (SStr(tuple(kind), -1, 0), pre, pre + len(text)))
        env = closure_env(prog, f, caps, I)
        return I.call_fn(f, [env, Ref(Cell(node), ()), SStr(src, I.new_alloc(), 0)])

    def viol(I, cond, role, summary):
        out['obligations'] += 1
        if role in roles:
            return
        if I.check(cond):
            roles.add(role)
            m = I.solver.model()
            out['violations'].append(dict(role=role, summary=summary, closure=cname, kind=kind.decode(),
                                          text=model_bytes(m, holder['text']).decode('latin1'), exts=exts))

    for I, pk, val in explore(prog, models.M, run_path, stats=stats, max_paths=400000):
        text = holder['text']
        if pk == 'panic':
            out['panic_paths'] += 1
            m = I.ensure_model()
            out['panics'].append(dict(closure=cname, kind=kind.decode(), exts=exts, msg=val.msg[:160],
                                      text=model_bytes(m, text).decode('latin1')))
            continue
        if val.v == 0:
            out['cover']['skipped'] = out['cover'].get('skipped', 0) + 1
            continue
        res = val.f[0].b
        if len(res) != len(text):
            viol(I, z3.BoolVal(True), 'length-changed', 'normalised text has %d bytes, the comment %d' % (len(res), len(text)))
        else:
            diffs = []
            for a, b in zip(text, res):
                same = (a == b)
                if same is True:
                    continue
                blank = (b == 32)
                keepnl = z3.Not(z3.Xor(a == 10, b == 10)) if not (isinstance(a, int) and isinstance(b, int)) else ((a == 10) == (b == 10))
                ok = z3.And(z3.Or(same, blank), keepnl) if not isinstance(same, bool) or not isinstance(blank, bool) else ((same or blank) and keepnl)
                if ok is True:
                    continue
                diffs.append(z3.Not(ok) if not isinstance(ok, bool) else z3.BoolVal(not ok))
            if diffs:
                viol(I, zor(diffs), 'bytes-rewritten', 'a byte is neither kept nor blanked (or a line break moved)')
            # which bytes were blanked, and are they the delimiters of this comment form?
            B = [i for i, (a, b) in enumerate(zip(text, res)) if isinstance(b, int) and b == 32 and not (isinstance(a, int) and a == 32)]

            def eqc(x, c):
                return (x == c) if not isinstance(x, int) else z3.BoolVal(x == c)
            n = len(text)
            if opener == b'/*':
                if not (0 in B and 1 in B):
                    viol(I, z3.BoolVal(True), 'opener-not-blanked', 'the /* delimiter is not blanked')
                closer = None
                for i in B:
                    if i >= 2 and i + 1 in B and i + 1 < n:
                        closer = i          # candidate: two adjacent blanked bytes = "*/"
                for i in B:
                    if i >= 2:
                        viol(I, z3.And(z3.Not(eqc(text[i], 42)), z3.Not(eqc(text[i], 47))), 'non-delimiter-byte-blanked',
                             'a byte that is neither * nor / was blanked')
                later = [z3.And(eqc(text[j], 42), eqc(text[j + 1], 47)) for j in range((closer + 1) if closer is not None else 2, n - 1)]
                if later:
                    viol(I, zor(later), 'wrong-closing-delimiter-blanked' if closer is not None else 'closing-delimiter-kept',
                         'the blanked */ is not the last one of the comment' if closer is not None else 'a closing */ exists but was not blanked')
            elif opener == b'<!--':
                if not all(k in B for k in range(4)):
                    viol(I, z3.BoolVal(True), 'opener-not-blanked', 'the <!-- delimiter is not blanked')
                tail = [i for i in B if i >= 4]
                if tail:
                    c = min(tail)
                    later = [z3.And(eqc(text[j], 45), eqc(text[j + 1], 45), eqc(text[j + 2], 62)) for j in range(c + 1, n - 2)]
                    if later:
                        viol(I, zor(later), 'wrong-closing-delimiter-blanked', 'the blanked --> is not the last one of the comment')
            elif kind == b'link_reference_definition' and B:
                c = max(B)
                # the last blanked byte is the title's closing delimiter: no later occurrence of that delimiter may exist
                later = [z3.And(text[j] == text[c], zor([eqc(text[c], q) for q in (41, 34, 39)])) for j in range(c + 1, n)
                         if not (isinstance(text[j], int) and isinstance(text[c], int) and text[j] != text[c])]
                if later:
                    viol(I, zor(later), 'wrong-closing-delimiter-blanked', 'the blanked closing delimiter of the title is not the last one')
            elif opener in (b'//', b'#', b'--'):
                if any(i >= 3 for i in B):
                    viol(I, z3.BoolVal(True), 'non-delimiter-byte-blanked', 'a byte beyond the line-comment marker was blanked')
                if B and not all(k in B for k in range(len(opener))):
                    viol(I, z3.BoolVal(True), 'opener-not-blanked', 'the comment marker is only partly blanked')
        out['cover']['normalised'] = out['cover'].get('normalised', 0) + 1
        if want_sample and len(out['samples']) < 2:
            m = I.ensure_model()
            out['samples'].append(dict(closure=cname, kind=kind.decode(), exts=exts, text=model_bytes(m, text).decode('latin1'),
                                       out=model_bytes(m, res).decode('latin1')))
    out.update(Agg('C04', 'x').stats_from(stats))
    return out


def normaliser_tasks(prog, lmax, pre_values=(0, 3)):
    tasks = []
    for name, f, caps, cases in closure_table(prog):
        for ci, (kind, opener, alphabet, exts) in enumerate(cases):
            top = max(lmax, len(opener) + 5)
            for L in range(len(opener), top + 1):
                for pre in pre_values:
                    if pre and L != top:
                        continue
                    tasks.append((name, ci, L, pre, L % 2 == 0))
    return tasks


def try_panic_on_binary(binary, text, exts):
    """Candidate files for each extension routed to the normaliser; True if one crashes/hangs."""
    t = text.encode('latin1')
    cands = [t, t + b'\n', b'x = 1\n' + t + b'\n', t + b'\nrest\n', t + b' (y)\n', t + b'> (y)\n', t + b'>\n', t + b'>\n\nrest\n']
    # a text that the grammar only takes for a comment once it is closed: the same text, closed later on
    # (the panic must then come from the first part: the closing delimiter is found in it already)
    cands += [t + b' x -->\n', b'<a>' + t + b' x --></a>\n', t + b' x */\n', t + b' x */ y\n']
    for ext in exts:
        for c in cands:
            r = run_scan(binary, {'f.' + ext: c}, ['**'], extra_args=['list'])
            if r['code'] == 'timeout' or r['code'] not in (0, 1) or 'panicked' in r['stderr']:
                return dict(ext=ext, content=c.decode('latin1'), code=r['code'], stderr=r['stderr'][-300:])
    return None
