"""C11 — exit status and report follow the diagnostics and their severity.

Encoded (real MIR): main::process_violations (bin dump), Violation::as_simple_diagnostic,
SimpleDiagnostic::severity, validators::run (sync path), run_sync_validators (+closure),
Block::severity (+closure), strum-generated BlockSeverity::from_str.
Symbolic: the severity of every violation, which validator reports on which file, whether a
validator fails, every byte of a `severity` attribute.  Enumerated: hash-map and validator orders.
Oracle: exit(1) iff some diagnostic has severity Error; the printed map holds every violation
exactly once under its file; the merged map is the disjoint union of the validators' maps;
any validator error is an error of the run; severity strings parse case-insensitively.
"""
import itertools
import json
import random
import sys

import z3

from .common import *  # noqa
from .vharness import *  # noqa
from mirsym.interp import explore, PathStats
from mirsym.models import new_string, as_sstr

PROP = 'C11'
SEVS = ['Error', 'Warning', 'Info', 'Hint']
SEV_ALPHABET = sorted(set(ord(c) for c in 'errorwarninginfohintERWIH ') | {32})


def mk_violation(prog, I, vid, sev_variant, code=None):
    sev = Enum('BlockSeverity', prog.variant_index('BlockSeverity', sev_variant), sev_variant)
    return mk_struct(prog, 'Violation',
                     range=mk_struct(prog, 'ViolationRange', start=position(prog, 1, 1), end=position(prog, 1, 2)),
                     code=new_string(I, (code or 'v%d' % vid).encode()), message=new_string(I, b'm%d' % vid),
                     severity=sev, data=NONE)


def pick_severity(I, name):
    """Symbolic severity: a fresh int 0..3 concretised by forking."""
    x = I.fresh_int(name, 0, 3)
    return SEVS[I.concretize(x, name)]


def run_process(task):
    shape, order, want_sample = task[:3]    # shape: violations per file, e.g. (2, 1)
    twin = task[3] if len(task) > 3 else False      # every violation of a file carries the same code (and range)
    prog = driver.load_program()
    stats = PathStats()
    lst = prog.fns.get('process_violations')
    if not lst:
        raise EngineError('process_violations not in the bin MIR dump')
    f = lst[0]
    out = dict(violations=[], samples=[], obligations=0, cover={}, panic_paths=0)
    holder = {}
    roles = set()

    def run_path(I):
        I.map_order = lambda n: [x for x in order if x < n] if len(order) >= n else list(range(n))
        ents = []
        sevs = {}
        vid = 0
        for fi, nv in enumerate(shape):
            vs = []
            for _ in range(nv):
                s = pick_severity(I, 'sev%d' % vid)
                sevs[vid] = (fi, s)
                vs.append(mk_violation(prog, I, vid, s, 'same' if twin else None))
                vid += 1
            ents.append(Tuple(new_string(I, b'f%d.py' % fi), VecVal(vs)))
        holder['sevs'] = sevs
        printed = []
        holder['printed'] = printed
        I.stubs['stderr'] = lambda I2, a, ci, dt: Opaque('stderr')
        I.stubs['Stderr::lock'] = lambda I2, a, ci, dt: Opaque('stderrlock')
        I.stubs['Write::write_fmt'] = lambda I2, a, ci, dt: Ok(UNIT)

        def writer(I2, a, ci, dt):
            printed.append(I2.deref_value(a[1]))
            return Ok(UNIT)
        I.stubs['to_writer_pretty'] = writer
        I.stubs['serde_json::to_writer_pretty'] = writer

        def exit_stub(I2, a, ci, dt):
            raise ProcessExit(I2.concretize(a[0]))
        I.stubs['process::exit'] = exit_stub
        I.stubs['exit'] = exit_stub
        return I.call_fn(f, [MapVal(ents, 'HashMap')])

    def viol(role, summary):
        out['obligations'] += 1
        if role in roles:
            return
        roles.add(role)
        out['violations'].append(dict(role=role, summary=summary, shape=list(shape), order=list(order), twin=twin,
                                      severities=[[fi, s] for fi, s in holder['sevs'].values()]))

    for I, pk, val in explore(prog, models.M, run_path, stats=stats, max_paths=100000):
        if pk == 'panic':
            out['panic_paths'] += 1
            viol('panic', 'panic: %s' % val.msg[:120])
            continue
        sevs = holder['sevs']
        want_exit = any(s == 'Error' for _f, s in sevs.values())
        got_exit = (pk == 'exit' and val.code == 1)
        out['obligations'] += 1
        if pk == 'exit' and val.code != 1:
            viol('odd-exit-code', 'process::exit(%r)' % (val.code,))
        if pk == 'ok' and val.v != 0:
            viol('unexpected-error', 'process_violations returned Err')
        if got_exit != want_exit:
            viol('exit-status-disagrees-with-severities',
                 'severities %s: %s' % ([s for _f, s in sevs.values()], 'exit 1' if got_exit else 'exit 0'))
        # report: one map, every violation exactly once under its file
        printed = holder['printed']
        if len(printed) != 1:
            viol('report-not-printed-once', 'diagnostics written %d times' % len(printed))
        else:
            seen = {}
            for e in printed[0].entries:
                fname = bytes(e.f[0].b).decode()
                for jv in e.f[1].items:
                    diag = jv.data if isinstance(jv, Opaque) else None
                    if diag is None:
                        viol('report-entry-opaque', 'unexpected report entry %r' % (jv,))
                        continue
                    code = bytes(as_sstr(I, get_field(prog, diag, 'SimpleDiagnostic', 'message')).b).decode()
                    sev = get_field(prog, diag, 'SimpleDiagnostic', 'severity')
                    seen.setdefault(code, []).append((fname, sev.vname))
            for vid, (fi, s) in sevs.items():
                got = seen.get('m%d' % vid, [])
                if got != [('f%d.py' % fi, s)]:
                    viol('report-does-not-match-violations', 'violation v%d (%s in f%d.py) appears as %s' % (vid, s, fi, got))
            if len(seen) != len(sevs):
                viol('report-does-not-match-violations', 'report has %d diagnostics for %d violations' % (len(seen), len(sevs)))
        out['cover']['exit1' if want_exit else 'exit0'] = out['cover'].get('exit1' if want_exit else 'exit0', 0) + 1
        if twin:
            out['cover']['same code and range'] = 1
        if want_sample and len(out['samples']) < 2:
            out['samples'].append(dict(severities=[[fi, s] for fi, s in sevs.values()], exit=1 if got_exit else 0))
    out.update(Agg(PROP, 'x').stats_from(stats))
    return out


def run_merge(task):
    nvalidators, nfiles, vorder, order, want_sample = task[:5]
    nasync = task[5] if len(task) > 5 else 0
    prog = driver.load_program()
    stats = PathStats()
    f_run = prog.find_fn('run')
    out = dict(violations=[], samples=[], obligations=0, cover={}, panic_paths=0)
    holder = {}
    roles = set()

    def run_path(I):
        I.map_order = lambda n: [x for x in order if x < n] if len(order) >= n else list(range(n))
        plan = {}
        fails = {}
        vid = 0
        for v in range(nvalidators):
            fails[v] = I.branch(I.fresh_bool('fail%d' % v))
            plan[v] = {}
            for fi in range(nfiles):
                if I.branch(I.fresh_bool('rep_%d_%d' % (v, fi))):
                    # two violations per (validator, file) only in the smaller shapes: with 3 validators x 3 files the
                    # path count (54^3 x the twin choice) passes the path bound
                    n = 2 if (nvalidators * nfiles < 9 and I.branch(I.fresh_bool('two_%d_%d' % (v, fi)))) else 1
                    plan[v][fi] = list(range(vid, vid + n))
                    vid += n
        # twins: two violations with the same code and the same range in one file (two nested blocks that
        # fail on the same line) are still two violations
        codes = {}
        if len(plan) >= 2 and 0 in plan[0] and 0 in plan[1] and I.branch(I.fresh_bool('twin')):
            codes[plan[1][0][0]] = 'v%d' % plan[0][0][0]
            out['cover']['twin violations'] = 1
        holder.update(plan=plan, fails=fails, codes=codes)

        def validate_stub(I2, a, ci, dt):
            me = I2.deref_value(a[0])
            while isinstance(me, Ref):
                me = I2.deref_value(me)
            v = me.f[0]
            if fails[v]:
                return Err(Opaque('anyhow', {'ctx': [], 'src': 'validator %d failed' % v}))
            ents = []
            for fi, ids in plan[v].items():
                ents.append(Tuple(new_string(I2, b'f%d.py' % fi), VecVal([mk_violation(prog, I2, i, 'Error', codes.get(i)) for i in ids])))
            return Ok(MapVal(ents, 'HashMap'))

        I.stubs['ValidatorSync::validate'] = validate_stub
        # the last `nasync` validators are async ones: their validate() returns a boxed future; the
        # order in which the tokio tasks complete is a forked choice (mirsym/asyncmodels.py)
        from mirsym.asyncmodels import ReadyFut
        I.stubs['ValidatorAsync::validate'] = lambda I2, a, ci, dt: Ref(Cell(ReadyFut(validate_stub(I2, a, ci, dt))), ())
        I.task_order = lambda n, step: I.concretize(I.fresh_int('ord%d_%d' % (step, n), 0, n - 1), 'task order') if n > 1 else 0
        ctx = mk_context(prog, I, [])
        vs = [Ref(Cell(Struct('FakeValidator', (v,))), ()) for v in vorder]
        k = len(vs) - nasync
        if nasync:
            out['cover']['merge-async'] = 1
        return I.call_fn(f_run, [ctx, VecVal(vs[:k]), VecVal(vs[k:])])

    def viol(role, summary):
        out['obligations'] += 1
        if role in roles:
            return
        roles.add(role)
        out['violations'].append(dict(role=role, summary=summary, plan={str(k): {str(a): b for a, b in v.items()} for k, v in holder['plan'].items()},
                                      fails=holder['fails'], vorder=list(vorder), order=list(order), nasync=nasync, twin=bool(holder.get('codes'))))

    for I, pk, val in explore(prog, models.M, run_path, stats=stats, max_paths=200000):
        if pk == 'panic':
            out['panic_paths'] += 1
            viol('panic', 'panic: %s' % val.msg[:120])
            continue
        plan, fails = holder['plan'], holder['fails']
        out['obligations'] += 1
        if any(fails.values()):
            if val.v == 0:
                viol('validator-error-swallowed', 'a validator failed but the run returned Ok')
            out['cover']['merge-err'] = out['cover'].get('merge-err', 0) + 1
            continue
        if val.v != 0:
            viol('unexpected-error', 'run returned Err although no validator failed')
            continue
        got = {}
        for e in val.f[0].entries:
            fname = bytes(e.f[0].b).decode()
            if fname in got:
                viol('duplicate-file-key', 'file %s twice in the merged map' % fname)
            got[fname] = sorted(bytes(get_field(prog, v, 'Violation', 'code').b).decode() for v in e.f[1].items)
        want = {}
        for v, files in plan.items():
            for fi, ids in files.items():
                want.setdefault('f%d.py' % fi, []).extend(holder['codes'].get(i, 'v%d' % i) for i in ids)
        want = {k: sorted(v) for k, v in want.items()}
        if got != want:
            viol('merged-report-loses-or-duplicates-violations', 'merged %s, expected %s' % (got, want))
        if sum(1 for v in plan.values() for _ in v) >= 2 and any(len([1 for v in plan.values() if fi in v]) >= 2 for fi in range(nfiles)):
            out['cover']['two validators on one file'] = 1
        out['cover']['merge-ok'] = out['cover'].get('merge-ok', 0) + 1
    out.update(Agg(PROP, 'x').stats_from(stats))
    return out


def run_severity(task):
    L, want_sample = task
    prog = driver.load_program()
    stats = PathStats()
    f = prog.find_method('Block', 'severity')
    out = dict(violations=[], samples=[], obligations=0, cover={}, panic_paths=0)
    holder = {}
    roles = set()

    def run_path(I):
        if L < 0:
            blk = mk_block(prog, I, {}, (1, 1), (1, 2), (0, 0), (1, 3), (2, 1))
            holder['s'] = None
        else:
            s = tuple(I.fresh_byte('s%d' % i, SEV_ALPHABET) for i in range(L))
            holder['s'] = s
            blk = mk_block(prog, I, {'severity': SString(s, I.new_alloc())}, (1, 1), (1, 2), (0, 0), (1, 3), (2, 1))
        return I.call_fn(f, [Ref(Cell(blk), ())])

    def viol(I, cond, role, summary):
        out['obligations'] += 1
        if role in roles:
            return
        if I.check(cond):
            roles.add(role)
            m = I.solver.model()
            out['violations'].append(dict(role=role, summary=summary,
                                          severity=None if holder['s'] is None else model_bytes(m, holder['s']).decode('latin1')))

    for I, pk, val in explore(prog, models.M, run_path, stats=stats, max_paths=100000):
        s = holder['s']
        if pk == 'panic':
            viol(I, z3.BoolVal(True), 'panic', 'panic: %s' % val.msg[:120])
            continue
        if s is None:
            if val.v != 0 or val.f[0].vname != 'Error':
                viol(I, z3.BoolVal(True), 'default-severity-not-error', 'block without severity attribute is not Error')
            out['cover']['default'] = 1
            continue

        def ci_eq(word):
            if len(word) != len(s):
                return z3.BoolVal(False)
            return zand([z3.Or(b == ord(c.lower()), b == ord(c.upper())) for b, c in zip(s, word)])
        conds = {w: ci_eq(w) for w in SEVS}
        if val.v == 0:
            got = val.f[0].vname
            viol(I, z3.Not(conds[got]), 'severity-misparsed', 'attribute parsed as %s but is not that word' % got)
            out['cover']['parsed'] = 1
        else:
            viol(I, zor(list(conds.values())), 'valid-severity-rejected', 'a valid severity word (any letter case) is rejected')
            out['cover']['rejected'] = 1
    out.update(Agg(PROP, 'x').stats_from(stats))
    return out


# ------------------------------------------------------------------ `list`: the serialisable report

def _json_models(I):
    from mirsym.models import map_insert, map_find, opt
    st = I.stubs
    st['Map::new'] = lambda I2, a, ci, dt: MapVal((), 'JsonMap')

    def jinsert(I2, a, ci, dt):
        return opt(map_insert(I2, a[0], a[1], a[2]))
    st['Map::insert'] = jinsert

    def jindex(I2, a, ci, dt):
        v = I2.deref_value(a[0]) if isinstance(a[0], Ref) else a[0]
        while isinstance(v, Ref):
            v = I2.deref_value(v)
        key = a[1]
        if isinstance(v, Struct) and v.name == 'Object':
            mv = v.f[0]
            i = map_find(I2, mv, key)
            if i >= 0:
                return Ref(Cell(mv.entries[i].f[1]), ())
        return Ref(Cell(Opaque('json', None)), ())
    st['<Value as Index>::index'] = jindex

    def as_u64(I2, a, ci, dt):
        v = I2.deref_value(a[0]) if isinstance(a[0], Ref) else a[0]
        if isinstance(v, Opaque) and v.tag == 'json':
            p = v.data
            p = I2.deref_value(p) if isinstance(p, Ref) else p
            while isinstance(p, Ref):
                p = I2.deref_value(p)
            if isinstance(p, int) and not isinstance(p, bool) or is_sym(p):
                return Some(p)
        return NONE
    st['Value::as_u64'] = as_u64


def run_list(task):
    nblocks, order, want_sample = task
    prog = driver.load_program()
    stats = PathStats()
    f = prog.find_method('ValidationContext', 'to_serializable_report')
    if f is None:
        raise EngineError('ValidationContext::to_serializable_report not found')
    out = dict(violations=[], samples=[], obligations=0, cover={}, panic_paths=0)
    holder = {}
    roles = set()

    def run_path(I):
        I.map_order = lambda n: [x for x in order if x < n] if len(order) >= n else list(range(n))
        _json_models(I)
        lines = []
        bwcs = []
        for b in range(nblocks):
            ln = I.fresh_int('line%d' % b, 1, 1 << 32)
            col = I.fresh_int('col%d' % b, 1, 1 << 32)
            cm = I.fresh_bool('cm%d' % b)
            lines.append((ln, col, cm))
            at = {'name': b'n%d' % b} if b % 2 == 0 else {'keep-sorted': b''}
            blk = mk_block(prog, I, at, (ln, col), (ln, col + 5), (0, 0), (ln, col + 9), (ln + 2, 1))
            bwcs.append(mk_bwc(prog, blk, content_modified=cm))
        holder['lines'] = lines
        ctx = I.deref_value(mk_context(prog, I, [(b'f.py', b'x', bwcs), (b'g.py', b'x', [])]))
        return I.call_fn(f, [Ref(Cell(ctx), ())])

    def viol(I, cond, role, summary):
        out['obligations'] += 1
        if role in roles:
            return
        if I.check(cond):
            roles.add(role)
            m = I.solver.model()
            out['violations'].append(dict(role=role, summary=summary, list_blocks=[[mval(m, l), mval(m, c), mval(m, cm)] for l, c, cm in holder['lines']]))

    def payload(I, jv):
        v = jv.data if isinstance(jv, Opaque) else jv
        v = I.deref_value(v) if isinstance(v, Ref) else v
        while isinstance(v, Ref):
            v = I.deref_value(v)
        return v

    for I, pk, val in explore(prog, models.M, run_path, stats=stats, max_paths=20000):
        if pk == 'panic':
            viol(I, z3.BoolVal(True), 'panic', 'panic: %s' % val.msg[:120])
            continue
        lines = holder['lines']
        files = {bytes(e.f[0].b).decode(): e.f[1] for e in val.entries}
        if set(files) != {'f.py', 'g.py'}:
            viol(I, z3.BoolVal(True), 'list-file-keys-wrong', 'report keys %s' % sorted(files))
            continue
        items = files['f.py'].items
        if len(items) != nblocks:
            viol(I, z3.BoolVal(True), 'list-loses-or-duplicates-blocks', '%d blocks selected, %d listed' % (nblocks, len(items)))
            out['cover']['list'] = 1
            continue
        got = []
        for it in items:
            obj = it.f[0] if isinstance(it, Struct) and it.name == 'Object' else None
            if obj is None:
                viol(I, z3.BoolVal(True), 'list-entry-not-an-object', 'entry %r' % (it,))
                continue
            d = {bytes(e.f[0].b).decode(): payload(I, e.f[1]) for e in obj.entries}
            got.append(d)
        if any(set(d) != {'name', 'line', 'column', 'is_content_modified', 'attributes'} for d in got):
            viol(I, z3.BoolVal(True), 'list-fields-wrong', 'fields %s' % [sorted(d) for d in got])
            continue
        # every block appears exactly once: match by name/attributes (distinct per block by construction)
        for b, (ln, col, cm) in enumerate(lines):
            want_name = ('n%d' % b) if b % 2 == 0 else '(unnamed)'
            cands = []
            for d in got:
                nm = d['name']
                nm = bytes(nm.b).decode() if isinstance(nm, (SStr, SString)) else None
                attrs = d['attributes']
                has_name = any(bytes(e.f[0].b) == b'name' and bytes(e.f[1].b) == (b'n%d' % b) for e in attrs.entries) if isinstance(attrs, MapVal) else False
                if nm == want_name and (has_name or b % 2 == 1):
                    cands.append(d)
            if b % 2 == 1:
                # unnamed blocks are told apart by position
                ok = zor([z3.And(d['line'] == ln, d['column'] == col) for d in cands]) if cands else z3.BoolVal(False)
                viol(I, z3.Not(ok), 'list-block-missing-or-misplaced', 'unnamed block %d not listed at its line/column' % b)
            else:
                if len(cands) != 1:
                    viol(I, z3.BoolVal(True), 'list-loses-or-duplicates-blocks', 'block n%d listed %d times' % (b, len(cands)))
                    continue
                d = cands[0]
                viol(I, z3.Or(d['line'] != ln, d['column'] != col), 'list-block-missing-or-misplaced', 'block n%d listed at a wrong position' % b)
                flag = d['is_content_modified']
                viol(I, flag != cm if (is_sym(flag) or is_sym(cm)) else z3.BoolVal(flag != cm), 'list-modified-flag-wrong', 'is_content_modified of n%d differs' % b)
        for a, b2 in zip(got, got[1:]):
            viol(I, a['line'] > b2['line'], 'list-not-sorted-by-line', 'listed blocks are not sorted by line')
        out['cover']['list'] = 1
    out.update(Agg(PROP, 'x').stats_from(stats))
    return out


# ------------------------------------------------------------------ replay

def confirm(binary, v, idx):
    v['confirmed'] = False
    if 'severities' in v:
        # one keep-sorted block per violation, with the witness's severities, in witness order
        by_file = {}
        for fi, s in v['severities']:
            by_file.setdefault(fi, []).append(s)
        want = 1 if any(s == 'Error' for _f, s in v['severities']) else 0
        nexp = len(v['severities']) + 6
        # layout A: one keep-sorted block per violation, one after the other; layout B: the blocks of a file
        # nested around one duplicated line, so that their keep-unique violations share code and range
        for layout in ('sequence', 'nested'):
            files = {}
            for fi, ss in by_file.items():
                if layout == 'sequence':
                    body = ''
                    for k, s in enumerate(ss):
                        body += '# <block name="k%d" keep-sorted severity="%s">\nb\na\n# </block>\n' % (k, s.lower())
                else:
                    body = ''.join('# <block name="k%d" keep-unique severity="%s">\n' % (k, s.lower()) for k, s in enumerate(ss))
                    body += 'a\na\n' + '# </block>\n' * len(ss)
                files['f%d.py' % fi] = body.encode()
            # the real HashMap order changes from run to run: extra warning-only files (they do not change
            # the expected status) and repeated runs make an order-dependent status show
            for k in range(6):
                files['w%d.py' % k] = b'# <block name="w" keep-sorted severity="warning">\nb\na\n# </block>\n'
            seen = []
            for _ in range(10):
                r = run_scan(binary, files, ['**'])
                ndiag = sum(len(x) for x in (r['diags'] or {}).values())
                seen.append((r['code'], ndiag))
                if r['code'] != want or ndiag != nexp:
                    break
            v['observed'] = dict(layout=layout, runs=seen)
            if seen[-1][0] != want or seen[-1][1] != nexp:
                v['confirmed'] = True
                v['replay'] = save_replay(PROP, '%s-%d' % (v['role'], idx), files, "'**'",
                                          'expected exit %d and %d diagnostics on every run (run it several times: the order of files varies); %s' % (want, nexp, v['summary']), v)
                break
        return v
    if 'list_blocks' in v:
        # two blocks whose start tags share a line, one later block
        files = {'x.c': b'/* <block name="first"> */ int a; /* </block> */ /* <block name="second"> */ int b; /* </block> */\n/* <block name="third"> */\nint c;\n/* </block> */\n'}
        r = run_scan(binary, files, ['**'], extra_args=['list'])
        names = []
        try:
            names = sorted(b_['name'] for b_ in json.loads(r['stdout']).get('x.c', []))
        except ValueError:
            pass
        v['observed'] = dict(code=r['code'], names=names)
        if names != ['first', 'second', 'third'] or r['code'] != 0:
            v['confirmed'] = True
            v['replay'] = save_replay(PROP, '%s-%d' % (v['role'], idx), files, "list '**'", 'expected blocks first, second, third; ' + v['summary'], v)
        return v
    if 'plan' in v and v['role'] in ('validator-error-swallowed', 'unexpected-error'):
        # one block per validator of the witness: sync ones are keep-sorted / keep-unique / line-pattern blocks
        # (a malformed keep-sorted value fails), async ones are check-lua blocks (a missing script fails)
        fails = {int(k): bool(x) for k, x in v['fails'].items()}
        vorder = v['vorder']
        na = v.get('nasync', 0)
        async_ids = set(vorder[len(vorder) - na:])
        sync_kinds = ['keep-sorted%s', 'keep-unique%s', 'line-pattern="^a+$"%s']
        body = ''
        for k, vid in enumerate(vorder):
            if vid in async_ids:
                body += '# <block name="v%d" check-lua="%s">\nb\na\n# </block>\n' % (vid, 'missing.lua' if fails.get(vid) else 'ok.lua')
            elif fails.get(vid):
                body += '# <block name="v%d" keep-sorted="sideways">\nb\na\n# </block>\n' % vid
            else:
                body += '# <block name="v%d" %s>\nb\nb\n# </block>\n' % (vid, sync_kinds[(k + 1) % 3] % '')
        files = {'f0.py': body.encode(), 'ok.lua': b'function validate(ctx, content)\n  return "reported"\nend\n'}
        r = run_scan(binary, files, ['**/*.py'])
        want_fail = any(fails.values())
        failed = r['code'] != 0 and r['diags'] is None
        v['observed'] = dict(code=r['code'], diags=r['diags'] is not None, stderr=r['stderr'][-200:])
        if failed != want_fail:
            v['confirmed'] = True
            v['replay'] = save_replay(PROP, '%s-%d' % (v['role'], idx), files, "'**/*.py'",
                                      'expected %s; %s' % ('a failed run (non-zero, no diagnostics)' if want_fail else 'diagnostics', v['summary']), v)
        return v
    if 'plan' in v and v.get('twin'):
        files = {'f0.py': b'# <block name="outer" keep-sorted>\n# <block name="inner" keep-sorted>\nb\na\n# </block>\n# </block>\n'}
        r = run_scan(binary, files, ['**'])
        ds = (r['diags'] or {}).get('f0.py', [])
        v['observed'] = dict(code=r['code'], diagnostics=[(d.get('code'), d['range']['start']['line']) for d in ds])
        if len([d for d in ds if d.get('code') == 'keep-sorted']) != 2:
            v['confirmed'] = True
            v['replay'] = save_replay(PROP, '%s-%d' % (v['role'], idx), files, "'**'",
                                      'expected two keep-sorted diagnostics (outer and inner block fail on the same line); ' + v['summary'], v)
        return v
    if 'plan' in v and v.get('nasync', 0) >= 2:
        # two ASYNC validators reporting on the same file: a check-lua and a check-ai block (loopback endpoint
        # that rejects; once answering at once, once slowly, so that either validator finishes last)
        from . import c19
        files = {'f0.py': b'# <block name="l" check-lua="say.lua">\na\n# </block>\n# <block name="i" check-ai="must be empty">\na\n# </block>\n'
                          b'# <block name="s" keep-sorted>\nb\na\n# </block>\n',
                 'say.lua': b'function validate(ctx, content)\n  return "reported"\nend\n'}
        seen = []
        bad = False
        for slow in (0.0, 0.8):
            with c19.FakeEndpoint([], default=('text', 'no'), slow_ok=slow) as ep:
                r = run_scan(binary, files, ['**/*.py'], env_extra={'BLOCKWATCH_AI_API_URL': 'http://127.0.0.1:%d/v1' % ep.port,
                                                                  'BLOCKWATCH_AI_API_KEY': 'k', 'BLOCKWATCH_LUA_MODE': 'safe'})
            codes = sorted(d.get('code') for d in (r['diags'] or {}).get('f0.py', []))
            seen.append(dict(slow=slow, code=r['code'], codes=codes))
            if codes != ['check-ai', 'check-lua', 'keep-sorted']:
                bad = True
        v['observed'] = seen
        if bad:
            v['confirmed'] = True
            v['replay'] = save_replay(PROP, '%s-%d' % (v['role'], idx), files, "'**/*.py'  (BLOCKWATCH_AI_API_URL -> tools/fake_ai_endpoint.py)",
                                      'expected check-ai, check-lua and keep-sorted diagnostics for f0.py whichever validator finishes last; ' + v['summary'], v)
            return v
    if 'plan' in v:
        # two validators reporting on the same file: keep-sorted and keep-unique blocks in one file
        files = {'f0.py': b'# <block name="a" keep-sorted>\nb\na\n# </block>\n# <block name="b" keep-unique>\na\na\n# </block>\n'
                          b'# <block name="c" line-count="<1">\na\n# </block>\n'}
        r = run_scan(binary, files, ['**'])
        codes = sorted(d.get('code') for d in (r['diags'] or {}).get('f0.py', []))
        v['observed'] = dict(code=r['code'], codes=codes)
        if codes != ['keep-sorted', 'keep-unique', 'line-count']:
            v['confirmed'] = True
            v['replay'] = save_replay(PROP, '%s-%d' % (v['role'], idx), files, "'**'",
                                      'expected keep-sorted, keep-unique and line-count diagnostics for f0.py; ' + v['summary'], v)
        return v
    if 'severity' in v and v['severity'] is not None:
        sv = v['severity']
        if '"' in sv:
            return v
        files = {'f.py': ('# <block keep-sorted severity="%s">\nb\na\n# </block>\n' % sv).encode('latin1')}
        r = run_scan(binary, files, ['**'])
        word = sv.lower()
        if word in ('error',):
            want = 1
        elif word in ('warning', 'info', 'hint'):
            want = 0
        else:
            want = 'err'
        got = r['code'] if r['diags'] is not None or r['code'] == 0 else 'err'
        v['observed'] = dict(code=r['code'], diags=bool(r['diags']))
        if got != want:
            v['confirmed'] = True
            v['replay'] = save_replay(PROP, '%s-%d' % (v['role'], idx), files, "'**'", 'expected %s; %s' % (want, v['summary']), v)
    return v


BOUNDS = {
    'quick': dict(shapes=[(1,), (2,), (1, 1), (2, 1)], merge=[(2, 2)], sev_max=7, validate=12),
    'thorough': dict(shapes=[(1,), (2,), (1, 1), (2, 1), (2, 2), (1, 1, 1), (2, 1, 1)], merge=[(2, 2), (3, 2), (2, 3), (3, 3)], sev_max=8, validate=40),
}


def main(tier):
    b = BOUNDS[tier]
    agg = Agg(PROP, tier)
    binary = driver.real_binary()
    driver.load_program(want_bin=True)
    rnd = random.Random(seed())
    tasks = []
    for sh in b['shapes']:
        n = len(sh)
        for o in itertools.permutations(range(max(n, 1))):
            tasks.append((sh, o, True))
            if max(sh) >= 2:
                tasks.append((sh, o, False, True))
    results = pmap(run_process, tasks)
    mtasks = []
    for nv, nf in b['merge']:
        vorders = list(itertools.permutations(range(nv)))
        forders = list(itertools.permutations(range(nf)))
        if tier == 'quick':
            vorders, forders = vorders[:2], forders[:2]
        for vo in vorders:
            for fo in forders:
                mtasks.append((nv, nf, vo, fo, False))
                for na in range(1, nv + 1):
                    # async splits: all of them for the first order pair, one async validator otherwise;
                    # the 3x3 shape (19 683 report patterns per order) only with the first order pair
                    first = (vo == vorders[0] and fo == forders[0])
                    if (nv, nf) == (3, 3):
                        continue        # 19 683 report patterns per order: the sync-only run of this shape is the bound
                    if nv * nf > 4 and not (first and na == 1):
                        continue
                    if first or na == 1:
                        mtasks.append((nv, nf, vo, fo, False, na))
    results += pmap(run_merge, mtasks)
    results += pmap(run_severity, [(L, False) for L in range(-1, b['sev_max'] + 1)])
    results += pmap(run_list, [(n, o, False) for n in (1, 2, 3) for o in ((0, 1, 2), (2, 1, 0))])
    for r in results:
        agg.add(r)
    from . import mainwire
    mainwire.add_to(agg, PROP, binary)
    by_role = {}
    for v in agg.violations:
        by_role.setdefault(v['role'], []).append(v)
    final = []
    for role, vs in sorted(by_role.items()):
        got = None
        for i, v in enumerate(vs[:8]):
            if not v.get('main'):        # main-wiring violations were replayed by mainwire.add_to
                confirm(binary, v, i)
            if v['confirmed']:
                got = v
                break
        final.append(got or vs[0])
    agg.violations = final
    samples = [s for r in results for s in r.get('samples', []) if 'severities' in s]
    rnd.shuffle(samples)
    for s in samples[:b['validate']]:
        v = dict(role='sample', summary='', severities=s['severities'])
        confirm(binary, v, 0)
        if not v['confirmed']:
            agg.validated += 1
        else:
            msg = 'real binary disagrees with the reference on %s: %s' % (s, v.get('observed'))
            agg.validation_failures.append(msg)
            agg.engine_errors.append({'engine_error': 'translator validation: ' + msg})
    bounds = dict(report_shapes=[list(s) for s in b['shapes']], merge=[list(m) for m in b['merge']], severity_attr_max=b['sev_max'],
                  tasks=len(tasks) + len(mtasks))
    return finish(
        agg, bounds,
        assumptions=['std::thread::spawn/join are modelled as a sequential schedule (absence of data races is the type system\'s job)',
                     'the async half of validators::run (tokio, coroutine MIR) is outside; so is the JSON text layout; for `list` the report structure (to_serializable_report) is decided with serde_json::Map / to_value / Value indexing as structural models, the printing is outside',
                     'stderr, to_writer_pretty, write_fmt and process::exit are recording stubs'],
        stubs=['std::io::stderr / Stderr::lock', 'serde_json::to_writer_pretty (records its argument)', 'Write::write_fmt', 'process::exit (ends the path)',
               'ValidatorSync::validate for model validators in the merge harness'],
        must_cover=['main', 'exit0', 'exit1', 'merge-ok', 'merge-err', 'merge-async', 'twin violations', 'same code and range', 'two validators on one file', 'parsed', 'rejected', 'default', 'list'],
        explanation='exit code and printed map compared with the severities chosen by the solver on every path; merged map compared with the union of the validators\' maps under several iteration orders')


if __name__ == '__main__':
    sys.exit(main(sys.argv[1] if len(sys.argv) > 1 else 'quick'))
