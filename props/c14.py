"""C14 — --enable / --disable select validators without side effects.

Encoded (real MIR): validators::detect_validators (+closures), the seven ValidatorDetector::detect
impls and the DETECTOR_FACTORIES table (its closures), flags::Args::validate,
Args::enabled_validators / disabled_validators, flags::parse_validator (+closures).
Symbolic: per block the subset of the seven rule attributes and is_content_modified; the
membership of each validator name in -e / -d; every byte of a validator name given to the
flag parser.  Enumerated: number of blocks/files, hash-map iteration orders.
Oracle: instantiated validators = {v : allowed(v) ∧ some block needs v}, each exactly once.
"""
import itertools
import os
import json
import random
import sys

import z3

from .common import *  # noqa
from .vharness import *  # noqa
from mirsym.interp import explore, PathStats, Interp
from mirsym.models import new_string, as_sstr

PROP = 'C14'

# validator name -> (attribute that triggers detection, struct the detector instantiates)
VALIDATORS = [
    ('affects', 'affects', 'AffectsValidator'),
    ('keep-sorted', 'keep-sorted', 'KeepSortedValidator'),
    ('keep-unique', 'keep-unique', 'KeepUniqueValidator'),
    ('line-pattern', 'line-pattern', 'LinePatternValidator'),
    ('line-count', 'line-count', 'LineCountValidator'),
    ('check-ai', 'check-ai', 'CheckAiValidator'),
    ('check-lua', 'check-lua', 'CheckLuaValidator'),
]
NAME_ALPHABET = sorted(set(ord(c) for n, _a, _s in VALIDATORS for c in n + n.upper()) | {32})      # both letter cases: names are case-sensitive


def factories(I, prog):
    lst = prog.fns.get('DETECTOR_FACTORIES')
    if not lst:
        raise EngineError('DETECTOR_FACTORIES not in the MIR dump')
    v = I.eval_const_item(lst[0])
    items = I.deref_value(v).items
    names = [bytes(as_sstr(I, it.f[0]).b).decode() for it in items]
    if sorted(names) != sorted(n for n, _a, _s in VALIDATORS):
        raise EngineError('validator table changed: %r' % names)
    return v


def struct_name_of(I, boxed):
    v = I.deref_value(boxed)
    while isinstance(v, Ref):
        v = I.deref_value(v)
    return v.name


def run_detect(task):
    layout, mode, order, want_sample, active = task      # layout: blocks per file, e.g. (2, 1); active: validator indices in play
    prog = driver.load_program()
    stats = PathStats()
    f_det = prog.find_fn('detect_validators')
    f_en = prog.find_method('Args', 'enabled_validators')
    f_dis = prog.find_method('Args', 'disabled_validators')
    out = dict(violations=[], samples=[], obligations=0, cover={}, panic_paths=0)
    holder = {}
    roles = set()

    def run_path(I):
        I.map_order = lambda n: [x for x in order if x < n] if len(order) >= n else list(range(n))
        I.stubs['OpenAiClient::new_from_env'] = lambda I2, a, ci, dt: Opaque('openai-client')
        has = {}
        cm = {}
        files = []
        bi = 0
        for fi, nb in enumerate(layout):
            bwcs = []
            for _ in range(nb):
                at = {}
                for vi, (vn, attr, _s) in enumerate(VALIDATORS):
                    h = I.fresh_bool('has_%d_%d' % (bi, vi)) if vi in active else False
                    has[(bi, vi)] = h
                    if I.branch(h):
                        at[attr] = b':x' if attr == 'affects' else b'v'
                cmod = I.fresh_bool('cm_%d' % bi)
                cm[bi] = cmod
                blk = mk_block(prog, I, at, (1, 3), (1, 9), (0, 0), (1, 10), (2, 1))
                bwcs.append(mk_bwc(prog, blk, content_modified=cmod))
                bi += 1
            files.append((b'f%d.py' % fi, b'x', bwcs))
        ctx = I.deref_value(mk_context(prog, I, files))
        sel = {}
        names = []
        for vi, (vn, _a, _s) in enumerate(VALIDATORS):
            s = I.fresh_bool('sel_%d' % vi) if vi in active else False
            sel[vi] = s
            if I.branch(s):
                names.append(new_string(I, vn.encode()))
        holder.update(has=has, cm=cm, sel=sel, nblocks=bi)
        args = mk_struct(prog, 'Args', extensions=VecVal(()),
                         disabled_validators=VecVal(names if mode == 'd' else ()),
                         enabled_validators=VecVal(names if mode == 'e' else ()),
                         ignore=VecVal(()), globs=VecVal(()), command=NONE)
        aref = Ref(Cell(args), ())
        en = I.call_fn(f_en, [aref])
        dis = I.call_fn(f_dis, [aref])
        return I.call_fn(f_det, [Ref(Cell(ctx), ()), factories(I, prog), Ref(Cell(dis), ()), Ref(Cell(en), ())])

    def viol(I, cond, role, summary):
        out['obligations'] += 1
        if role in roles:
            return
        if I.check(cond):
            roles.add(role)
            m = I.solver.model()
            h = holder
            out['violations'].append(dict(
                role=role, summary=summary, mode=mode, layout=list(layout), order=list(order),
                selected=[VALIDATORS[vi][0] for vi in range(7) if mval(m, h['sel'][vi])],
                blocks=[dict(attrs=[VALIDATORS[vi][1] for vi in range(7) if mval(m, h['has'][(b, vi)])],
                             content_modified=mval(m, h['cm'][b])) for b in range(h['nblocks'])]))

    for I, pk, val in explore(prog, models.M, run_path, stats=stats, max_paths=60000, time_limit=int(os.environ.get('VERIF_TASK_TIMEOUT', '3000'))):
        if pk == 'panic':
            out['panic_paths'] += 1
            viol(I, z3.BoolVal(True), 'panic', 'panic: %s' % val.msg[:120])
            continue
        if val.v != 0:
            viol(I, z3.BoolVal(True), 'unexpected-error', 'detect_validators returned Err')
            continue
        h = holder
        sync_v, async_v = val.f[0].f[0], val.f[0].f[1]
        got = [struct_name_of(I, x) for x in sync_v.items] + [struct_name_of(I, x) for x in async_v.items]
        any_sel = zor([h['sel'][vi] for vi in range(7) if not isinstance(h['sel'][vi], bool)])
        for vi, (vn, attr, sname) in enumerate(VALIDATORS):
            def B(x):
                return z3.BoolVal(x) if isinstance(x, bool) else x
            need = zor([z3.And(B(h['has'][(b, vi)]), h['cm'][b]) if vn == 'affects' else B(h['has'][(b, vi)])
                        for b in range(h['nblocks'])])
            if mode == 'e':
                allowed = z3.If(any_sel, B(h['sel'][vi]), z3.BoolVal(True))
            else:
                allowed = z3.Not(B(h['sel'][vi]))
            want = z3.And(need, allowed)
            cnt = got.count(sname)
            if cnt == 0:
                viol(I, want, 'needed-validator-not-run', '%s is allowed and needed by a block but was not instantiated' % vn)
            else:
                viol(I, z3.Not(want), 'unwanted-validator-run', '%s instantiated although disabled / not enabled / not needed' % vn)
                if cnt > 1:
                    viol(I, z3.BoolVal(True), 'validator-run-twice', '%s instantiated %d times' % (vn, cnt))
        asyncs = [struct_name_of(I, x) for x in async_v.items]
        if any(n not in ('CheckAiValidator', 'CheckLuaValidator') for n in asyncs) or \
                any(n in ('CheckAiValidator', 'CheckLuaValidator') for n in [struct_name_of(I, x) for x in sync_v.items]):
            viol(I, z3.BoolVal(True), 'sync-async-mixup', 'validator filed under the wrong kind')
        out['cover']['detect:' + mode] = out['cover'].get('detect:' + mode, 0) + 1
        if want_sample and len(out['samples']) < 2:
            m = I.ensure_model()
            out['samples'].append(dict(mode=mode, selected=[VALIDATORS[vi][0] for vi in range(7) if mval(m, h['sel'][vi])],
                                       blocks=[[VALIDATORS[vi][1] for vi in range(7) if mval(m, h['has'][(b, vi)])]
                                               for b in range(h['nblocks'])], instantiated=sorted(got)))
    out.update(Agg(PROP, 'x').stats_from(stats))
    return out


def run_flagname(task):
    L, want_sample = task
    prog = driver.load_program()
    stats = PathStats()
    f = prog.find_fn('parse_validator')
    out = dict(violations=[], samples=[], obligations=0, cover={}, panic_paths=0)
    holder = {}
    roles = set()

    def run_path(I):
        s = tuple(I.fresh_byte('n%d' % i, NAME_ALPHABET) for i in range(L))
        holder['s'] = s
        return I.call_fn(f, [SStr(s, I.new_alloc(), 0)])

    def viol(I, cond, role, summary):
        out['obligations'] += 1
        if role in roles:
            return
        if I.check(cond):
            roles.add(role)
            m = I.solver.model()
            out['violations'].append(dict(role=role, summary=summary, name=model_bytes(m, holder['s']).decode('latin1')))

    for I, pk, val in explore(prog, models.M, run_path, stats=stats, max_paths=100000):
        s = holder['s']
        if pk == 'panic':
            viol(I, z3.BoolVal(True), 'panic', 'panic: %s' % val.msg[:120])
            continue
        known = zor([zand([b == ord(c) for b, c in zip(s, vn)]) for vn, _a, _s in VALIDATORS if len(vn) == L])
        if val.v == 0:
            viol(I, z3.Not(known), 'unknown-validator-accepted', 'a name that is not one of the seven validators is accepted')
            out['cover']['name-accepted'] = 1
        else:
            viol(I, known, 'known-validator-rejected', 'a validator name is rejected')
            out['cover']['name-rejected'] = 1
    out.update(Agg(PROP, 'x').stats_from(stats))
    return out


def run_both_flags(task):
    prog = driver.load_program()
    stats = PathStats()
    f_val = prog.find_method('Args', 'validate')
    out = dict(violations=[], samples=[], obligations=0, cover={}, panic_paths=0)
    I = Interp(prog, models.M, stats=stats)
    for nd, ne in ((1, 1), (2, 1), (1, 0), (0, 2), (0, 0)):
        args = mk_struct(prog, 'Args', extensions=VecVal(()),
                         disabled_validators=VecVal([new_string(I, b'line-count')] * nd),
                         enabled_validators=VecVal([new_string(I, b'keep-sorted')] * ne),
                         ignore=VecVal(()), globs=VecVal(()), command=NONE)
        r = I.call_fn(f_val, [Ref(Cell(args), ()), Ref(Cell(MapVal((), 'HashSet')), ())])
        out['obligations'] += 1
        want_err = nd > 0 and ne > 0
        if (r.v == 1) != want_err:
            out['violations'].append(dict(role='flag-exclusion-wrong', summary='-d x%d with -e x%d: %s' % (nd, ne, 'accepted' if r.v == 0 else 'rejected'),
                                          nd=nd, ne=ne))
    stats.paths += 1
    out['cover']['both-flags'] = 1
    out.update(Agg(PROP, 'x').stats_from(stats))
    return out


# ------------------------------------------------------------------ replay

BLOCK_TEXT = {
    'affects': None,   # needs a diff; replayed through keep-sorted etc. only
    'keep-sorted': ('keep-sorted', 'b\na\n'),
    'keep-unique': ('keep-unique', 'a\na\n'),
    'line-pattern': ('line-pattern="^z$"', 'a\n'),
    'line-count': ('line-count="<1"', 'a\n'),
}


def confirm(binary, v, idx):
    v['confirmed'] = False
    if 'name' in v:
        nm = v['name']
        r = run_scan(binary, {'a.py': b'x = 1\n'}, ['a.py'], extra_args=['-d', nm])
        known = nm in [x[0] for x in VALIDATORS]
        bad = (r['code'] == 0) != known
        v['observed'] = dict(code=r['code'], stderr=r['stderr'][-200:])
        if bad:
            v['confirmed'] = True
            v['replay'] = save_replay(PROP, '%s-%d' % (v['role'], idx), {'a.py': b'x = 1\n'}, "-d '%s' a.py" % nm, v['summary'], v)
        return v
    if 'blocks' not in v:
        return v
    # build a file whose blocks carry the (sync, scan-mode) attributes of the witness, each violated
    files = {}
    expect_codes = set()
    sel = v['selected']
    body = ''
    for bi, b in enumerate(v['blocks']):
        attrs = []
        content = ''
        for a in b['attrs']:
            if a in BLOCK_TEXT and BLOCK_TEXT[a]:
                attrs.append(BLOCK_TEXT[a][0])
        usable = [a for a in b['attrs'] if a in BLOCK_TEXT and BLOCK_TEXT[a]]
        if 'check-ai' in b['attrs'] or 'check-lua' in b['attrs']:
            return v
        content = 'b\na\na\n' if usable else 'x\n'
        body += '# <block name="k%d" %s>\n%s# </block>\n' % (bi, ' '.join(attrs), content)
        for a in usable:
            allowed = (a in sel) if (v['mode'] == 'e' and sel) else (a not in sel)
            # b,a,a violates keep-sorted, keep-unique, ^z$, <1
            if allowed:
                expect_codes.add(a)
    files['f.py'] = body.encode()
    extra = []
    for s_ in sel:
        extra += ['-' + v['mode'], s_]
    r = run_scan(binary, files, ['f.py'], extra_args=extra)
    got = set()
    if r['diags']:
        for d in r['diags'].get('f.py', []):
            got.add(d.get('code'))
    v['observed'] = dict(code=r['code'], codes=sorted(got), stderr=r['stderr'][-200:])
    v['expected_codes'] = sorted(expect_codes)
    if got != expect_codes:
        v['confirmed'] = True
        v['replay'] = save_replay(PROP, '%s-%d' % (v['role'], idx), files, ' '.join(extra) + ' f.py',
                                  'expected diagnostics of exactly %s; %s' % (sorted(expect_codes), v['summary']), v)
    return v


BOUNDS = {
    'quick': dict(layouts=[(1,), (2,)], orders=1, name_max=12, validate=10, triples='cover'),
    'thorough': dict(layouts=[(2,), (1, 1), (2, 1)], orders=3, name_max=13, validate=40, triples='all', heavy_layout=(2, 1)),
}


def main(tier):
    b = BOUNDS[tier]
    agg = Agg(PROP, tier)
    binary = driver.real_binary()
    driver.load_program()
    rnd = random.Random(seed())
    tasks = []
    for lay in b['layouts']:
        n = max(2, len(lay))
        orders = [tuple(range(7)), tuple(reversed(range(7)))][:max(1, b['orders'])]
        if b['orders'] > 2:
            p = list(range(7))
            rnd.shuffle(p)
            orders.append(tuple(p))
        cover = [(0, 1, 4), (1, 2, 3), (4, 5, 6), (0, 3, 6), (2, 5, 0), (1, 5, 6), (2, 4, 3)]
        if b['triples'] == 'all' and lay != b.get('heavy_layout'):
            triples = list(itertools.combinations(range(7), 3))
        else:
            # the three-block layout costs ~60 s per task: covering triples only
            triples = cover
        for mode in ('d', 'e'):
            for o in orders:
                for tr in triples:
                    tasks.append((lay, mode, o, True, tr))
    results = pmap(run_detect, tasks)
    results += pmap(run_flagname, [(L, True) for L in range(0, b['name_max'] + 1)])
    results += pmap(run_both_flags, [0], jobs=1)
    for r in results:
        agg.add(r)
    from . import mainwire
    mainwire.add_to(agg, PROP, binary)
    by_role = {}
    for v in agg.violations:
        by_role.setdefault(v['role'], []).append(v)
    final = []
    for role, vs in sorted(by_role.items()):
        got = None
        for i, v in enumerate(vs[:10]):
            if role == 'flag-exclusion-wrong':
                r = run_scan(binary, {'a.py': b'x = 1\n'}, ['a.py'], extra_args=['-d', 'line-count', '-e', 'keep-sorted'])
                v['confirmed'] = r['code'] == 0
                if v['confirmed']:
                    v['replay'] = save_replay(PROP, role, {'a.py': b'x = 1\n'}, '-d line-count -e keep-sorted a.py', v['summary'], v)
            elif not v.get('main'):        # main-wiring violations were replayed by mainwire.add_to
                confirm(binary, v, i)
            if v.get('confirmed'):
                got = v
                break
        final.append(got or vs[0])
    agg.violations = final
    # translator validation on sampled witnesses (sync validators in scan mode only)
    samples = [s for r in results for s in r.get('samples', []) if 'blocks' in s]
    rnd.shuffle(samples)
    done = 0
    for s in samples:
        if done >= b['validate']:
            break
        if any(a in ('check-ai', 'check-lua') for blk in s['blocks'] for a in blk):
            continue
        v = dict(role='sample', mode=s['mode'], selected=s['selected'], summary='',
                 blocks=[dict(attrs=blk, content_modified=False) for blk in s['blocks']])
        confirm(binary, v, 0)
        done += 1
        if not v['confirmed']:
            agg.validated += 1
        else:
            msg = 'real binary disagrees with the reference on %s: %s' % (json.dumps(s), v.get('observed'))
            agg.validation_failures.append(msg)
            agg.engine_errors.append({'engine_error': 'translator validation: ' + msg})
    bounds = dict(layouts=[list(l) for l in b['layouts']], flag_sets='per task three validators are in play: all 2^3 subsets for -d and for -e (symbolic membership); the tasks cover all triples (thorough) / seven triples covering every pair class (quick)',
                  attribute_sets='all 2^3 subsets of the task\'s validators per block (symbolic)', name_max=b['name_max'], tasks=len(tasks))
    return finish(
        agg, bounds,
        assumptions=['clap itself is not encoded; Args is constructed directly', 'OpenAiClient::new_from_env is a stub',
                     'each validator emits only diagnostics of its own code: asserted in the C06-C10 harnesses (wrong-code)',
                     'the diagnostics of the two async validators are outside'],
        stubs=['OpenAiClient::new_from_env'],
        must_cover=['main', 'detect:d', 'detect:e', 'name-accepted', 'name-rejected', 'both-flags'],
        explanation='instantiated validator kinds compared with {v : allowed(v) ∧ needed(v)} as Z3 formulas over the symbolic attribute and flag memberships')


if __name__ == '__main__':
    sys.exit(main(sys.argv[1] if len(sys.argv) > 1 else 'quick'))
