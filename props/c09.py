"""C09 — line-count: violation <=> not(count OP N); data carries actual/op/expected.

Encoded (real MIR): LineCountValidator::validate (+closures), parse_constraint (+closure),
Op::as_str, line_count::create_violation, Block::content, Block::severity, Block::name_display.
Symbolic: every byte of the expression (family A) / every byte of every content line
(family B).  Enumerated by forking: expression length, number and lengths of lines.
Oracle: a reference grammar  ws* OP ws* '+'? digit+ ws*  written as a Z3 formula over the
expression bytes (one disjunct per decomposition), and count = number of content
segments holding a non-whitespace byte.
"""
import itertools
import json
import random
import sys

import z3

from .common import *  # noqa
from .vharness import *  # noqa
from mirsym.interp import explore, PathStats

PROP = 'C09'
EXPR_ALPHABET = [ord(c) for c in '<>= 0123456789x+\t']
LINE_ALPHABET = [ord(c) for c in 'a \t\x0c']
OPS = [('<=', 'Le'), ('>=', 'Ge'), ('==', 'Eq'), ('<', 'Lt'), ('>', 'Gt')]
TAG_PREFIX = b'/* <block name="blk" line-count="'
TAG_SUFFIX = b'"> */'
END_TAG = b'/* </block> */\n'


def decompositions(expr):
    """All (cond, op, N) ways `expr` (tuple of bytes) matches ws* OP ws* +? digits ws*."""
    L = len(expr)
    out = []
    for i in range(0, L + 1):
        for opname, _ in OPS:
            ol = len(opname)
            for j in range(0, L + 1):
                for p in (0, 1):
                    for d in range(1, L + 1):
                        t = L - (i + ol + j + p + d)
                        if t < 0:
                            continue
                        pos = 0
                        cs = []
                        cs += [f_ws(expr[k]) for k in range(pos, pos + i)]
                        pos += i
                        cs += [expr[pos + k] == ord(opname[k]) if not isinstance(expr[pos + k], int)
                               else z3.BoolVal(expr[pos + k] == ord(opname[k])) for k in range(ol)]
                        pos += ol
                        cs += [f_ws(expr[k]) for k in range(pos, pos + j)]
                        pos += j
                        if p:
                            b = expr[pos]
                            cs.append(b == 43 if not isinstance(b, int) else z3.BoolVal(b == 43))
                            pos += 1
                        digs = expr[pos:pos + d]
                        cs += [f_digit(b) for b in digs]
                        pos += d
                        cs += [f_ws(expr[k]) for k in range(pos, L)]
                        # '<' followed directly by '=' is the two-byte operator, not '<' + garbage
                        val = 0
                        for b in digs:
                            val = val * 10 + (b - 48)
                        if d >= 20:
                            cs.append(val <= (1 << 64) - 1 if not isinstance(val, int) else z3.BoolVal(val <= (1 << 64) - 1))
                        out.append((zand(cs), opname, val))
    return out


def holds(op, actual, n):
    return {'<': actual < n, '<=': actual <= n, '==': actual == n, '>=': actual >= n, '>': actual > n}[op]


def build_case(I, prog, expr_bytes, segs):
    """segs: list of byte tuples (content segments separated by \\n)."""
    content = []
    for k, s in enumerate(segs):
        if k:
            content.append(10)
        content.extend(s)
    head = tuple(TAG_PREFIX) + tuple(expr_bytes) + tuple(TAG_SUFFIX)
    src = head + tuple(content) + tuple(END_TAG)
    cstart = len(head)
    cend = cstart + len(content)
    nlines = len(segs) - 1
    blk = mk_block(prog, I, {'name': b'blk', 'line-count': SString(tuple(expr_bytes), I.new_alloc())},
                   (1, 4), (1, len(head) - 3), (cstart, cend),
                   (1, len(head) + 1), (1 + nlines, len(segs[-1]) + 1))
    ctx = mk_context(prog, I, [(b'f.js', src, [mk_bwc(prog, blk)])])
    return ctx, src


def run_case(task):
    family, expr_spec, seg_spec, want_sample = task
    prog = driver.load_program()
    stats = PathStats()
    out = dict(violations=[], samples=[], obligations=0, cover={}, panic_paths=0)
    holder = {}
    roles = set()

    def run_path(I):
        if isinstance(expr_spec, int):
            expr = [I.fresh_byte('e%d' % i, EXPR_ALPHABET) for i in range(expr_spec)]
        else:
            expr = list(expr_spec)
        segs = []
        for k, s in enumerate(seg_spec):
            if isinstance(s, int):
                segs.append(tuple(I.fresh_byte('l%d_%d' % (k, i), LINE_ALPHABET) for i in range(s)))
            else:
                segs.append(tuple(s))
        holder['expr'] = expr
        holder['segs'] = segs
        ctx, src = build_case(I, prog, expr, segs)
        holder['src'] = src
        return run_validator(I, prog, 'LineCountValidator', ctx)

    def viol(I, cond, role, summary):
        out['obligations'] += 1
        if role in roles:
            return
        if I.check(cond):
            roles.add(role)
            m = I.solver.model()
            out['violations'].append(dict(role=role, summary=summary,
                                          src=model_bytes(m, holder['src']).decode('latin1'),
                                          expr=model_bytes(m, holder['expr']).decode('latin1')))

    for I, kind, val in explore(prog, models.M, run_path, stats=stats, max_paths=200000):
        expr, segs = holder['expr'], holder['segs']
        if kind == 'panic':
            out['panic_paths'] += 1
            viol(I, z3.BoolVal(True), 'panic', 'panic: %s' % val.msg[:120])
            continue
        st, res = decode_violations(prog, val)
        decs = decompositions(tuple(expr))
        valid = zor([d[0] for d in decs])
        count = zsum([z3.If(zor([z3.Not(f_ws(b)) for b in s]), 1, 0) if s else z3.IntVal(0) for s in segs])
        if st == 'err':
            viol(I, valid, 'valid-constraint-rejected', 'a well-formed line-count expression makes the run fail')
            out['cover']['err'] = out['cover'].get('err', 0) + 1
        else:
            viol(I, z3.Not(valid), 'malformed-constraint-accepted', 'a malformed line-count expression is accepted')
            vs = res.get(b'f.js', [])
            other = [p for p in res.keys() if p != b'f.js']
            if other or len(vs) > 1:
                viol(I, z3.BoolVal(True), 'extra-violations', 'more than one violation / foreign file key')
            reported = len(vs) == 1
            # group decompositions by operator to keep the formulas small
            for opname, _ in OPS:
                ds = [d for d in decs if d[1] == opname]
                if not ds:
                    continue
                if reported:
                    # a violation although the bound is satisfied?
                    cond = zor([z3.And(c, holds(opname, count, n)) for c, _o, n in ds])
                    viol(I, cond, 'satisfied-bound-reported', 'violation reported although count %s N holds' % opname)
                else:
                    cond = zor([z3.And(c, z3.Not(holds(opname, count, n))) for c, _o, n in ds])
                    viol(I, cond, 'broken-bound-missed', 'no violation although count %s N does not hold' % opname)
            if reported:
                v = vs[0]
                if v['code'] != tuple(b'line-count'):
                    viol(I, z3.BoolVal(True), 'wrong-code', 'diagnostic code is not line-count')
                data = v['data']
                payload = data.f[0].data if (data.v == 1 and isinstance(data.f[0], Opaque)) else None
                if payload is None:
                    viol(I, z3.BoolVal(True), 'data-missing', 'diagnostic carries no data')
                else:
                    actual = get_field(prog, payload, 'LineCountViolation', 'actual')
                    opv = get_field(prog, payload, 'LineCountViolation', 'op')
                    expected = get_field(prog, payload, 'LineCountViolation', 'expected')
                    viol(I, actual != count, 'data-actual-wrong', 'data.actual differs from the number of non-blank lines')
                    for opname, _ in OPS:
                        ds = [d for d in decs if d[1] == opname]
                        if not ds:
                            continue
                        if bytes(opv.b).decode() != opname:
                            viol(I, zor([c for c, _o, _n in ds]), 'data-op-wrong', 'data.op differs from the operator written')
                        viol(I, zor([z3.And(c, expected != n) for c, _o, n in ds]), 'data-expected-wrong',
                             'data.expected differs from the bound written')
            out['cover']['reported' if reported else 'silent'] = out['cover'].get('reported' if reported else 'silent', 0) + 1
        if want_sample and len(out['samples']) < 2:
            m = I.ensure_model()
            out['samples'].append(dict(src=model_bytes(m, holder['src']).decode('latin1'),
                                       outcome=('err' if st == 'err' else ('violation' if res.get(b'f.js') else 'clean'))))
    out.update(Agg(PROP, 'x').stats_from(stats))
    return out


def run_multi(task):
    """Family C: several line-count blocks in one file (concrete expressions, symbolic content, an
    empty block among them): every block is judged on its own count."""
    _fam, specs, want_sample = task[:3]
    glue = len(task) > 3 and task[3]          # all blocks side by side on ONE line (single-segment contents)
    prog = driver.load_program()
    stats = PathStats()
    out = dict(violations=[], samples=[], obligations=0, cover={}, panic_paths=0)
    holder = {}
    roles = set()

    def run_path(I):
        src = []
        bwcs = []
        infos = []
        line = 1
        col0 = 0            # column offset of the next block on a glued line
        for bi, (expr, seg_spec) in enumerate(specs):
            head = tuple(b'/* <block name="b%d" line-count="' % bi) + tuple(expr) + tuple(b'">')
            if seg_spec is None:
                # start and end tag in one comment: no content at all
                text = head + tuple(b' </block> */\n')
                cstart = cend = len(src) + len(text) - 1
                segs = []
                tagline = line
                src += list(text)
                nl = 0
            else:
                segs = [tuple(I.fresh_byte('m%d_%d_%d' % (bi, k, i), LINE_ALPHABET) for i in range(n)) for k, n in enumerate(seg_spec)]
                content = []
                for k, sg in enumerate(segs):
                    if k:
                        content.append(10)
                    content.extend(sg)
                endtag = tuple(END_TAG[:-1]) + ((32,) if glue and bi + 1 < len(specs) else (10,))
                text = head + tuple(b' */') + tuple(content) + endtag
                cstart = len(src) + len(head) + 3
                cend = cstart + len(content)
                tagline = line
                src += list(text)
                nl = len(segs) - 1
            blk = mk_block(prog, I, {'name': b'b%d' % bi, 'line-count': SString(tuple(expr), I.new_alloc())},
                           (tagline, col0 + 4), (tagline, col0 + len(head)), (cstart, cend), (tagline, col0 + len(head) + 4),
                           (tagline + nl, (col0 + len(head) + 4 + len(segs[0]) if (glue and segs) else 1)))
            bwcs.append(mk_bwc(prog, blk))
            infos.append(dict(line=tagline, col=col0 + 4, expr=bytes(expr).decode(), segs=segs))
            if glue and seg_spec is not None and bi + 1 < len(specs):
                col0 += len(text)
            else:
                line = tagline + nl + 1
                col0 = 0
        holder.update(src=tuple(src), infos=infos)
        ctx = mk_context(prog, I, [(b'f.js', tuple(src), bwcs)])
        return run_validator(I, prog, 'LineCountValidator', ctx)

    def viol(I, cond, role, summary):
        out['obligations'] += 1
        if role in roles:
            return
        if I.check(cond):
            roles.add(role)
            m = I.solver.model()
            out['violations'].append(dict(role=role, summary=summary, multi=True, src=model_bytes(m, holder['src']).decode('latin1')))

    for I, kind, val in explore(prog, models.M, run_path, stats=stats, max_paths=100000):
        if kind == 'panic':
            out['panic_paths'] += 1
            viol(I, z3.BoolVal(True), 'panic', 'panic: %s' % val.msg[:120])
            continue
        st, res = decode_violations(prog, val)
        if st == 'err':
            viol(I, z3.BoolVal(True), 'valid-constraint-rejected', 'well-formed expressions, but the run failed')
            continue
        vs = res.get(b'f.js', [])
        for info in holder['infos']:
            import re as _re
            em = _re.match(r'^\s*(<=|>=|==|<|>)\s*\+?([0-9]+)\s*$', info['expr'])
            op, n = em.group(1), int(em.group(2))
            count = zsum([z3.If(zor([z3.Not(f_ws(b)) for b in sg]), 1, 0) if sg else z3.IntVal(0) for sg in info['segs']]) if info['segs'] else z3.IntVal(0)
            mine = [v for v in vs if v['start'][0] == info['line'] and v['start'][1] == info['col']]
            if len(mine) > 1:
                viol(I, z3.BoolVal(True), 'extra-violations', 'more than one violation for one block')
            if mine:
                viol(I, holds(op, count, n), 'satisfied-bound-reported', 'block at line %d: violation although count %s %d holds' % (info['line'], op, n))
                data = mine[0]['data']
                payload = data.f[0].data if (data.v == 1 and isinstance(data.f[0], Opaque)) else None
                if payload is not None:
                    actual = get_field(prog, payload, 'LineCountViolation', 'actual')
                    viol(I, actual != count, 'data-actual-wrong', 'block at line %d: data.actual differs from its number of non-blank lines' % info['line'])
            else:
                viol(I, z3.Not(holds(op, count, n)), 'broken-bound-missed', 'block at line %d: no violation although count %s %d does not hold' % (info['line'], op, n))
        out['cover']['several blocks'] = out['cover'].get('several blocks', 0) + 1
        if want_sample and len(out['samples']) < 1:
            m = I.ensure_model()
            out['samples'].append(dict(src=model_bytes(m, holder['src']).decode('latin1'), multi=True))
    out.update(Agg(PROP, 'x').stats_from(stats))
    return out


def ref_multi(src):
    """Reference for family C: [(tag line, actual, op, expected)] of the blocks that must be reported."""
    import re
    s = src.decode('latin1')
    out = []
    for m in re.finditer(r'/\* <block name="b\d+" line-count="([^"]*)">( \*/(.*?)/\* </block> \*/| </block> \*/)', s, re.S):
        em = re.match(r'^\s*(<=|>=|==|<|>)\s*\+?([0-9]+)\s*$', m.group(1))
        op, n = em.group(1), int(em.group(2))
        content = m.group(3) or ''
        count = len([l for l in content.split('\n') if l.strip('\t\n\x0b\x0c\r ') != ''])
        ok = {'<': count < n, '<=': count <= n, '==': count == n, '>=': count >= n, '>': count > n}[op]
        if not ok:
            out.append((s.count('\n', 0, m.start()) + 1, m.start() + 3 - (s.rfind('\n', 0, m.start()) + 1) + 1, count, op, n))
    return sorted(out)


def observe_multi(binary, src):
    r = run_scan(binary, {'f.js': src}, ['f.js'])
    if r['diags'] is None:
        return [] if r['code'] == 0 else dict(error=r['stderr'][-200:])
    return sorted((d['range']['start']['line'], d['range']['start']['character'], d['data']['actual'], d['data']['op'], d['data']['expected'])
                  for d in r['diags'].get('f.js', []) if d.get('code') == 'line-count')


# ------------------------------------------------------------------ replay

def observe(binary, src):
    r = run_scan(binary, {'f.js': src}, ['f.js'])
    if r['code'] == 0:
        return dict(outcome='clean')
    if r['diags'] is not None:
        ds = r['diags'].get('f.js', [])
        lc = [d for d in ds if d.get('code') == 'line-count']
        if lc:
            return dict(outcome='violation', data=lc[0].get('data'), n=len(lc))
        return dict(outcome='other-diag', raw=r['diags'])
    if 'panicked' in r['stderr']:
        return dict(outcome='panic', stderr=r['stderr'])
    return dict(outcome='err', stderr=r['stderr'][-200:])


def ref_eval(src):
    """Reference semantics on concrete text (independent Python implementation)."""
    import re
    s = src.decode('latin1')
    m = re.match(r'^/\* <block name="blk" line-count="([^"]*)"> \*/(.*)/\* </block> \*/\n$', s, re.S)
    expr, content = m.group(1), m.group(2)
    em = re.match(r'^[\t\n\x0b\x0c\r ]*(<=|>=|==|<|>)[\t\n\x0b\x0c\r ]*\+?([0-9]+)[\t\n\x0b\x0c\r ]*$', expr)
    if not em or int(em.group(2)) >= 1 << 64:
        return dict(outcome='err')
    n = int(em.group(2))
    count = len([l for l in content.split('\n') if l.strip('\t\n\x0b\x0c\r ') != ''])
    ok = {'<': count < n, '<=': count <= n, '==': count == n, '>=': count >= n, '>': count > n}[em.group(1)]
    if ok:
        return dict(outcome='clean')
    return dict(outcome='violation', data=dict(actual=count, op=em.group(1), expected=n))


def confirm(binary, v, idx):
    src = v['src'].encode('latin1')
    if v.get('multi'):
        obs, want = observe_multi(binary, src), ref_multi(src)
        v['observed'], v['expected'] = obs, want
        v['confirmed'] = obs != want
        if v['confirmed']:
            v['replay'] = save_replay(PROP, '%s-%d' % (v['role'], idx), {'f.js': src}, 'f.js',
                                      'expected (line, column, actual, op, expected) %s ; %s' % (want, v['summary']), v)
        return v
    obs = observe(binary, src)
    want = ref_eval(src)
    v['observed'] = obs
    v['expected'] = want
    bad = obs['outcome'] != want['outcome'] or (want['outcome'] == 'violation' and obs.get('data') != want['data'])
    v['confirmed'] = bool(bad)
    if bad:
        v['replay'] = save_replay(PROP, '%s-%d' % (v['role'], idx), {'f.js': src}, 'f.js',
                                  'expected %s ; %s' % (json.dumps(want), v['summary']), v)
    return v


BOUNDS = {
    'quick': dict(expr_max=4, a_lines=[0, 1, 2], menu=['<2', '<=1', ' == 2 ', '>=3', '>0'], segs_max=3, seg_len=2, validate=30),
    'thorough': dict(expr_max=6, a_lines=[0, 1, 2, 3, 7], menu=['<2', '<=1', ' == 2 ', '>=3', '>0', '==0', '< +4\t'],
                     segs_max=5, seg_len=2, validate=150),
}


def main(tier):
    b = BOUNDS[tier]
    agg = Agg(PROP, tier)
    binary = driver.real_binary()
    driver.load_program()
    tasks = []
    # family A: symbolic expression, concrete content with k non-blank lines (+ one blank)
    for L in range(0, b['expr_max'] + 1):
        for k in b['a_lines']:
            segs = [b''] + [b'a'] * k + [b' ', b'']
            tasks.append(('A', L, tuple(segs), True))
    # family B: concrete expression menu, symbolic content
    for e in b['menu']:
        for n in range(1, b['segs_max'] + 1):
            for lens in itertools.product(range(0, b['seg_len'] + 1), repeat=n):
                tasks.append(('B', tuple(e.encode()), tuple(lens), sum(lens) % 3 == 0))
    # overflowing and degenerate numbers (concrete)
    for e in ['<18446744073709551616', '<18446744073709551615', '>=00', '<= +', '=<3', '<=>3', '', ' ']:
        tasks.append(('A', tuple(e.encode()), (b'', b'a', b''), True))
    rnd = random.Random(seed())
    rnd.shuffle(tasks)
    results = pmap(run_case, tasks, chunksize=2)
    # family C: several blocks in one file, an empty one among them, in both orders
    mt = []
    E = lambda e: tuple(e.encode())
    for e1, e2 in (('==0', '>=1'), ('<2', '==0'), ('>=1', '<1'), ('<=1', '>1')):
        for segs in ((1, 1), (2, 0, 1), (1,)):
            mt.append(('C', [(E(e1), segs), (E(e2), None)], True))
            mt.append(('C', [(E(e2), None), (E(e1), segs)], False))
            mt.append(('C', [(E(e1), segs), (E(e2), (0,)), (E(e1), (1,))], False))
        # two and three one-line blocks side by side on one source line (their start tags share the line)
        mt.append(('C', [(E(e1), (1,)), (E(e2), (1,))], True, True))
        mt.append(('C', [(E(e2), (1,)), (E(e1), (0,)), (E(e2), (2,))], False, True))
    results += pmap(run_multi, mt)
    for r in results:
        agg.add(r)
    by_role = {}
    for v in agg.violations:
        by_role.setdefault(v['role'], []).append(v)
    final = []
    for role, vs in sorted(by_role.items()):
        vs.sort(key=lambda v: len(v['src']))
        got = None
        for i, v in enumerate(vs[:6]):
            confirm(binary, v, i)
            if v['confirmed']:
                got = v
                break
        final.append(got or vs[0])
    agg.violations = final
    samples = [s for r in results for s in r.get('samples', [])]
    rnd.shuffle(samples)
    for s in samples[:b['validate']]:
        src = s['src'].encode('latin1')
        if s.get('multi'):
            if observe_multi(binary, src) == ref_multi(src):
                agg.validated += 1
            else:
                msg = 'real %s vs reference %s on %r' % (observe_multi(binary, src), ref_multi(src), s['src'])
                agg.validation_failures.append(msg)
                agg.engine_errors.append({'engine_error': 'translator validation: ' + msg})
            continue
        obs = observe(binary, src)
        if obs['outcome'] == s['outcome']:
            agg.validated += 1
        else:
            msg = 'mirsym outcome %s vs real %s on %r' % (s['outcome'], obs, s['src'])
            agg.validation_failures.append(msg)
            agg.engine_errors.append({'engine_error': 'translator validation: ' + msg})
    bounds = {k: v for k, v in b.items()}
    bounds['tasks'] = len(tasks)
    bounds['alphabets'] = dict(expr=''.join(map(chr, EXPR_ALPHABET)), line='a, space, tab, form feed')
    return finish(
        agg, bounds,
        assumptions=['ASCII only; expression bytes over the stated alphabet; content bytes over {a, space, tab, form feed}',
                     'family A: expression symbolic, content concrete; family B: expression from a concrete menu, content symbolic',
                     'serde_json::to_value is modelled as the identity on the payload struct; message text is opaque'],
        stubs=['serde_json::to_value (identity on the struct)', 'fmt::format / anyhow message construction (opaque)'],
        must_cover=['err', 'reported', 'silent', 'several blocks'],
        explanation='reference grammar and count written as Z3 formulas over the same symbolic bytes; per path: PC∧valid∧Err, PC∧¬valid∧Ok, PC∧match_D∧(violation xor ¬(count OP N)), data fields')


if __name__ == '__main__':
    sys.exit(main(sys.argv[1] if len(sys.argv) > 1 else 'quick'))
