"""C17 — default Lua mode is a sandbox (selection logic; the Lua VM itself is a stub).

Encoded (real MIR): check_lua::lua_from_env.
Symbolic: BLOCKWATCH_LUA_MODE unset, or every byte of its value up to N bytes.
Stub with contract (Lua 5.4 manual §6, mlua documentation): Lua::new() = all safe libraries,
no native-module loading; Lua::unsafe_new() = everything incl. debug and native loading;
Lua::new_with(L) = base library + libraries in L, no native loading (rejects DEBUG);
unsafe_new_with(L) = the same with native loading whenever PACKAGE is in L; the base library
always defines dofile, loadfile, load ...; globals().set(k, Nil) removes the global k.
Oracle: "safe" -> io/os/package present, no debug, no native loading; "unsafe" -> debug and
native loading; anything else -> no io, os, package, debug, require, dofile, loadfile.
"""
import json
import os
import random
import shutil
import sys

import z3

from .common import *  # noqa
from .vharness import *  # noqa
from mirsym.interp import explore, PathStats
from mirsym.models import reg, new_string, as_sstr

PROP = 'C17'
ALL_SAFE = frozenset(['coroutine', 'table', 'io', 'os', 'string', 'utf8', 'math', 'package'])
ALL = ALL_SAFE | frozenset(['debug', 'ffi'])
BASE_GLOBALS = frozenset(['assert', 'collectgarbage', 'dofile', 'error', 'getmetatable', 'ipairs', 'load', 'loadfile', 'next', 'pairs',
                          'pcall', 'print', 'rawequal', 'rawget', 'rawlen', 'rawset', 'select', 'setmetatable', 'tonumber',
                          'tostring', 'type', 'xpcall', '_G', '_VERSION'])
FORBIDDEN = ['io', 'os', 'package', 'debug', 'require', 'dofile', 'loadfile']
MODE_ALPHABET = sorted(set(ord(c) for c in 'unsafeboxdSAFE '))


class LuaObj:
    """A Lua table of the contract stub: identity matters (two globals may name one table)."""

    def __init__(self, label, entries=None):
        self.label = label
        self.e = dict(entries or {})

    def __repr__(self):
        return 'LuaObj(%s)' % self.label


FORBIDDEN_IDS = {('fn', 'dofile'): 'dofile', ('fn', 'loadfile'): 'loadfile', ('fn', 'require'): 'require'}
FORBIDDEN_LIBS = ('io', 'os', 'package', 'debug')


class LuaModel:
    """Object graph of a fresh interpreter: the globals table holds the base library (functions are
    identities ('fn', name), `_G` is the globals table itself), one table per loaded library, and
    `package.loaded` naming every loaded library and `_G` (Lua 5.4 manual 6.3)."""

    def __init__(self, libs, native):
        self.libs = frozenset(libs)
        self.native = native
        g = LuaObj('_G')
        for n in BASE_GLOBALS:
            g.e[n] = ('fn', n)
        g.e['_G'] = g
        g.e['_VERSION'] = ('str', 'Lua 5.4')
        self.libobj = {}
        for lib in sorted(self.libs):
            self.libobj[lib] = g.e[lib] = LuaObj('lib:' + lib)
        if 'package' in self.libs:
            g.e['require'] = ('fn', 'require')
            loaded = LuaObj('package.loaded', dict(self.libobj))
            loaded.e['_G'] = g
            self.libobj['package'].e['loaded'] = loaded
        self.cur = g

    def globals(self):
        """names defined in the script's global environment"""
        return set(k for k, v in self.cur.e.items() if v is not None)

    def reachable(self):
        """forbidden facilities reachable from the global environment through any chain of table fields"""
        seen, todo, found = set(), [self.cur], set()
        while todo:
            t = todo.pop()
            if id(t) in seen:
                continue
            seen.add(id(t))
            if t.label.startswith('lib:') and t.label[4:] in FORBIDDEN_LIBS:
                found.add(t.label[4:])
            for k, v in t.e.items():
                if isinstance(v, LuaObj):
                    todo.append(v)
                elif v in FORBIDDEN_IDS:
                    found.add(FORBIDDEN_IDS[v])
        return found


def stdlib_const(raw):
    name = raw.split('::')[-1]
    table = {'COROUTINE': ['coroutine'], 'TABLE': ['table'], 'IO': ['io'], 'OS': ['os'], 'STRING': ['string'], 'UTF8': ['utf8'],
             'MATH': ['math'], 'PACKAGE': ['package'], 'DEBUG': ['debug'], 'FFI': ['ffi'], 'NONE': [], 'ALL_SAFE': sorted(ALL_SAFE),
             'ALL': sorted(ALL), 'BIT': ['bit'], 'JIT': ['jit'], 'BUFFER': ['buffer'], 'VECTOR': ['vector']}
    if name not in table:
        raise Unmodelled('mlua::StdLib::%s' % name)
    return Opaque('StdLib', frozenset(table[name]))


def install(I, env_value):
    holder = {'lua': None}

    def var_stub(I2, a, ci, dt):
        if env_value is None:
            return Err(Opaque('VarError'))
        return Ok(SString(tuple(env_value), I2.new_alloc()))

    def libs_of(x):
        x = I.deref_value(x) if isinstance(x, Ref) else x
        if isinstance(x, Opaque) and x.tag == 'StdLib':
            return x.data
        raise EngineError('expected StdLib flags, got %r' % (x,))

    def mk(libs, native):
        m = LuaModel(libs, native)
        holder['lua'] = m
        return Struct('Lua', (m,))

    st = I.stubs
    st['var'] = var_stub
    st['env::var'] = var_stub
    st['BitOr::bitor'] = lambda I2, a, ci, dt: Opaque('StdLib', libs_of(a[0]) | libs_of(a[1]))
    st['BitAnd::bitand'] = lambda I2, a, ci, dt: Opaque('StdLib', libs_of(a[0]) & libs_of(a[1]))
    st['BitXor::bitxor'] = lambda I2, a, ci, dt: Opaque('StdLib', libs_of(a[0]) ^ libs_of(a[1]))
    st['Sub::sub'] = lambda I2, a, ci, dt: Opaque('StdLib', libs_of(a[0]) - libs_of(a[1]))
    st['Not::not'] = lambda I2, a, ci, dt: Opaque('StdLib', ALL - libs_of(a[0]))
    st['LuaStdLib::contains'] = lambda I2, a, ci, dt: libs_of(a[1]) <= libs_of(a[0])
    st['<LuaOptions as Default>::default'] = lambda I2, a, ci, dt: Opaque('LuaOptions')
    st['LuaOptions::new'] = lambda I2, a, ci, dt: Opaque('LuaOptions')
    st['Lua::new'] = lambda I2, a, ci, dt: mk(ALL_SAFE, False)
    st['Lua::unsafe_new'] = lambda I2, a, ci, dt: mk(ALL, True)

    def new_with(I2, a, ci, dt):
        libs = libs_of(a[0])
        if 'debug' in libs or 'ffi' in libs:
            return Err(Opaque('LuaError', 'the unsafe standard libraries are not allowed in safe mode'))
        return Ok(mk(libs, False))
    st['Lua::new_with'] = new_with
    st['Lua::unsafe_new_with'] = lambda I2, a, ci, dt: mk(libs_of(a[0]), 'package' in libs_of(a[0]))

    def lua_of(x):
        v = I.deref_value(x) if isinstance(x, Ref) else x
        while isinstance(v, Ref):
            v = I.deref_value(v)
        return v.f[0]
    def tab(o):
        return Struct('LuaTable', (o,))

    def obj_of(x):
        v = I.deref_value(x) if isinstance(x, Ref) else x
        while isinstance(v, Ref):
            v = I.deref_value(v)
        if isinstance(v, Struct) and v.name == 'LuaTable':
            return v.f[0]
        raise EngineError('expected a Lua table handle, got %r' % (v,))

    def to_lua(I2, val):
        """Rust value handed to mlua -> value of the object graph (None = nil)"""
        v = I2.deref_value(val) if isinstance(val, Ref) else val
        if (isinstance(v, Enum) and v.vname == 'Nil') or (isinstance(v, Opaque) and v.tag == 'LuaNil') or \
                (isinstance(v, Struct) and v.name in ('Nil', 'LuaNil')):
            return None
        if isinstance(v, Opaque) and v.tag == 'LuaVal':
            return v.data
        if isinstance(v, Struct) and v.name == 'LuaTable':
            return v.f[0]
        if isinstance(v, bool):
            return ('bool', v)
        raise Unmodelled('value handed to mlua: %r' % (v,))

    def from_lua(v):
        if v is None:
            return Opaque('LuaNil')
        return Opaque('LuaVal', v)

    def key_of(I2, key):
        key = I2.deref_value(key) if isinstance(key, Ref) else key
        return bytes(as_sstr(I2, key).b).decode()

    st['Lua::globals'] = lambda I2, a, ci, dt: tab(lua_of(a[0]).cur)
    st['Lua::create_table'] = lambda I2, a, ci, dt: Ok(tab(LuaObj('new')))

    def set_globals(I2, a, ci, dt):
        lua_of(a[0]).cur = obj_of(a[1])
        return Ok(UNIT)
    st['Lua::set_globals'] = set_globals

    def table_set(I2, a, ci, dt):
        t = obj_of(a[0])
        kb = key_of(I2, a[1])
        v = to_lua(I2, a[2])
        if v is None:
            t.e.pop(kb, None)
        else:
            t.e[kb] = v
        return Ok(UNIT)
    st['LuaTable::set'] = table_set
    st['Table::set'] = table_set
    st['LuaTable::raw_set'] = table_set
    st['Table::raw_set'] = table_set
    st['LuaTable::raw_remove'] = lambda I2, a, ci, dt: table_set(I2, [a[0], a[1], Opaque('LuaNil')], ci, dt)
    st['Table::raw_remove'] = st['LuaTable::raw_remove']

    def table_get(I2, a, ci, dt):
        v = obj_of(a[0]).e.get(key_of(I2, a[1]))
        if isinstance(v, LuaObj) and 'Table' in (dt or ''):
            return Ok(tab(v))
        return Ok(from_lua(v))
    for n in ('LuaTable::get', 'Table::get', 'LuaTable::raw_get', 'Table::raw_get'):
        st[n] = table_get

    def table_contains(I2, a, ci, dt):
        return Ok(obj_of(a[0]).e.get(key_of(I2, a[1])) is not None)
    st['Table::contains_key'] = table_contains
    st['LuaTable::contains_key'] = table_contains

    def table_clear(I2, a, ci, dt):
        obj_of(a[0]).e.clear()
        return Ok(UNIT)
    st['Table::clear'] = table_clear
    st['LuaTable::clear'] = table_clear

    def table_pairs(I2, a, ci, dt):
        # snapshot in key order (Lua's own order is unspecified; nothing here may depend on it)
        t = obj_of(a[0])
        items = []
        for k in sorted(t.e):
            v = t.e[k]
            items.append(Ok(Tuple(new_string(I2, k.encode()), tab(v) if False else from_lua(v))))
        return models.ListIter(items)
    st['Table::pairs'] = table_pairs
    st['LuaTable::pairs'] = table_pairs
    return holder


# mlua constants
_orig_const_model = models.M.const_model


def _const_model(raw, segs):
    if 'StdLib' in raw and raw.split('::')[-1].isupper():
        return stdlib_const(raw)
    if segs[-1] in ('Nil', 'LuaNil') or raw.endswith('Value::Nil'):
        return Opaque('LuaNil')
    return _orig_const_model(raw, segs)


models.M.const_model = _const_model


def run_mode(task):
    L, want_sample = task       # L = -1: variable unset
    prog = driver.load_program()
    stats = PathStats()
    f = prog.find_fn('lua_from_env')
    out = dict(violations=[], samples=[], obligations=0, cover={}, panic_paths=0)
    holder = {}
    roles = set()

    def run_path(I):
        if L < 0:
            val = None
        else:
            val = tuple(I.fresh_byte('m%d' % i, MODE_ALPHABET) for i in range(L))
        holder['val'] = val
        holder['h'] = install(I, val)
        return I.call_fn(f, [])

    def viol(I, cond, role, summary):
        out['obligations'] += 1
        if role in roles:
            return
        if I.check(cond):
            roles.add(role)
            m = I.solver.model()
            v = holder['val']
            out['violations'].append(dict(role=role, summary=summary,
                                          mode=None if v is None else model_bytes(m, v).decode('latin1')))

    def is_word(v, w):
        if v is None or len(v) != len(w):
            return z3.BoolVal(False)
        return zand([b == ord(c) for b, c in zip(v, w)])

    for I, pk, val in explore(prog, models.M, run_path, stats=stats, max_paths=100000):
        v = holder['val']
        if pk == 'panic':
            out['panic_paths'] += 1
            viol(I, z3.BoolVal(True), 'panic', 'panic: %s' % val.msg[:120])
            continue
        lua = holder['h']['lua']
        if lua is None:
            viol(I, z3.BoolVal(True), 'no-interpreter', 'no Lua interpreter constructed')
            continue
        g = lua.globals()
        safe = is_word(v, 'safe')
        unsafe = is_word(v, 'unsafe')
        default = z3.And(z3.Not(safe), z3.Not(unsafe))
        leaked = sorted(set(n for n in FORBIDDEN if n in g) | lua.reachable())
        if leaked or lua.native:
            viol(I, default, 'sandbox-leaks:' + ','.join(leaked + (['native-loading'] if lua.native else [])),
                 'default mode exposes %s' % (leaked + (['native module loading'] if lua.native else []),))
        if 'debug' in g or 'debug' in leaked or lua.native:
            viol(I, z3.Not(unsafe), 'unsafe-features-outside-unsafe-mode', 'debug / native loading available although the mode is not "unsafe"')
        if not {'io', 'os', 'package'} <= g:
            viol(I, z3.Or(safe, unsafe), 'safe-mode-misses-libraries', 'io/os/package missing in safe or unsafe mode')
        if not ('debug' in g and lua.native):
            viol(I, unsafe, 'unsafe-mode-incomplete', '"unsafe" mode lacks debug or native loading')
        if not {'coroutine', 'table', 'string', 'utf8', 'math'} <= g:
            viol(I, z3.BoolVal(True), 'pure-library-missing', 'one of coroutine/table/string/utf8/math is missing')
        key = 'libs:' + ','.join(sorted(lua.libs)) + ('+native' if lua.native else '')
        out['cover'][key] = out['cover'].get(key, 0) + 1
        out['cover']['unset' if v is None else 'set'] = 1
        if want_sample and len(out['samples']) < 3:
            m = I.ensure_model()
            out['samples'].append(dict(mode=None if v is None else model_bytes(m, v).decode('latin1'),
                                       forbidden_present=sorted(leaked), native=lua.native))
    out.update(Agg(PROP, 'x').stats_from(stats))
    return out


# ------------------------------------------------------------------ replay with the real Lua VM

PROBE = '''
-- what the script can reach is sampled twice: while the chunk is loaded (top level) and inside
-- validate(); a name counts as present if it was reachable at either moment. Reachable = a field of
-- that name in any table that can be reached from the global environment (_ENV, _G, the string
-- metatable) through table fields and metatables.
local names = {"io", "os", "package", "debug", "require", "dofile", "loadfile"}
local wanted = {}
for _, n in ipairs(names) do wanted[n] = true end
local function reach(found)
  local seen, todo = {}, {_ENV, _G, getmetatable("")}
  while #todo > 0 do
    local t = todo[#todo]
    todo[#todo] = nil
    if type(t) == "table" and not seen[t] then
      seen[t] = true
      for k, v in next, t do
        if type(k) == "string" and wanted[k] and v ~= nil then found[k] = true end
        if type(v) == "table" then todo[#todo + 1] = v end
      end
      local mt = getmetatable(t)
      if type(mt) == "table" then todo[#todo + 1] = mt end
    end
  end
end
local found = {}
reach(found)
function validate(ctx, content)
  reach(found)
  local present = {}
  for _, n in ipairs(names) do
    if found[n] then present[#present + 1] = n end
  end
  local native = false
  if package ~= nil and package.loadlib ~= nil then
    local ok = pcall(package.loadlib, "libc.so.6", "*")
    native = ok
  end
  return "PRESENT=" .. table.concat(present, ",") .. ";NATIVE=" .. tostring(native)
end
'''


def observe(binary, mode):
    d = scratch_dir('c17')
    try:
        git_init(d)
        open(os.path.join(d, 'probe.lua'), 'w').write(PROBE)
        open(os.path.join(d, 'f.py'), 'w').write('# <block check-lua="probe.lua">\nx\n# </block>\n')
        env = {} if mode is None else {'BLOCKWATCH_LUA_MODE': mode}
        e2 = dict(os.environ)
        e2.pop('BLOCKWATCH_LUA_MODE', None)
        r = run_blockwatch(binary, d, ['f.py'], stdin=b'', env_extra=env)
    finally:
        shutil.rmtree(d, ignore_errors=True)
    import re
    m = re.search(r'PRESENT=([a-z,]*);NATIVE=(true|false)', r['stderr'])
    if not m:
        return dict(error=r['stderr'][-300:], code=r['code'])
    return dict(present=sorted(x for x in m.group(1).split(',') if x), native=m.group(2) == 'true')


def expected(mode):
    if mode == 'unsafe':
        return dict(present=sorted(FORBIDDEN), native=True)
    if mode == 'safe':
        return dict(present=sorted(['io', 'os', 'package', 'require', 'dofile', 'loadfile']), native=False)
    return dict(present=[], native=False)


def confirm(binary, v, idx):
    mode = v.get('mode')
    if mode is not None and ('\0' in mode):
        v['confirmed'] = False
        return v
    obs = observe(binary, mode)
    want = expected(mode)
    v['observed'] = obs
    v['expected'] = want
    bad = ('error' in obs) or obs.get('present') != want['present'] or obs.get('native') != want['native']
    # safe mode: only the libraries the property names are checked
    if mode == 'safe' and 'error' not in obs:
        bad = not ({'io', 'os', 'package'} <= set(obs['present'])) or 'debug' in obs['present'] or obs['native']
    v['confirmed'] = bool(bad)
    if bad:
        files = {'probe.lua': PROBE.encode(), 'f.py': b'# <block check-lua="probe.lua">\nx\n# </block>\n'}
        cmd = ('BLOCKWATCH_LUA_MODE=%r ' % mode if mode is not None else '')
        rd = save_replay(PROP, '%s-%d' % (v['role'].replace(':', '_').replace(',', '_'), idx), files, 'f.py',
                         'run with %s; expected the probe to report %s; %s' % (cmd or 'the variable unset', want, v['summary']), v)
        v['replay'] = rd
    return v


BOUNDS = {'quick': dict(maxlen=7, validate=8), 'thorough': dict(maxlen=10, validate=20)}


def main(tier):
    b = BOUNDS[tier]
    agg = Agg(PROP, tier)
    binary = driver.real_binary()
    driver.load_program()
    rnd = random.Random(seed())
    results = pmap(run_mode, [(L, True) for L in range(-1, b['maxlen'] + 1)])
    for r in results:
        agg.add(r)
    by_role = {}
    for v in agg.violations:
        by_role.setdefault(v['role'], []).append(v)
    final = []
    for role, vs in sorted(by_role.items()):
        got = None
        for i, v in enumerate(vs[:6]):
            confirm(binary, v, i)
            if v['confirmed']:
                got = v
                break
        final.append(got or vs[0])
    agg.violations = final
    samples = [s for r in results for s in r.get('samples', [])]
    rnd.shuffle(samples)
    modes = [None, 'safe', 'unsafe', 'sandboxed'] + [s['mode'] for s in samples if s['mode']][:b['validate']]
    for mode in modes:
        obs = observe(binary, mode)
        want = expected(mode)
        ok = 'error' not in obs and obs['native'] == want['native'] and \
            (set(obs['present']) == set(want['present']) if mode != 'safe' else {'io', 'os', 'package'} <= set(obs['present']))
        if ok:
            agg.validated += 1
        else:
            msg = 'mode %r: real VM reports %s, contract says %s' % (mode, obs, want)
            agg.validation_failures.append(msg)
            agg.engine_errors.append({'engine_error': 'translator validation (mlua contract): ' + msg})
    bounds = dict(env_value_max=b['maxlen'], alphabet=''.join(map(chr, MODE_ALPHABET)))
    return finish(
        agg, bounds,
        assumptions=['the Lua VM and mlua are a contract stub (library sets as sets of names, base library per the Lua 5.4 manual, native loading per mlua\'s safe/unsafe constructors); the contract is compared with the real VM through a probe script on sampled modes',
                     'std::env::var returns Err or an arbitrary string of up to N bytes over the stated alphabet',
                     'everything the Lua C library actually does is outside: the claim is that the Rust code asks for the right thing for every mode string'],
        stubs=['std::env::var', 'mlua::Lua::new / unsafe_new / new_with / unsafe_new_with / globals', 'mlua::Table::set', 'mlua::StdLib flags and operators'],
        must_cover=['unset', 'set'],
        explanation='for every mode string within the bound, the constructor chosen and the resulting global set are compared with the mode\'s allow-list')


if __name__ == '__main__':
    sys.exit(main(sys.argv[1] if len(sys.argv) > 1 else 'quick'))
