"""File layouts for the block/validator harnesses: a start-tag comment (possibly several
lines, tag on any of them), content lines, an end-tag comment.  The Block handed to the
validators is produced by the crate's own MIR (parse_blocks_from_comments, BlockStart::new,
source_position_at, into_block) from `Comment` values that stand for what tree-sitter
delivers; the comment text is normalised by the crate's own normaliser MIR.
"""
import re

import z3

from .common import *  # noqa
from .vharness import *  # noqa
from mirsym.models import new_string, ListIter, as_sstr

WS = (32, 9, 11)       # space, tab, vertical tab (whitespace for str::trim, not for the *_ascii variants)


class Layout:
    """Concrete structure, symbolic content bytes.

    pre      : number of plain code lines before the block
    indent   : spaces before the start comment
    clines   : list of comment-line texts (without delimiters); the tag sits in clines[t]
    attrs    : attribute text inside the tag, e.g. ' keep-sorted'
    trail0   : bytes after the start comment on its last line (content line 0)
    lines    : list of byte tuples: full content lines 1..m (without '\\n')
    last     : bytes before the end comment on its line (last partial content line)
    """

    def __init__(self, pre, indent, ncomment, tagline, tagpad, attrs, trail0, lines, last, name='blk',
                 base_line=1, base_off=0, tail=True, stars=1):
        self.stars = stars          # decorative stars: `/**` ... ` **` ... (banner-style comments)
        self.pre = pre
        self.indent = indent
        self.ncomment = ncomment
        self.tagline = tagline
        self.tagpad = tagpad
        self.attrs = attrs
        self.trail0 = tuple(trail0)
        self.lines = [tuple(l) for l in lines]
        self.last = tuple(last)
        self.name = name
        self.base_line = base_line
        self.base_off = base_off
        self.tail = tail
        self._build()

    def _build(self):
        out = []
        line = self.base_line
        col = 1
        base = self.base_off

        def emit(bs):
            nonlocal line, col
            for b in bs:
                out.append(b)
                if b == 10:
                    line += 1
                    col = 1
                else:
                    col += 1
        for i in range(self.pre):
            emit(b'code%d();\n' % i)
        emit(b' ' * self.indent)
        self.c_start = (base + len(out), line, col)
        emit(b'/' + b'*' * self.stars)
        tag = b'<block name="%s"%s>' % (self.name.encode(), self.attrs.encode() if isinstance(self.attrs, str) else self.attrs)
        for k in range(self.ncomment):
            if k > 0:
                emit(b'\n' + b' ' * self.indent + b' ' + b'*' * self.stars)
            if k == self.tagline:
                emit(b' ' * (1 + self.tagpad))
                self.tag_lt = (base + len(out), line, col)
                emit(tag)
                self.tag_gt = (base + len(out) - 1, line, col - 1)
            else:
                emit(b' text %d' % k)
        emit(b' */')
        self.c_end = (base + len(out), line, col)
        self.content_start = (base + len(out), line, col)
        # content
        self.content_lines = []      # (line number, start col of the line's first byte, bytes)
        self.content_lines.append((line, col, self.trail0))
        emit(self.trail0)
        for l in self.lines:
            emit(b'\n')
            self.content_lines.append((line, col, l))
            emit(l)
        emit(b'\n')
        self.content_lines.append((line, col, self.last))
        emit(self.last)
        self.content_end = (base + len(out), line, col)
        self.e_start = (base + len(out), line, col)
        emit(b'/* </block> */')
        self.e_end = (base + len(out), line, col)
        emit(b'\n')
        if self.tail:
            emit(b'tail();\n')
        self.src = tuple(out)
        self.end_line = line
        self.end_off = base + len(out)

    def comments(self, I, prog):
        """The two `Comment` values tree-sitter would deliver, text normalised by real MIR."""
        f_norm = prog.find_fn('c_style_multiline_comment_processor')
        res = []
        for (s, e) in ((self.c_start, self.c_end), (self.e_start, self.e_end)):
            raw = SStr(self.src[s[0] - self.base_off:e[0] - self.base_off], I.new_alloc(), 0)
            text = I.call_fn(f_norm, [raw])
            res.append(mk_struct(prog, 'Comment',
                                 position_range=Struct('Range', (position(prog, s[1], s[2]), position(prog, e[1], e[2]))),
                                 source_range=Struct('Range', (s[0], e[0])),
                                 comment_text=text))
        return res


_TAG_RE = re.compile(r'<block((?:\s+[\w-]+(?:\s*=\s*(?:"[^"]*"|\'[^\']*\'|[\w-]+))?)*)\s*>|<\s*/\s*block\s*>', re.S)
_ATTR_RE = re.compile(r'([\w-]+)(?:\s*=\s*(?:"([^"]*)"|\'([^\']*)\'|([\w-]+)))?')


_START_RE = re.compile(r'<block((?:[ \t\r\n]+[\w-]+(?:[ \t\r\n]*=[ \t\r\n]*(?:"[^"]*"|\'[^\']*\'|[\w-]+))?)*)[ \t\r\n]*>', re.S)
_END_RE = re.compile(r'<[ \t\r\n]*/[ \t\r\n]*block[ \t\r\n]*>', re.S)


def install_tag_parser_stub(I, prog):
    """The tag *scanner* (WinnowBlockTagParser::next: cursor handling, search for '<' candidates,
    offsets) is the crate's own MIR.  Only the two winnow grammar entry points it calls,
    `parse_start_tag.parse_peek` and `parse_end_tag.parse_peek`, are replaced by a reference matcher
    anchored at the start of the (concrete) text — the winnow grammar itself is not encoded (C05)."""
    def parse_peek(I2, a, ci, dt):
        text = as_sstr(I2, a[1])
        bs = text.b
        if not all(isinstance(b, int) for b in bs):
            raise EngineError('tag grammar stub needs concrete comment text')
        try:
            s = bytes(bs).decode('utf-8')
        except UnicodeDecodeError:
            s = bytes(bs).decode('latin1')
        is_start = 'parse_start_tag' in ci.raw
        m = (_START_RE if is_start else _END_RE).match(s)
        if m is None:
            return Err(Opaque('ContextError'))
        consumed = len(s[:m.end()].encode('utf-8'))
        rest = SStr(bs[consumed:], text.alloc, text.off + consumed)
        if not is_start:
            return Ok(Tuple(rest, UNIT))
        seen = {}
        for am in _ATTR_RE.finditer(m.group(1) or ''):
            val = am.group(2) if am.group(2) is not None else (am.group(3) if am.group(3) is not None else (am.group(4) or ''))
            seen[am.group(1)] = val
        ents = [Tuple(new_string(I2, k.encode('utf-8')), new_string(I2, v.encode('utf-8'))) for k, v in seen.items()]
        return Ok(Tuple(rest, MapVal(ents, 'HashMap')))

    # default: the crate's own grammar functions run on the winnow combinator models
    # (mirsym/winnowmodel.py); VERIF_TAG_STUB=1 falls back to the reference matcher above
    import os
    if os.environ.get('VERIF_TAG_STUB') == '1':
        I.stubs['Parser::parse_peek'] = parse_peek


def parse_layout_blocks(I, prog, lay):
    """Run the crate's block pairing on the layout's comments; returns the Result value.
    `lay` may be a list of consecutive layouts of one file."""
    install_tag_parser_stub(I, prog)
    f = prog.find_fn('parse_blocks_from_comments')
    lays = lay if isinstance(lay, (list, tuple)) else [lay]
    cs = []
    for l in lays:
        cs.extend(l.comments(I, prog))
    return I.call_fn(f, [ListIter(cs)])


def context_for(I, prog, lay, blocks, path=b'f.js'):
    bwcs = [mk_bwc(prog, b) for b in blocks]
    return mk_context(prog, I, [(path, lay.src, bwcs)])


# ------------------------------------------------------------------ line specs in trim-normal form

def sym_line(I, tag, spec, key_alphabet, inner_alphabet=None):
    """spec = (lead, klen, trail): `lead` whitespace bytes, a key of klen bytes whose first and
    last byte are not whitespace, `trail` whitespace bytes.  Returns (bytes tuple, key bytes)."""
    lead, klen, trail = spec
    bs = []
    if isinstance(lead, (bytes, tuple)):
        bs.extend(lead)          # literal (multi-byte) whitespace
        lead = 0
    for i in range(lead):
        bs.append(I.fresh_byte('%s_w%d' % (tag, i), WS))
    key = []
    for i in range(klen):
        alpha = key_alphabet if (i == 0 or i == klen - 1 or inner_alphabet is None) else inner_alphabet
        key.append(I.fresh_byte('%s_k%d' % (tag, i), alpha))
    bs.extend(key)
    for i in range(trail):
        bs.append(I.fresh_byte('%s_t%d' % (tag, i), WS))
    return tuple(bs), tuple(key)


def lex_lt(a, b):
    """a < b for byte tuples of concrete lengths (bytes may be symbolic): Z3 formula."""
    alts = []
    eq_prefix = []
    for k in range(min(len(a), len(b))):
        alts.append(zand(eq_prefix + [a[k] < b[k]]))
        eq_prefix = eq_prefix + [a[k] == b[k]]
    if len(a) < len(b):
        alts.append(zand(eq_prefix))
    return zor(alts)


def lex_eq(a, b):
    if len(a) != len(b):
        return z3.BoolVal(False)
    return zand([x == y for x, y in zip(a, b)])
