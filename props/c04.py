"""C04 — no crash on any input (Rust side).

Question put to the solver: is any panic outcome (MIR assert failure, expect/unwrap/
unreachable!, slice index or char-boundary failure) reachable in
  (a) the eleven per-language comment normaliser closures and c_style_multiline_comment_processor,
      for every comment text up to N bytes that starts with the opener the grammar guarantees
      (the closing delimiter is NOT assumed);
  (b) diff_parser::line_changes + the intersection functions, for every diff shape of C01;
  (c) the tag pairing / position arithmetic, for every comment sequence of C12.
A reachable panic is a *text*, not yet a file: it is reported only if some file of a
language that routes to that normaliser makes the real binary crash (exit 101 / panic
message / timeout); otherwise it is recorded as `unconfirmed` in the evidence.
"""
import json
import random
import sys

import z3

from .common import *  # noqa
from .vharness import *  # noqa
from . import normalisers, c01, c12
from mirsym.interp import PathStats

PROP = 'C04'

BOUNDS = {
    'quick': dict(lmax=6, c01=dict(max_lines=3, max_hunks=2), c12_sample=60),
    'thorough': dict(lmax=8, c01=dict(max_lines=5, max_hunks=2), c12_sample=600),
}


def main(tier):
    b = BOUNDS[tier]
    agg = Agg(PROP, tier)
    binary = driver.real_binary()
    prog = driver.load_program()
    rnd = random.Random(seed())
    tasks = normalisers.normaliser_tasks(prog, b['lmax'])
    tasks.sort(key=lambda t: -t[2])
    results = pmap(normalisers.run_normaliser, tasks)
    panics = []
    for r in results:
        panics.extend(r.get('panics', []))
        # length/byte preservation belongs to C03; keep only engine errors and stats here
        r2 = dict(r)
        r2['violations'] = []
        agg.add(r2)
    # (b) diff side
    shapes = c01.gen_shapes(b['c01']['max_lines'], b['c01']['max_hunks'], 1)
    # every shape with one range per modified line, and the shapes that pair a removed with an added line
    # once more with NO changed range (identical text: the end-of-line-only edits git produces)
    res_b = pmap(c01.run_shape, [(s, 1, False) for s in shapes] + [(s, 0, False) for s in shapes if any('-+' in h for h in s)], chunksize=8)
    for r in res_b:
        r2 = dict(r)
        r2['violations'] = [v for v in r.get('violations', []) if v.get('role', '').startswith('panic')]
        for v in r2['violations']:
            c01.confirm(binary, v, 0)
        r2['cover'] = {'diff-side paths': r.get('paths', 0)}
        agg.add(r2)
    # (c) pairing
    import itertools
    seqs = []
    for n in range(1, 4):
        for s in itertools.product(['S', 'E', 'SE', 'nS', 'ES', 'Snt', 'nE', 'SS', 'tnSnE', 'uS', 'uE', 'XB$'], repeat=n):
            if 1 <= c12.events_in(s) <= 6:
                seqs.append(s)
    rnd.shuffle(seqs)
    res_c = pmap(c12.run_seq, [(s, False) for s in seqs[:b['c12_sample']]], chunksize=8)
    for r in res_c:
        r2 = dict(r)
        r2['violations'] = []
        for v in r.get('violations', []):
            if v.get('role') == 'panic' and not any(x.get('role') == 'panic' and x.get('confirmed') for x in agg.violations):
                c12.confirm_panic(binary, v, 0, PROP)
                if v.get('confirmed') or not any(x.get('role') == 'panic' for x in agg.violations):
                    r2['violations'].append(v)
        r2['cover'] = {'pairing paths': r.get('paths', 0)}
        agg.add(r2)
    # (d) the walk over the syntax tree: no panic, ends, and its call nesting does not grow with the
    # nesting depth of the source (a recursive walk overflows the stack on deeply nested input)
    from . import treewalk
    for r in treewalk.run_all(tier):
        r2 = dict(r)
        r2['violations'] = [v for v in r.get('violations', []) if v['role'] in ('tree-walk-panic', 'walk-depth-grows-with-nesting')]
        for v in r2['violations']:
            treewalk.confirm_walk(binary, PROP, v, 0)
        c = dict(r.get('cover', {}))
        r2['cover'] = {'tree walk paths': r.get('paths', 0), 'stack depth': c.get('stack depth', 0)}
        agg.add(r2)
    # confirm normaliser panics on the real binary, one per (closure, message)
    groups = {}
    for p in panics:
        groups.setdefault((p['closure'], p['kind'], p['msg'][:60]), []).append(p)
    unconfirmed = []
    confirmed = []
    for key, ps in sorted(groups.items()):
        ps.sort(key=lambda p: len(p['text']))
        hit = None
        for p in ps[:6]:
            hit = normalisers.try_panic_on_binary(binary, p['text'], p['exts'])
            if hit:
                role = 'panic:%s:%s' % (key[0].split('::')[0], ''.join(c for c in key[2] if c.isalnum() or c in ' _')[:40].strip().replace(' ', '_'))
                v = dict(role=role, summary='panic in %s on comment text %r: %s' % (key[0], p['text'], key[2]),
                         confirmed=True, observed=hit)
                v['replay'] = save_replay(PROP, role.replace(':', '_'), {'f.' + hit['ext']: hit['content'].encode('latin1')},
                                          "list '**'", 'expected exit 0/1 without a panic; ' + v['summary'], v)
                confirmed.append(v)
                break
        if not hit:
            unconfirmed.append(dict(closure=key[0], kind=key[1], msg=key[2], example=ps[0]['text'],
                                    tried_extensions=ps[0]['exts']))
    agg.violations.extend(confirmed)
    # translator validation: the real binary must survive sampled comment texts the MIR run normalised
    samples = [s for r in results for s in r.get('samples', [])]
    rnd.shuffle(samples)
    for s in samples[:12 if tier == 'quick' else 60]:
        hit = normalisers.try_panic_on_binary(binary, s['text'], s['exts'][:2])
        if hit is None:
            agg.validated += 1
        else:
            msg = 'mirsym found no panic for %r but the real binary crashed: %s' % (s['text'], hit)
            agg.validation_failures.append(msg)
            agg.engine_errors.append({'engine_error': 'translator validation: ' + msg})
    agg.cover['normaliser panic outcomes (texts)'] = len(panics)
    bounds = dict(comment_text_max=b['lmax'], normaliser_tasks=len(tasks), diff_shapes=len(shapes), comment_sequences=min(len(seqs), b['c12_sample']))
    return finish(
        agg, bounds,
        assumptions=['ASCII comment text over per-form alphabets containing every delimiter byte, newline, space, a letter and <',
                     'node contract: only the opening delimiter of the comment form is assumed',
                     'tree-sitter and its generated parsers (C behind FFI), unidiff\'s text parser, clap and the OS are outside; the crate\'s own walk over the syntax tree runs on model trees (every shape up to 5-6 nodes, chains of depth 8 and 40)',
                     'a reachable panic is reported only when a file of a language routed to that normaliser crashes the real binary'],
        stubs=['tree_sitter::Node (kind + byte range model)', 'similar::TextDiff via the line_diff stub', 'WinnowBlockTagParser::next (event list)'],
        must_cover=['normalised', 'diff-side paths', 'pairing paths', 'tree walk paths', 'stack depth'],
        explanation='every path of every normaliser closure for every comment text within the bound; panic outcomes are first-class path results',
        extra=dict(unconfirmed_panic_texts=unconfirmed[:20]))


if __name__ == '__main__':
    sys.exit(main(sys.argv[1] if len(sys.argv) > 1 else 'quick'))
