"""C12 — unbalanced block tags are a hard error naming the file; never a guessed pairing.

Encoded (real MIR): parse_blocks_from_comments (+closure), PartialBlocksIterator::next,
BlockStart::new, source_position_at, BlockEnd::into_block, blocks::parse_file (+closure),
blocks::parse_blocks.
Symbolic: position and byte offset of every comment; is the file named in the diff /
walked; enumerated: the sequence of comments (templates with 0-2 tag events each, tags on
first or later comment lines), which of three files is damaged, scan or diff mode.
Oracle: running depth of the event sequence: Err iff it dips below 0 or ends above 0.
"""
import itertools
import json
import random
import sys

import z3

from .common import *  # noqa
from .vharness import *  # noqa
from .events import *  # noqa
from . import c16
from mirsym.interp import explore, PathStats
from mirsym.models import ListIter, new_string

PROP = 'C12'


def depth_verdict(tmpls):
    d = 0
    for t in tmpls:
        for it in TEMPLATES[t]:
            if it in ('S', 'B', 'M', 'L', 'Q'):
                d += 1
            elif it in ('E', 'W', 'X'):
                d -= 1
                if d < 0:
                    return 'err'
    return 'err' if d > 0 else 'ok'


def run_seq(task):
    tmpls, want_sample = task
    prog = driver.load_program()
    stats = PathStats()
    f = prog.find_fn('parse_blocks_from_comments')
    out = dict(violations=[], samples=[], obligations=0, cover={}, panic_paths=0)
    holder = {}
    want = depth_verdict(tmpls)

    def run_path(I):
        comments, geo, specs = build_comments(I, prog, tmpls)
        holder.update(geo=geo, specs=specs)
        install_event_parser(I, prog, specs)
        return I.call_fn(f, [ListIter(comments)])

    roles = set()

    def viol(I, role, summary):
        out['obligations'] += 1
        if role in roles:
            return
        roles.add(role)
        out['violations'].append(dict(role=role, summary=summary, seq=list(tmpls),
                                      texts=[sp.text for sp in holder['specs']]))

    for I, pk, val in explore(prog, models.M, run_path, stats=stats, max_paths=20000):
        if pk == 'panic':
            out['panic_paths'] += 1
            viol(I, 'panic', 'panic: %s' % val.msg[:120])
            continue
        got = 'err' if val.v == 1 else 'ok'
        out['obligations'] += 1
        if got != want:
            if want == 'err':
                viol(I, 'unbalanced-tags-accepted', 'unbalanced tag sequence %s produced %d blocks instead of an error'
                     % (list(tmpls), len(val.f[0].items)))
            else:
                viol(I, 'balanced-tags-rejected', 'balanced tag sequence %s rejected' % (list(tmpls),))
        out['cover'][want] = out['cover'].get(want, 0) + 1
        if want_sample and not out['samples']:
            out['samples'].append(dict(seq=list(tmpls), verdict=got))
    out.update(Agg(PROP, 'x').stats_from(stats))
    return out


def run_files(task):
    """Three files, one of them (index bad) with an unbalanced sequence; scan or diff mode."""
    bad, bad_tmpls, mode, order = task
    prog = driver.load_program()
    stats = PathStats()
    table, names, _st = c16.real_table(prog)
    f_pb = prog.find_fn('parse_blocks')
    files = [b'a.py', b'dir/b.py', b'c.py']
    out = dict(violations=[], samples=[], obligations=0, cover={}, panic_paths=0)
    holder = {}
    roles = set()

    def run_path(I):
        I.map_order = lambda n: [x for x in order if x < n] if len(order) >= n else list(range(n))
        per_file = {}
        all_specs = []
        for i, fn in enumerate(files):
            tm = bad_tmpls if i == bad else ['S', 'E']
            comments, geo, specs = build_comments(I, prog, tm, tag='f%d' % i)
            # make texts unique per file so that the stub can tell them apart
            per_file[fn] = comments
            all_specs.extend(specs)
        install_event_parser(I, prog, all_specs)

        def fname(I2, p):
            return bytes(as_sstr(I2, p).b)

        def walk_stub(I2, a, ci, dt):
            return ListIter([Ok(new_string(I2, files[i])) for i in order])

        def read_stub(I2, a, ci, dt):
            fn = fname(I2, a[1])
            tm = bad_tmpls if files.index(fn) == bad else ['S', 'E']
            body = materialize_seq([CommentSpec(t, 0).text for t in tm])
            return Ok(new_string(I2, b'FILE:' + fn + b'\n' + body))

        def parse_stub(I2, a, ci, dt):
            src = bytes(as_sstr(I2, a[1]).b)
            fn = src[len(b'FILE:'):src.index(b'\n')]
            fpc = prog.find_fn('parse_blocks_from_comments')
            return I2.call_fn(fpc, [ListIter(per_file[fn])])

        I.stubs['FileSystem::walk'] = walk_stub
        I.stubs['PathChecker::should_allow'] = lambda I2, a, ci, dt: True
        I.stubs['PathChecker::should_ignore'] = lambda I2, a, ci, dt: False
        I.stubs['FileSystem::read_to_string'] = read_stub
        I.stubs['BlocksParser::parse'] = parse_stub
        ents = []
        if mode == 'diff':
            for i in order:
                ents.append(Tuple(new_string(I, files[i]), VecVal([mk_struct(prog, 'LineChange', line=1, ranges=NONE)])))
        fs = Ref(Cell(Struct('FakeFS', ())), ())
        pc = Ref(Cell(Struct('FakePC', ())), ())
        return I.call_fn(f_pb, [MapVal(ents, 'HashMap'), mode == 'scan', fs, pc, table, MapVal((), 'HashMap')])

    def viol(role, summary):
        out['obligations'] += 1
        if role in roles:
            return
        roles.add(role)
        out['violations'].append(dict(role=role, summary=summary, seq=list(bad_tmpls), mode=mode, bad_file=files[bad].decode(),
                                      texts=[CommentSpec(t, 0).text for t in bad_tmpls]))

    for I, pk, val in explore(prog, models.M, run_path, stats=stats, max_paths=20000):
        if pk == 'panic':
            viol('panic', 'panic: %s' % val.msg[:120])
            continue
        out['obligations'] += 1
        if val.v == 0:
            viol('unbalanced-file-accepted', 'a file with unbalanced tags among healthy files: run succeeded with keys %s'
                 % [bytes(e.f[0].b) for e in val.f[0].entries])
        else:
            # the error chain must carry the context naming the damaged file
            err = val.f[0]
            named = False
            if isinstance(err, Opaque) and err.tag == 'anyhow':
                for c in err.data['ctx']:
                    if files[bad] in repr_bytes(I, c):
                        named = True
            if not named:
                viol('error-does-not-name-file', 'error raised but its context does not name %s' % files[bad].decode())
        out['cover']['files:' + mode] = out['cover'].get('files:' + mode, 0) + 1
    out.update(Agg(PROP, 'x').stats_from(stats))
    return out


def repr_bytes(I, v, depth=0):
    """All concrete string bytes reachable inside an opaque formatting payload."""
    out = b''
    if depth > 8:
        return out
    if isinstance(v, (SStr, SString)):
        if all(isinstance(b, int) for b in v.b):
            out += bytes(v.b) + b'\0'
    elif isinstance(v, Opaque):
        out += repr_bytes(I, v.data, depth + 1)
    elif isinstance(v, (tuple, list)):
        for x in v:
            out += repr_bytes(I, x, depth + 1)
    elif isinstance(v, Ref):
        try:
            out += repr_bytes(I, I.load(v), depth + 1)
        except Exception:
            pass
    elif isinstance(v, (Struct, Enum)):
        for x in v.f:
            out += repr_bytes(I, x, depth + 1)
    elif isinstance(v, VecVal):
        for x in v.items:
            out += repr_bytes(I, x, depth + 1)
    elif isinstance(v, dict):
        for x in v.values():
            out += repr_bytes(I, x, depth + 1)
    return out


# ------------------------------------------------------------------ replay

def materialize_seq(texts):
    """A .js file whose comments carry the given (normalised) comment texts: the two leading blanks
    stand for the delimiter.  Texts that must end exactly at the tag become `//` line comments."""
    out = b''
    for i, t in enumerate(texts):
        tb = t.encode('utf-8') if isinstance(t, str) else t
        if tb.endswith(b'  ') and b'\n' in tb or tb.endswith(b'  '):
            out += b'/*' + tb[2:-2] + b'*/\ncode%d();\n' % i
        else:
            out += b'//' + tb[2:] + b'\ncode%d();\n' % i
    return out


def confirm(binary, v, idx):
    v['confirmed'] = False
    if v['role'] in ('unbalanced-tags-accepted', 'unbalanced-file-accepted', 'error-does-not-name-file'):
        files = {'bad.js': materialize_seq(v['texts']), 'ok.js': b'/* <block> */\nx\n/* </block> */\n'}
        r = run_scan(binary, files, ['**'], extra_args=['list'])
        v['observed'] = dict(code=r['code'], stderr=r['stderr'][-300:])
        bad = r['code'] == 0 or 'bad.js' not in r['stderr']
        want = 'non-zero exit with an error naming bad.js'
    elif v['role'] == 'balanced-tags-rejected':
        files = {'good.js': materialize_seq(v['texts'])}
        r = run_scan(binary, files, ['**'], extra_args=['list'])
        v['observed'] = dict(code=r['code'], stderr=r['stderr'][-300:])
        bad = r['code'] != 0
        want = 'exit 0'
    elif v['role'] == 'panic':
        return confirm_panic(binary, v, idx, PROP)
    else:
        return v
    if bad:
        v['confirmed'] = True
        v['replay'] = save_replay(PROP, '%s-%d' % (v['role'], idx), files, "list '**'", 'expected %s; %s' % (want, v['summary']), v)
    return v


def confirm_panic(binary, v, idx, prop):
    """A panic outcome in the pairing / tag scanner: does the real binary crash on the materialised comments?"""
    v['confirmed'] = False
    if 'texts' not in v:
        return v
    files = {'p.js': materialize_seq(v['texts'])}
    r = run_scan(binary, files, ['**'], extra_args=['list'])
    v['observed'] = dict(code=r['code'], stderr=r['stderr'][-300:])
    if r['code'] not in (0, 1) or 'panicked' in r['stderr']:
        v['confirmed'] = True
        v['replay'] = save_replay(prop, 'panic-%d' % idx, files, "list '**'", 'expected exit 0/1 without a panic; ' + v['summary'], v)
    return v


BOUNDS = {
    'quick': dict(max_comments=3, tmpls=['S', 'E', 'SE', 'nS', 'ES', 'Snt', 'nE', 'SS', 'W', 'XB$', 'uS', 'uE'], sample=420, validate=20),
    'thorough': dict(max_comments=4, tmpls=list(TEMPLATES.keys()), sample=4000, validate=80),
}


def events_in(seq):
    return sum(1 for t in seq for it in TEMPLATES[t] if it in 'SEWBXMLQ')


def main(tier):
    b = BOUNDS[tier]
    agg = Agg(PROP, tier)
    binary = driver.real_binary()
    driver.load_program()
    rnd = random.Random(seed())
    seqs = []
    for n in range(1, b['max_comments'] + 1):
        for s in itertools.product(b['tmpls'], repeat=n):
            if 1 <= events_in(s) <= 6:
                seqs.append(s)
    rnd.shuffle(seqs)
    seqs.sort(key=len)
    short = [s for s in seqs if len(s) <= 2]
    rest = [s for s in seqs if len(s) > 2]
    chosen = (short + rest)[:b['sample']]
    tasks = [(s, i % 7 == 0) for i, s in enumerate(chosen)]
    results = pmap(run_seq, tasks, chunksize=8)
    bad_seqs = [s for s in chosen if depth_verdict(s) == 'err']
    bad_seqs = [x for x in bad_seqs if x in (('E',), ('W',), ('S',))] + [x for x in bad_seqs if x not in (('E',), ('W',), ('S',))]
    bad_seqs = bad_seqs[:12 if tier == 'quick' else 60]
    ftasks = []
    for i, s in enumerate(bad_seqs):
        for mode in ('scan', 'diff'):
            ftasks.append((i % 3, list(s), mode, [(0, 1, 2), (2, 1, 0), (1, 0, 2)][i % 3]))
    results += pmap(run_files, ftasks, chunksize=2)
    for r in results:
        agg.add(r)
    by_role = {}
    for v in agg.violations:
        by_role.setdefault(v['role'], []).append(v)
    final = []
    for role, vs in sorted(by_role.items()):
        got = None
        for i, v in enumerate(vs[:6]):
            confirm(binary, v, i)
            if v['confirmed']:
                got = v
                break
        final.append(got or vs[0])
    agg.violations = final
    # translator validation: the real binary's verdict on materialised sequences
    samples = [s for r in results for s in r.get('samples', [])]
    rnd.shuffle(samples)
    for s in samples[:b['validate']]:
        texts = [CommentSpec(t, 0).text for t in s['seq']]
        r = run_scan(binary, {'t.js': materialize_seq(texts)}, ['**'], extra_args=['list'])
        real = 'ok' if r['code'] == 0 else 'err'
        if real == s['verdict']:
            agg.validated += 1
        else:
            msg = 'mirsym %s vs real exit %s on %s' % (s['verdict'], r['code'], s['seq'])
            agg.validation_failures.append(msg)
            agg.engine_errors.append({'engine_error': 'translator validation: ' + msg})
    bounds = dict(max_comments=b['max_comments'], templates=b['tmpls'], sequences=len(chosen), of=len(seqs),
                  file_tasks=len(ftasks), max_events=6)
    return finish(
        agg, bounds,
        assumptions=['the winnow tag parser is replaced by the event list of each comment template; that a damaged tag in real text yields those events is outside (C05/C03)',
                     'tree-sitter replaced by Comment values with arbitrary ordered, non-overlapping geometry',
                     'file system / path checker / grammar are stubs in the three-file runs'],
        stubs=['WinnowBlockTagParser::next (event list)', 'FileSystem', 'PathChecker', 'BlocksParser::parse (routes to the real parse_blocks_from_comments)'],
        must_cover=['ok', 'err', 'files:scan', 'files:diff'],
        explanation='every comment sequence within the bound executed on the real pairing MIR with symbolic geometry; verdict compared with the running-depth oracle; error context checked for the damaged file name')


if __name__ == '__main__':
    sys.exit(main(sys.argv[1] if len(sys.argv) > 1 else 'quick'))
