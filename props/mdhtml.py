"""HTML comments inside Markdown: how the crate maps a comment found in an `html_block` back to
file coordinates.

Encoded (real MIR): MdParser::parse_html_comments (the loop over the html_block matches and the
position arithmetic).  Models: tree_sitter::{Parser::parse, Tree::root_node, QueryCursor::matches,
QueryMatches (streaming iterator), Node} and the inner HTML comments parser, which yields comments
in coordinates *relative to the html block* (line 1 = the block's first line, column 1 = the
block's first byte on that line) — that is what parsing the block's text on its own produces.

Symbolic: where each html block starts (row, column, byte), and the relative start/end of every
comment in it.  Post-condition: file line = block row + relative line; file column = relative
column, plus the block's start column when the comment begins (ends) on the block's first line;
byte range shifted by the block's start byte.  An html block does not start in column 0 when it
sits in a list item or a block quote, or follows a byte-order mark.
"""
import z3

from .common import *  # noqa
from .vharness import *  # noqa
from . import extsrc
from mirsym.interp import explore, PathStats
from mirsym.models import ListIter, new_string

NUM_MAX = 1 << 32
TS = 'tree-sitter-0.*'


def run_html(task):
    nblocks, ncomments = task
    prog = driver.load_program()
    stats = PathStats()
    f = prog.find_method('MdParser', 'parse_html_comments')
    if f is None:
        raise EngineError('MdParser::parse_html_comments not in the MIR dump')
    qm_fields = extsrc.struct_fields(TS, 'QueryMatch')
    qc_fields = extsrc.struct_fields(TS, 'QueryCapture')
    out = dict(violations=[], samples=[], obligations=0, cover={}, panic_paths=0)
    holder = {}
    roles = set()

    def run_path(I):
        blocks = []
        contents = tuple(b'x' * (40 * nblocks + 10))
        for b in range(nblocks):
            row = I.fresh_int('row%d' % b, 0, NUM_MAX)
            col = I.fresh_int('col%d' % b, 0, NUM_MAX)
            sb, eb = 40 * b + 3, 40 * b + 33
            cs = []
            for c in range(ncomments):
                sl = I.fresh_int('sl%d_%d' % (b, c), 1, NUM_MAX)
                sc = I.fresh_int('sc%d_%d' % (b, c), 1, NUM_MAX)
                el = I.fresh_int('el%d_%d' % (b, c), 1, NUM_MAX)
                ec = I.fresh_int('ec%d_%d' % (b, c), 1, NUM_MAX)
                I.add(z3.Or(el > sl, z3.And(el == sl, ec > sc)))
                rs, re_ = 4 * c + 1, 4 * c + 4
                cs.append(dict(sl=sl, sc=sc, el=el, ec=ec, rs=rs, re=re_))
            blocks.append(dict(row=row, col=col, sb=sb, eb=eb, comments=cs))
        holder['blocks'] = blocks
        st = I.stubs

        def node_of(I2, v):
            v = I2.deref_value(v) if isinstance(v, Ref) else v
            while isinstance(v, Ref):
                v = I2.load(v)
            return v.f[0]
        st['Parser::parse'] = lambda I2, a, ci, dt: Some(Struct('Tree', ('md',)))
        st['Tree::root_node'] = lambda I2, a, ci, dt: Struct('Node', ('root',))
        st['QueryCursor::new'] = lambda I2, a, ci, dt: Struct('QueryCursor', ())

        def matches(I2, a, ci, dt):
            ms = []
            for b in range(nblocks):
                cap = [None] * len(qc_fields)
                cap[qc_fields.index('node')] = Struct('Node', (b,))
                cap[qc_fields.index('index')] = 0
                qm = [Opaque('unused')] * len(qm_fields)
                qm[qm_fields.index('pattern_index')] = 0
                qm[qm_fields.index('captures')] = Ref(Cell(VecVal([Struct('QueryCapture', cap)])), ())
                ms.append(Ref(Cell(Struct('QueryMatch', qm)), ()))
            return ListIter(ms)
        st['QueryCursor::matches'] = matches
        st['Node::start_byte'] = lambda I2, a, ci, dt: blocks[node_of(I2, a[0])]['sb']
        st['Node::end_byte'] = lambda I2, a, ci, dt: blocks[node_of(I2, a[0])]['eb']
        st['Node::start_position'] = lambda I2, a, ci, dt: Struct('Point', (blocks[node_of(I2, a[0])]['row'], blocks[node_of(I2, a[0])]['col']))
        st['Node::byte_range'] = lambda I2, a, ci, dt: Struct('Range', (blocks[node_of(I2, a[0])]['sb'], blocks[node_of(I2, a[0])]['eb']))
        calls = []

        def inner_parse(I2, a, ci, dt):
            # which block?  by the provenance of the text handed over (a slice of `contents`)
            text = a[1]
            from mirsym.models import as_sstr
            t = as_sstr(I2, text)
            b = (t.off - 3) // 40
            calls.append((b, t.off, len(t.b)))
            cs = []
            for c in blocks[b]['comments']:
                cs.append(mk_struct(prog, 'Comment',
                                    position_range=Struct('Range', (position(prog, c['sl'], c['sc']), position(prog, c['el'], c['ec']))),
                                    source_range=Struct('Range', (c['rs'], c['re'])),
                                    comment_text=new_string(I2, b'  <block>  ')))
            return ListIter(cs)
        st['<TreeSitterCommentsParser as CommentsParser>::parse'] = inner_parse
        st['CommentsParser::parse'] = inner_parse
        holder['calls'] = calls
        order = prog.src.structs.get('MdParser')
        me = Cell(Struct('MdParser', [Struct('Parser', ()) if n == 'md_tree_sitter_parser' else Opaque('field:' + n) for n in order]))
        return I.call_fn(f, [Ref(me, ()), SStr(contents, I.new_alloc(), 0)])

    def viol(I, cond, role, summary):
        out['obligations'] += 1
        if role in roles:
            return
        if isinstance(cond, bool):
            cond = z3.BoolVal(cond)
        if I.check(cond):
            small = [x for b in holder['blocks'] for x in [b['row'], b['col']] + [c[k] for c in b['comments'] for k in ('sl', 'sc', 'el', 'ec')]]
            m = small_model(I, cond, small) or I.solver.model()
            roles.add(role)
            b0 = holder['blocks'][0]
            out['violations'].append(dict(role=role, summary=summary, mdhtml=True,
                                          block=dict(row=mval(m, b0['row']), col=mval(m, b0['col'])),
                                          comment={k: mval(m, b0['comments'][0][k]) for k in ('sl', 'sc', 'el', 'ec')}))

    for I, pk, val in explore(prog, models.M, run_path, stats=stats, max_paths=5000):
        if pk == 'panic':
            out['panic_paths'] += 1
            viol(I, True, 'html-comment-panic', 'panic: %s' % val.msg[:120])
            continue
        if val.v != 0:
            viol(I, True, 'html-comments-error', 'parse_html_comments returned Err')
            continue
        got = list(val.f[0].items)
        want = [(b, c) for b in holder['blocks'] for c in b['comments']]
        if len(got) != len(want):
            viol(I, True, 'html-comments-lost', '%d comments in the html blocks, %d returned' % (len(want), len(got)))
            continue
        for g, (b, c) in zip(got, want):
            pr = get_field(prog, g, 'Comment', 'position_range')
            sr = get_field(prog, g, 'Comment', 'source_range')
            gl, gc = get_field(prog, pr.f[0], 'Position', 'line'), get_field(prog, pr.f[0], 'Position', 'character')
            hl, hc = get_field(prog, pr.f[1], 'Position', 'line'), get_field(prog, pr.f[1], 'Position', 'character')
            viol(I, gl != b['row'] + c['sl'], 'html-comment-line-wrong', 'start line is not block row + relative line')
            viol(I, hl != b['row'] + c['el'], 'html-comment-line-wrong', 'end line is not block row + relative line')
            viol(I, gc != z3.If(c['sl'] == 1, b['col'] + c['sc'], c['sc']), 'html-comment-column-wrong',
                 'start column of a comment on the first line of an html block that does not begin in column 0')
            viol(I, hc != z3.If(c['el'] == 1, b['col'] + c['ec'], c['ec']), 'html-comment-column-wrong',
                 'end column of a comment on the first line of an html block that does not begin in column 0')
            if (sr.f[0], sr.f[1]) != (b['sb'] + c['rs'], b['sb'] + c['re']):
                viol(I, True, 'html-comment-bytes-wrong', 'byte range %s..%s, expected %s..%s' % (sr.f[0], sr.f[1], b['sb'] + c['rs'], b['sb'] + c['re']))
        out['cover']['html blocks'] = out['cover'].get('html blocks', 0) + 1
    out.update(Agg('C10', 'x').stats_from(stats))
    return out


def confirm_html(binary, prop, v, idx):
    """Replay: an html comment in a list item, in a block quote and after a byte-order mark: the start tag's
    `<` is at byte column 8 / 8 / 9 of its line.  And a comment that starts on the first line of its html
    block (a list item) and closes on the next one, with content right after `-->`: the offending key of
    a line-pattern violation there sits at the columns it has in the file (the END of the comment is on a
    later line of the block, so its column is not shifted)."""
    files = {
        'list.md': b'- item\n\n  <!-- <block name="li" line-count="<0"> -->\n  text\n\n  <!-- </block> -->\n',
        'quote.md': b'> quote\n> <!-- <block name="q" line-count="<0"> -->\n> t\n>\n> <!-- </block> -->\n',
        'bom.md': b'\xef\xbb\xbf<!-- <block name="x" line-count="<0"> -->\ntext\n<!-- </block> -->\n',
        'plain.md': b'para\n\n<!-- <block name="p" line-count="<0"> -->\ntext\n\n<!-- </block> -->\n',
    }
    multi = b'- <!-- <block name="b"\n  line-pattern="^[a-z]+$"> --> BAD1\n  <!-- </block> -->\n'
    line2 = multi.split(b'\n')[1]
    want_multi = [((2, line2.index(b'BAD1') + 1), (2, line2.index(b'BAD1') + 4))]
    want = {'list.md': (3, 8), 'quote.md': (2, 8), 'bom.md': (1, 9), 'plain.md': (3, 6)}
    d = scratch_dir('mdhtml')
    try:
        git_init(d)
        for fn, content in files.items():
            open(os.path.join(d, fn), 'wb').write(content)
        r = run_blockwatch(binary, d, ['list', '**'], stdin=b'')
        open(os.path.join(d, 'multi.md'), 'wb').write(multi)
        r2 = run_blockwatch(binary, d, ['multi.md'], stdin=b'')
    finally:
        shutil.rmtree(d, ignore_errors=True)
    got = {}
    try:
        for fn, bl in json.loads(r['stdout']).items():
            got[fn] = (bl[0]['line'], bl[0]['column'])
    except (ValueError, IndexError, KeyError):
        pass
    got_multi = None
    try:
        got_multi = [((x['range']['start']['line'], x['range']['start']['character']), (x['range']['end']['line'], x['range']['end']['character']))
                     for x in json.loads(r2['stderr']).get('multi.md', []) if x.get('code') == 'line-pattern']
    except (ValueError, KeyError, TypeError):
        pass
    v['observed'] = dict(tags=got, multi=got_multi)
    v['expected'] = dict(tags=want, multi=want_multi)
    v['confirmed'] = got != want or got_multi != want_multi
    if v['confirmed']:
        files = dict(files)
        files['multi.md'] = multi
        v['replay'] = save_replay(prop, 'mdhtml-%s-%d' % (v['role'], idx), files, "list '**'   and   multi.md",
                                  'expected (line, column) of the start tags %s and the line-pattern range %s in multi.md; %s' % (want, want_multi, v['summary']), v)
    return v


def run_mdmerge(task):
    """MdParser::parse: the blocks found in `[//]: #` comments and those found in HTML comments come from
    two separate passes and must all come out, each once (real MIR of
    <MdParser as BlocksParser>::parse with itertools' merge as a model; the two passes are stubs that
    return blocks with symbolic start positions, each list in source order)."""
    nmd, nhtml = task
    prog = driver.load_program()
    stats = PathStats()
    f = prog.find_method('MdParser', 'parse')
    if f is None:
        raise EngineError('<MdParser as BlocksParser>::parse not in the MIR dump')
    out = dict(violations=[], samples=[], obligations=0, cover={}, panic_paths=0)
    holder = {}
    roles = set()

    def run_path(I):
        def blocks(tag, n):
            bs, pos = [], []
            for k in range(n):
                ln = I.fresh_int('%s_line%d' % (tag, k), 1, NUM_MAX)
                ch = I.fresh_int('%s_col%d' % (tag, k), 1, NUM_MAX)
                if pos:     # each pass delivers its blocks in source order, at distinct places
                    pl, pc = pos[-1]
                    I.add(z3.Or(ln > pl, z3.And(ln == pl, ch > pc)))
                pos.append((ln, ch))
                bs.append(mk_block(prog, I, {'name': '%s%d' % (tag, k)}, (ln, ch), (ln, ch + 5), (0, 0), (ln, ch + 6), (ln, ch + 6)))
            return bs, pos
        md, mdpos = blocks('m', nmd)
        html, htmlpos = blocks('h', nhtml)
        # a place holds one tag only
        for p in mdpos:
            for q in htmlpos:
                I.add(z3.Or(p[0] != q[0], p[1] != q[1]))
        holder.update(mdpos=mdpos, htmlpos=htmlpos)
        st = I.stubs
        st['BlocksFromCommentsParser::parse'] = lambda I2, a, ci, dt: Ok(VecVal(md))
        st['<BlocksFromCommentsParser as BlocksParser>::parse'] = st['BlocksFromCommentsParser::parse']
        st['BlocksParser::parse'] = st['BlocksFromCommentsParser::parse']
        st['MdParser::parse_html_blocks'] = lambda I2, a, ci, dt: Ok(VecVal(html))
        st['parse_html_blocks'] = st['MdParser::parse_html_blocks']
        order = prog.src.structs.get('MdParser')
        me = Cell(Struct('MdParser', [Opaque('field:' + n) for n in order]))
        return I.call_fn(f, [Ref(me, ()), SStr(tuple(b'text'), I.new_alloc(), 0)])

    def viol(I, cond, role, summary):
        out['obligations'] += 1
        if role in roles:
            return
        if isinstance(cond, bool):
            cond = z3.BoolVal(cond)
        if I.check(cond):
            m = I.solver.model()
            roles.add(role)
            out['violations'].append(dict(role=role, summary=summary, mdmerge=True,
                                          md=[(mval(m, a), mval(m, b)) for a, b in holder['mdpos']],
                                          html=[(mval(m, a), mval(m, b)) for a, b in holder['htmlpos']]))

    for I, pk, val in explore(prog, models.M, run_path, stats=stats, max_paths=20000):
        if pk == 'panic':
            out['panic_paths'] += 1
            viol(I, True, 'md-merge-panic', 'panic: %s' % val.msg[:120])
            continue
        if val.v != 0:
            viol(I, True, 'md-merge-error', 'MdParser::parse returned Err although both passes succeeded')
            continue
        got = list(val.f[0].items)
        if len(got) != nmd + nhtml:
            viol(I, True, 'md-blocks-lost', '%d + %d blocks from the two passes, %d returned' % (nmd, nhtml, len(got)))
            continue
        names = []
        pos = []
        for g in got:
            at = get_field(prog, g, 'Block', 'attributes')
            names.append(bytes(as_sstr_b(I, at.entries[0].f[1])).decode())
            st_ = get_field(prog, g, 'Block', 'start_tag_position_range').f[0]
            pos.append((get_field(prog, st_, 'Position', 'line'), get_field(prog, st_, 'Position', 'character')))
        if sorted(names) != sorted(['m%d' % k for k in range(nmd)] + ['h%d' % k for k in range(nhtml)]):
            viol(I, True, 'md-blocks-lost', 'blocks returned: %s' % names)
            continue
        # The order of this list is NOT an obligation: the `list` report sorts by line (blocks.rs,
        # to_serializable_report, decided in C11) and no validator depends on the order, so a parser that
        # concatenates the two passes is indistinguishable for a user.  Only loss / duplication / errors are.
        out['cover']['md+html merge'] = out['cover'].get('md+html merge', 0) + 1
    out.update(Agg('C03', 'x').stats_from(stats))
    return out


def as_sstr_b(I, v):
    from mirsym.models import as_sstr
    return as_sstr(I, v).b


def confirm_mdmerge(binary, prop, v, idx):
    """Replay: a Markdown file that alternates the two comment kinds."""
    files = {'mix.md': (b'[//]: # (<block name="m0">)\n\ntext\n\n[//]: # (</block>)\n\n'
                        b'<!-- <block name="h0"> -->\n\ntext\n\n<!-- </block> -->\n\n'
                        b'[//]: # (<block name="m1">)\n\ntext\n\n[//]: # (</block>)\n\n'
                        b'<!-- <block name="h1"> -->\n\ntext\n\n<!-- </block> -->\n')}
    want = ['m0', 'h0', 'm1', 'h1']
    d = scratch_dir('mdmerge')
    try:
        git_init(d)
        for fn, content in files.items():
            open(os.path.join(d, fn), 'wb').write(content)
        r = run_blockwatch(binary, d, ['list', '**'], stdin=b'')
    finally:
        shutil.rmtree(d, ignore_errors=True)
    got = None
    try:
        got = [b['name'] for b in json.loads(r['stdout']).get('mix.md', [])]
    except (ValueError, KeyError):
        pass
    v['observed'] = dict(code=r['code'], names=got, stderr=r['stderr'][-200:])
    v['expected'] = want
    v['confirmed'] = got != want
    if v['confirmed']:
        v['replay'] = save_replay(prop, 'mdmerge-%s-%d' % (v['role'], idx), files, "list '**'",
                                  'expected blocks in the order %s; %s' % (want, v['summary']), v)
    return v
