"""C13 — malformed rules fail closed (sync validators).

Encoded (real MIR): the five sync validators' validate functions with their helpers
(parse_constraint, parse_affects_attribute, SortFormat::from_str/cmp, Block::severity, the
create_violation functions), validators::run / run_sync_validators (propagation of the error
past healthy validators).
Symbolic: every byte of the malformed attribute value (keep-sorted, keep-sorted-format,
affects, severity, numeric keys); enumerated: its length, the position of the bad block among
healthy ones, a menu of uncompilable regexes.
Oracle: the accepted language of each attribute as a Z3 formula; outside it the run must
return Err (never Ok without a diagnostic).
"""
import itertools
import json
import random
import sys

import z3

from .common import *  # noqa
from .vharness import *  # noqa
from .layout import *  # noqa
from mirsym.interp import explore, PathStats
from mirsym.models import new_string

PROP = 'C13'
WSB = (9, 10, 11, 12, 13, 32)
BAD_REGEXES = ['(', '[a', '*a', 'a{2,1}', '(?P<v', 'a)', '\\']


def ci_word(bs, word):
    if len(bs) != len(word):
        return z3.BoolVal(False)
    return zand([z3.Or(b == ord(c.lower()), b == ord(c.upper())) for b, c in zip(bs, word)])


def trimmed_is(bs, words):
    """Formula: bs, after trimming ASCII whitespace at both ends, equals one of `words` case-insensitively."""
    alts = []
    n = len(bs)
    for i in range(n + 1):
        for j in range(i, n + 1):
            core = bs[i:j]
            lead = [f_ws(b) for b in bs[:i]]
            trail = [f_ws(b) for b in bs[j:]]
            for w in words:
                if len(w) == len(core):
                    if len(core) == 0:
                        if i == 0:       # all whitespace: count once
                            alts.append(zand([f_ws(b) for b in bs]))
                        continue
                    edge = [z3.Not(f_ws(core[0])), z3.Not(f_ws(core[-1]))]
                    alts.append(zand(lead + trail + edge + [ci_word(core, w)]))
    return zor(alts)


def simple_block_file(I, prog, attrs_text, content=b'\nb\na\n', content_modified=True, pre_blocks=0, post_blocks=0):
    """A .js-like file: `pre` healthy blocks, the block under test, `post` healthy blocks."""
    lays = []
    base_line, base_off = 1, 0
    src = ()
    n = pre_blocks + 1 + post_blocks
    for k in range(n):
        if k == pre_blocks:
            at = attrs_text
            body = content
            name = 'bad'
        else:
            at = ' keep-unique'
            body = b'\nx\ny\n'
            name = 'ok%d' % k
        lines = body.split(b'\n')
        lay = Layout(0, 0, 1, 0, 0, at, lines[0], [tuple(x) for x in lines[1:-1]], lines[-1], name=name,
                     base_line=base_line, base_off=base_off)
        lays.append(lay)
        src += lay.src
        base_line, base_off = lay.end_line, lay.end_off
    return lays, src


ATTR_CASES = {
    # name -> (validator type, attribute text builder, alphabet, accept formula, reject formula, content)
}


def run_attr(task):
    case, L, pre, post, want_sample = task
    prog = driver.load_program()
    stats = PathStats()
    out = dict(violations=[], samples=[], obligations=0, cover={}, panic_paths=0)
    holder = {}
    roles = set()

    def build(I):
        """returns (validator, attrs bytes with the symbolic value spliced in, content, accept, reject)"""
        if case == 'direction':
            v = tuple(I.fresh_byte('v%d' % i, [ord(c) for c in 'asdecASDEC \t']) for i in range(L))
            accept = zor([ci_word(v, 'asc'), ci_word(v, 'desc'), zand([f_ws(b) for b in v])])
            reject = z3.Not(trimmed_is(v, ['', 'asc', 'desc']))
            return 'KeepSortedValidator', b' keep-sorted="', v, b'"', b'\na\nb\n', accept, reject
        if case == 'format':
            v = tuple(I.fresh_byte('v%d' % i, [ord(c) for c in 'numericNUMERIClxgaph \t']) for i in range(L))
            accept = trimmed_is(v, ['', 'numeric', 'lexicographic'])
            reject = z3.Not(accept)
            return 'KeepSortedValidator', b' keep-sorted keep-sorted-format="', v, b'"', b'\n1\n2\n', accept, reject
        if case == 'affects':
            v = tuple(I.fresh_byte('v%d' % i, [ord(c) for c in ':, ab']) for i in range(L))
            # every comma-separated piece must contain a colon
            n = len(v)
            bad_piece = []
            for i in range(n + 1):
                for j in range(i, n + 1):
                    left = z3.BoolVal(True) if i == 0 else v[i - 1] == 44
                    right = z3.BoolVal(True) if j == n else v[j] == 44
                    inner = [z3.And(b != 44, b != 58) for b in v[i:j]]
                    bad_piece.append(zand([left, right] + inner))
            reject = zor(bad_piece)
            accept = z3.Not(reject)
            return 'AffectsValidator', b' affects="', v, b'"', b'\na\n', accept, reject
        if case == 'severity':
            v = tuple(I.fresh_byte('v%d' % i, [ord(c) for c in 'erowanigfhtEWIH ']) for i in range(L))
            accept = zor([ci_word(v, w) for w in ('error', 'warning', 'info', 'hint')])
            reject = z3.Not(accept)
            return 'KeepSortedValidator', b' keep-sorted severity="', v, b'"', b'\nb\na\n', accept, reject
        raise EngineError(case)

    def run_path(I):
        vtype, pre_t, val, post_t, content, accept, reject = build(I)
        holder.update(val=val, accept=accept, reject=reject, vtype=vtype)
        # the attribute value lives in the attributes map (the tag scanner is a stub); build blocks directly
        lays, src = simple_block_file(I, prog, pre_t.decode() + 'X' * 0 + post_t.decode(), content, True, pre, post)
        res = parse_layout_blocks(I, prog, lays)
        if res.v != 0:
            raise EngineError('layout did not parse')
        bwcs = []
        for bi, b in enumerate(res.f[0].items):
            if bi == pre:
                # splice the symbolic value into the parsed attribute map
                ai = field_index(prog, 'Block', 'attributes')
                key = pre_t.decode().strip().split(' ')[-1].split('=')[0]
                ents = []
                for e in b.f[ai].entries:
                    if bytes(e.f[0].b).decode() == key:
                        ents.append(Tuple(e.f[0], SString(val, I.new_alloc())))
                    else:
                        ents.append(e)
                f = list(b.f)
                f[ai] = MapVal(ents, 'HashMap')
                b = Struct('Block', f)
            bwcs.append(mk_bwc(prog, b, content_modified=True))
        holder['src'] = src
        ctx = mk_context(prog, I, [(b'g.js', b'/* <block keep-unique> */\nq\nr\n/* </block> */\n', []), (b'f.js', src, bwcs)])
        return run_validator(I, prog, vtype, ctx)

    def viol(I, cond, role, summary):
        out['obligations'] += 1
        if role in roles:
            return
        if I.check(cond):
            roles.add(role)
            m = I.solver.model()
            out['violations'].append(dict(role=role, summary=summary, case=case, pre=pre, post=post,
                                          value=model_bytes(m, holder['val']).decode('latin1')))

    for I, pk, val in explore(prog, models.M, run_path, stats=stats, max_paths=100000):
        if pk == 'panic':
            out['panic_paths'] += 1
            viol(I, z3.BoolVal(True), 'panic', 'panic: %s' % val.msg[:120])
            continue
        stt, res = decode_violations(prog, val)
        if stt == 'err':
            viol(I, holder['accept'], 'well-formed-rule-rejected', '%s: a well-formed value makes the run fail' % case)
            out['cover']['err'] = out['cover'].get('err', 0) + 1
        else:
            viol(I, holder['reject'], 'malformed-rule-accepted', '%s: a malformed value is silently accepted' % case)
            out['cover']['ok'] = out['cover'].get('ok', 0) + 1
        out['cover']['case:' + case] = 1
        if want_sample and len(out['samples']) < 2:
            m = I.ensure_model()
            out['samples'].append(dict(case=case, value=model_bytes(m, holder['val']).decode('latin1'), outcome=stt))
    out.update(Agg(PROP, 'x').stats_from(stats))
    return out


def run_numeric_keys(task):
    specs, want_sample = task
    prog = driver.load_program()
    stats = PathStats()
    out = dict(violations=[], samples=[], obligations=0, cover={}, panic_paths=0)
    holder = {}
    roles = set()

    def run_path(I):
        keys = []
        lines = []
        for i, klen in enumerate(specs):
            k = tuple(I.fresh_byte('k%d_%d' % (i, j), [49, 50, 97]) for j in range(klen))
            keys.append(k)
            lines.append(k)
        holder['keys'] = keys
        lay = Layout(0, 0, 1, 0, 0, ' keep-sorted keep-sorted-format="numeric"', (), lines, ())
        holder['lay'] = lay
        res = parse_layout_blocks(I, prog, lay)
        bwc = mk_bwc(prog, res.f[0].items[0], content_modified=True)
        ctx = mk_context(prog, I, [(b'f.js', lay.src, [bwc])])
        return run_validator(I, prog, 'KeepSortedValidator', ctx)

    def viol(I, cond, role, summary):
        out['obligations'] += 1
        if role in roles:
            return
        if I.check(cond):
            roles.add(role)
            m = I.solver.model()
            out['violations'].append(dict(role=role, summary=summary, case='numeric-keys',
                                          src=model_bytes(m, holder['lay'].src).decode('latin1')))

    for I, pk, val in explore(prog, models.M, run_path, stats=stats, max_paths=100000):
        if pk == 'panic':
            viol(I, z3.BoolVal(True), 'panic', 'panic: %s' % val.msg[:120])
            continue
        stt, res = decode_violations(prog, val)
        keys = holder['keys']
        non_numeric = zor([zor([b == 97 for b in k]) for k in keys])
        all_numeric = z3.Not(non_numeric)
        if stt == 'err':
            viol(I, all_numeric, 'numeric-keys-rejected', 'all keys are numbers but the run fails')
            out['cover']['err'] = out['cover'].get('err', 0) + 1
        else:
            clean = not res.get(b'f.js')
            if clean and len(keys) >= 2:
                viol(I, non_numeric, 'non-numeric-key-passes', 'a non-numeric key under numeric sort passes silently')
            out['cover']['ok'] = out['cover'].get('ok', 0) + 1
        out['cover']['case:numeric-keys'] = 1
    out.update(Agg(PROP, 'x').stats_from(stats))
    return out


def run_bad_regex(task):
    kind, pat, with_content = task
    prog = driver.load_program()
    stats = PathStats()
    out = dict(violations=[], samples=[], obligations=0, cover={}, panic_paths=0)
    attrs = {'keep-sorted-pattern': ' keep-sorted keep-sorted-pattern="%s"', 'keep-unique': ' keep-unique="%s"',
             'line-pattern': ' line-pattern="%s"'}[kind]
    vtype = {'keep-sorted-pattern': 'KeepSortedValidator', 'keep-unique': 'KeepUniqueValidator', 'line-pattern': 'LinePatternValidator'}[kind]
    holder = {}

    def run_path(I):
        lines = [tuple(b'a'), tuple(b'b')] if with_content else []
        lay = Layout(0, 0, 1, 0, 0, ' name="x"', (), lines, ())
        holder['lay'] = lay
        res = parse_layout_blocks(I, prog, lay)
        b = res.f[0].items[0]
        ai = field_index(prog, 'Block', 'attributes')
        ents = list(b.f[ai].entries)
        key = kind
        if kind == 'keep-sorted-pattern':
            ents.append(Tuple(new_string(I, b'keep-sorted'), new_string(I, b'')))
        ents.append(Tuple(new_string(I, key.encode()), new_string(I, pat.encode())))
        f = list(b.f)
        f[ai] = MapVal(ents, 'HashMap')
        bwc = mk_bwc(prog, Struct('Block', f), content_modified=True)
        ctx = mk_context(prog, I, [(b'f.js', lay.src, [bwc])])
        return run_validator(I, prog, vtype, ctx)

    for I, pk, val in explore(prog, models.M, run_path, stats=stats, max_paths=1000):
        out['obligations'] += 1
        if pk == 'panic':
            out['violations'].append(dict(role='panic', summary='panic: %s' % val.msg[:120], case='regex', kind=kind, pattern=pat))
            continue
        if with_content and val.v == 0:
            out['violations'].append(dict(role='uncompilable-regex-accepted',
                                          summary='%s="%s" on a block with content is accepted' % (kind, pat),
                                          case='regex', kind=kind, pattern=pat))
        out['cover']['case:regex'] = 1
    out.update(Agg(PROP, 'x').stats_from(stats))
    return out


def run_propagation(task):
    """A failing validator among healthy ones: validators::run must return Err."""
    order = task
    prog = driver.load_program()
    stats = PathStats()
    f_run = prog.find_fn('run')
    out = dict(violations=[], samples=[], obligations=0, cover={}, panic_paths=0)

    def run_path(I):
        lay = Layout(0, 0, 1, 0, 0, ' keep-sorted="sideways" keep-unique line-count="<9"', (), [tuple(b'a'), tuple(b'a')], ())
        res = parse_layout_blocks(I, prog, lay)
        bwc = mk_bwc(prog, res.f[0].items[0], content_modified=True)
        ctx = mk_context(prog, I, [(b'f.js', lay.src, [bwc])])
        vs = [Ref(Cell(Struct(n, ())), ()) for n in order]
        return I.call_fn(f_run, [ctx, VecVal(vs), VecVal(())])

    for I, pk, val in explore(prog, models.M, run_path, stats=stats, max_paths=1000):
        out['obligations'] += 1
        if pk == 'panic' or val.v == 0:
            out['violations'].append(dict(role='validator-error-swallowed', case='propagation', order=list(order),
                                          summary='keep-sorted="sideways" among healthy validators %s: run did not fail' % (order,)))
        out['cover']['case:propagation'] = 1
    out.update(Agg(PROP, 'x').stats_from(stats))
    return out


def run_async_malformed(task):
    """Malformed check-lua / check-ai rules among healthy blocks and validators: validators::run must
    fail.  task = (case, L, position).  Cases: `lua-path` / `ai-condition`: every value of L bytes over
    {space, tab, A} (blank ones must fail, others must not); `lua-missing`, `lua-empty` (script without
    validate), `ai-no-key`, `lua-pattern`, `ai-pattern` (uncompilable regex)."""
    case, L, pos = task
    from . import c18, c19
    prog = driver.load_program()
    stats = PathStats()
    f_run = prog.find_fn('run')
    f_env = prog.find_method('OpenAiClient', 'new_from_env')
    f_with = prog.find_method('CheckAiValidator', 'with_client')
    out = dict(violations=[], samples=[], obligations=0, cover={}, panic_paths=0)
    holder = {}
    roles = set()

    def run_path(I):
        calls, log = [], []
        val = tuple(I.fresh_byte('v%d' % i, (32, 9, 65)) for i in range(L))
        holder['val'] = val
        lua_attr = {'check-lua': b'H.lua'}
        ai_attr = {'check-ai': b'Hcond'}
        scripts = {72: ('nil',), 65: ('nil',)}
        replies = {'default': ('text', tuple(b'OK'))}
        key = tuple(b'k')
        if case == 'lua-path':
            lua_attr = {'check-lua': SString(val, I.new_alloc())}
        elif case == 'ai-condition':
            ai_attr = {'check-ai': SString(val, I.new_alloc())}
        elif case == 'lua-missing':
            scripts[72] = ('read_error',)
        elif case == 'lua-empty':
            scripts[72] = ('no_validate',)
        elif case == 'lua-empty-after-healthy':
            scripts[72] = ('no_validate',)
        elif case == 'ai-no-key':
            key = None if L == 0 else ()
        elif case == 'lua-missing-nomatch':
            # a healthy pattern that selects nothing in this block: the script is still missing
            scripts[72] = ('read_error',)
            lua_attr['check-lua-pattern'] = b'zz(?P<value>q+)'
        elif case == 'lua-empty-nomatch':
            scripts[72] = ('no_validate',)
            lua_attr['check-lua-pattern'] = b'zz(?P<value>q+)'
        elif case == 'ai-no-key-nomatch':
            key = None if L == 0 else ()
            ai_attr['check-ai-pattern'] = b'zz(?P<value>q+)'
        elif case == 'lua-pattern':
            lua_attr['check-lua-pattern'] = b'(unclosed'
        elif case == 'ai-pattern':
            ai_attr['check-ai-pattern'] = b'[a-'
        bad_lua = mk_bwc(prog, mk_block(prog, I, dict(lua_attr, name=b'bad'), (5, 3), (5, 20), (3, 5), (5, 30), (7, 1)))
        bad_ai = mk_bwc(prog, mk_block(prog, I, dict(ai_attr, name=b'bad2'), (9, 3), (9, 20), (3, 5), (9, 30), (11, 1)))
        healthy = mk_bwc(prog, mk_block(prog, I, {'name': b'ok', 'keep-sorted': b''}, (1, 3), (1, 20), (3, 5), (1, 30), (3, 1)))
        blocks = [healthy, bad_lua, bad_ai] if pos == 0 else [bad_ai, bad_lua, healthy]
        if case == 'lua-empty-after-healthy':
            # a healthy scripted block earlier in the same file (a VM shared per file would keep its `validate`)
            first = mk_bwc(prog, mk_block(prog, I, {'name': b'first', 'check-lua': b'A.lua'}, (1, 3), (1, 20), (3, 5), (1, 30), (3, 1)))
            blocks = [first] + blocks
        src = tuple(b'#S\nab\n#E\n')
        other = mk_bwc(prog, mk_block(prog, I, {'name': b'o2', 'check-lua': b'A.lua'}, (1, 3), (1, 20), (3, 5), (1, 30), (3, 1)))
        ctx = mk_context(prog, I, [(b'f0.py', src, blocks), (b'f1.py', src, [other])])
        c18.install_lua(I, prog, scripts, calls)
        c19.install_openai(I, prog, {b'BLOCKWATCH_AI_API_KEY': key, b'BLOCKWATCH_AI_MODEL': None, b'BLOCKWATCH_AI_API_URL': None}, replies, log)
        I.task_order = lambda n, step: I.concretize(I.fresh_int('ord%d_%d' % (step, n), 0, n - 1), 'task order') if n > 1 else 0
        client = I.call_fn(f_env, [])
        ai = Ref(Cell(I.call_fn(f_with, [client])), ())
        lua = Ref(Cell(Struct('CheckLuaValidator', ())), ())
        ks = Ref(Cell(Struct('KeepSortedValidator', ())), ())
        return I.call_fn(f_run, [ctx, VecVal([ks]), VecVal([lua, ai] if pos == 0 else [ai, lua])])

    def viol(I, cond, role, summary):
        out['obligations'] += 1
        if role in roles:
            return
        if isinstance(cond, bool):
            cond = z3.BoolVal(cond)
        if I.check(cond):
            roles.add(role)
            m = I.solver.model()
            out['violations'].append(dict(role=role, summary=summary, case='async', kind=case, L=L,
                                          value=model_bytes(m, holder['val']).decode('latin1')))

    for I, pk, val in explore(prog, models.M, run_path, stats=stats, max_paths=5000):
        if pk == 'panic':
            out['panic_paths'] += 1
            viol(I, True, 'panic', 'panic: %s' % val.msg[:120])
            continue
        v = holder['val']
        if case in ('lua-path', 'ai-condition'):
            blank = zand([z3.Or(x == 32, x == 9) for x in v])
            if val.v == 0:
                viol(I, blank, 'malformed-rule-accepted', '%s with a blank value is accepted' % case)
            else:
                # a non-blank path names a script that does not exist -> also an error; a non-blank condition is fine
                if case == 'ai-condition':
                    viol(I, z3.Not(blank), 'valid-rule-rejected', 'a non-blank check-ai condition fails the run')
        else:
            if val.v == 0:
                viol(I, True, 'malformed-rule-accepted', '%s: the run succeeded' % case)
        out['cover']['case:async'] = 1
    out.update(Agg(PROP, 'x').stats_from(stats))
    return out


# ------------------------------------------------------------------ replay

def confirm(binary, v, idx):
    v['confirmed'] = False
    case = v.get('case')
    if case in ('direction', 'format', 'severity'):
        val = v['value']
        if '"' in val or '\n' in val:
            return v
        attr = {'direction': 'keep-sorted="%s"', 'format': 'keep-sorted keep-sorted-format="%s"', 'severity': 'keep-sorted severity="%s"'}[case] % val
        content = {'direction': 'a\nb\n', 'format': '1\n2\n', 'severity': 'b\na\n'}[case]
        files = {'f.py': ('# <block %s>\n%s# </block>\n' % (attr, content)).encode('latin1')}
        r = run_scan(binary, files, ['f.py'])
        failed = r['code'] != 0 and r['diags'] is None
        want_fail = v['role'] == 'malformed-rule-accepted'
        v['observed'] = dict(code=r['code'], diags=bool(r['diags']), stderr=r['stderr'][-150:])
        if failed != want_fail:
            v['confirmed'] = True
            v['replay'] = save_replay(PROP, '%s-%s-%d' % (case, v['role'], idx), files, 'f.py',
                                      'expected %s; %s' % ('a readable error, exit non-zero' if want_fail else 'no error', v['summary']), v)
        return v
    if case == 'affects':
        val = v['value']
        if '"' in val:
            return v
        src = '# <block affects="%s">\nnew\n# </block>\n' % val
        diff = 'diff --git a/f.py b/f.py\n--- a/f.py\n+++ b/f.py\n@@ -2 +2 @@\n-old\n+new\n'
        d = scratch_dir('c13')
        try:
            git_init(d)
            open(os.path.join(d, 'f.py'), 'w').write(src)
            r = run_blockwatch(binary, d, [], stdin=diff.encode())
        finally:
            shutil.rmtree(d, ignore_errors=True)
        is_err = r['code'] != 0 and not r['stderr'].strip().startswith('{')
        want_fail = v['role'] == 'malformed-rule-accepted'
        v['observed'] = dict(code=r['code'], stderr=r['stderr'][-200:])
        if is_err != want_fail:
            v['confirmed'] = True
            v['replay'] = save_replay(PROP, 'affects-%s-%d' % (v['role'], idx), {'f.py': src.encode(), 'input.diff': diff.encode()}, '',
                                      'expected %s; %s' % ('an error about the affects value' if want_fail else 'no error', v['summary']), v,
                                      stdin_file='input.diff')
        return v
    if case == 'numeric-keys':
        src = v['src'].encode('latin1')
        r = run_scan(binary, {'f.js': src}, ['f.js'])
        v['observed'] = dict(code=r['code'], stderr=r['stderr'][-150:])
        want_fail = v['role'] == 'non-numeric-key-passes'
        if (r['code'] != 0) != want_fail:
            v['confirmed'] = True
            v['replay'] = save_replay(PROP, 'numeric-%s-%d' % (v['role'], idx), {'f.js': src}, 'f.js', v['summary'], v)
        return v
    if case == 'regex':
        attr = {'keep-sorted-pattern': 'keep-sorted keep-sorted-pattern="%s"', 'keep-unique': 'keep-unique="%s"',
                'line-pattern': 'line-pattern="%s"'}[v['kind']] % v['pattern']
        files = {'f.py': ('# <block %s>\na\nb\n# </block>\n' % attr).encode()}
        r = run_scan(binary, files, ['f.py'])
        v['observed'] = dict(code=r['code'], stderr=r['stderr'][-150:])
        if r['code'] == 0 or r['diags'] is not None:
            v['confirmed'] = True
            v['replay'] = save_replay(PROP, 'regex-%d' % idx, files, 'f.py', 'expected an error about the pattern; ' + v['summary'], v)
        return v
    if case == 'line-count':
        from . import c09
        c09.confirm(binary, v, idx)
        if v.get('confirmed') and v.get('replay'):
            pass
        return v
    if case == 'async':
        kind, val = v['kind'], v.get('value', '')
        if '"' in val or '\n' in val:
            return v
        lua_attr, ai_attr, env = 'check-lua="ok.lua"', 'check-ai="cond"', {'BLOCKWATCH_AI_API_KEY': 'k', 'BLOCKWATCH_AI_API_URL': 'http://127.0.0.1:9/v1'}
        files = {'ok.lua': b'function validate(ctx, content)\n  return nil\nend\n', 'empty.lua': b'-- nothing\n'}
        want_fail = v['role'] == 'malformed-rule-accepted'
        ai = False
        if kind == 'lua-path':
            lua_attr = 'check-lua="%s"' % val
        elif kind == 'ai-condition':
            ai_attr, ai = 'check-ai="%s"' % val, True
        elif kind == 'lua-missing':
            lua_attr = 'check-lua="missing.lua"'
        elif kind in ('lua-empty', 'lua-empty-after-healthy'):
            lua_attr = 'check-lua="empty.lua"'
        elif kind == 'ai-no-key':
            ai = True
            env.pop('BLOCKWATCH_AI_API_KEY')
            if v.get('L'):
                env['BLOCKWATCH_AI_API_KEY'] = ''
        elif kind == 'lua-missing-nomatch':
            lua_attr = 'check-lua="missing.lua" check-lua-pattern="zz(?P<value>q+)"'
        elif kind == 'lua-empty-nomatch':
            lua_attr = 'check-lua="empty.lua" check-lua-pattern="zz(?P<value>q+)"'
        elif kind == 'ai-no-key-nomatch':
            ai = True
            ai_attr += ' check-ai-pattern="zz(?P<value>q+)"'
            env.pop('BLOCKWATCH_AI_API_KEY')
            if v.get('L'):
                env['BLOCKWATCH_AI_API_KEY'] = ''
        elif kind == 'lua-pattern':
            lua_attr += ' check-lua-pattern="(unclosed"'
        elif kind == 'ai-pattern':
            ai_attr, ai = ai_attr + ' check-ai-pattern="[a-"', True
        body = '# <block name="ok" keep-sorted>\na\nb\n# </block>\n# <block name="bad" %s>\nab\n# </block>\n' % lua_attr
        if kind == 'lua-empty-after-healthy':
            body = '# <block name="first" check-lua="ok.lua">\nab\n# </block>\n' + body
        if ai:
            body += '# <block name="bad2" %s>\nab\n# </block>\n' % ai_attr
        files['f0.py'] = body.encode('latin1')
        from . import c19
        with c19.FakeEndpoint([], default=('text', 'OK')) as ep:       # a healthy endpoint: every reply is OK
            env['BLOCKWATCH_AI_API_URL'] = 'http://127.0.0.1:%d/v1' % ep.port
            r = run_scan(binary, files, ['**/*.py'], env_extra=env)
        env['BLOCKWATCH_AI_API_URL'] = 'http://127.0.0.1:<port of an endpoint that answers OK>/v1'
        failed = r['code'] != 0 and r['diags'] is None
        v['observed'] = dict(code=r['code'], stderr=r['stderr'][-200:])
        if failed != want_fail:
            v['confirmed'] = True
            v['replay'] = save_replay(PROP, 'async-%s-%d' % (kind, idx), files, "'**/*.py'", 'env %s; expected a failed run; %s' % (env, v['summary']), v)
        return v
    if case == 'propagation':
        files = {'f.py': b'# <block keep-sorted="sideways" keep-unique line-count="<9">\na\na\n# </block>\n'}
        r = run_scan(binary, files, ['f.py'])
        v['observed'] = dict(code=r['code'], stderr=r['stderr'][-150:])
        if r['code'] == 0 or r['diags'] is not None:
            v['confirmed'] = True
            v['replay'] = save_replay(PROP, 'propagation-%d' % idx, files, 'f.py', v['summary'], v)
    return v


import os
import shutil

BOUNDS = {
    'quick': dict(maxlen=dict(direction=4, format=7, affects=4, severity=5), positions=[(0, 0), (1, 1)], numeric=[(1, 1), (2, 1), (1, 1, 1)], validate=20),
    'thorough': dict(maxlen=dict(direction=6, format=13, affects=6, severity=7), positions=[(0, 0), (1, 0), (0, 1), (1, 1)],
                     numeric=[(1, 1), (2, 1), (1, 2), (1, 1, 1), (2, 2, 1)], validate=60),
}


def main(tier):
    b = BOUNDS[tier]
    agg = Agg(PROP, tier)
    binary = driver.real_binary()
    driver.load_program()
    rnd = random.Random(seed())
    tasks = []
    for case, ml in b['maxlen'].items():
        for L in range(0, ml + 1):
            for pi, (pre, post) in enumerate(b['positions']):
                if pi > 0 and L not in (0, 3, ml):
                    continue
                tasks.append((case, L, pre, post, True))
    tasks.sort(key=lambda t: -t[1])
    results = pmap(run_attr, tasks)
    results += pmap(run_numeric_keys, [(s, True) for s in b['numeric']])
    rtasks = [(k, p, True) for k in ('keep-sorted-pattern', 'keep-unique', 'line-pattern') for p in BAD_REGEXES]
    rtasks += [(k, '(', False) for k in ('keep-sorted-pattern', 'keep-unique')]
    results += pmap(run_bad_regex, rtasks, chunksize=4)
    names = ['KeepSortedValidator', 'KeepUniqueValidator', 'LineCountValidator']
    results += pmap(run_propagation, [list(p) for p in itertools.permutations(names)], chunksize=2)
    atasks = [(c, L, p) for c in ('lua-path', 'ai-condition') for L in range(0, 3 if tier == 'quick' else 4) for p in (0, 1)]
    atasks += [(c, 0, p) for c in ('lua-missing', 'lua-empty', 'lua-empty-after-healthy', 'ai-no-key', 'lua-pattern', 'ai-pattern', 'lua-missing-nomatch', 'lua-empty-nomatch', 'ai-no-key-nomatch') for p in (0, 1)]
    atasks.append(('ai-no-key', 1, 0))
    results += pmap(run_async_malformed, atasks)
    # line-count expressions: the C09 harness family A (symbolic expression), malformed/overflow verdicts only
    from . import c09
    lc_tasks = [('A', L, (b'', b'a', b''), False) for L in range(0, 4)]
    lc_tasks += [('A', tuple(e.encode()), (b'', b'a', b''), False)
                 for e in ['<18446744073709551616', '<=99999999999999999999', '<18446744073709551615', '<= +', '=<3', '']]
    for r in pmap(c09.run_case, lc_tasks):
        r2 = dict(r)
        keep = []
        for v in r.get('violations', []):
            if v['role'] in ('malformed-constraint-accepted', 'valid-constraint-rejected'):
                v = dict(v)
                v['case'] = 'line-count'
                keep.append(v)
        r2['violations'] = keep
        r2['cover'] = {'case:line-count': 1}
        r2['samples'] = []
        results.append(r2)
    for r in results:
        agg.add(r)
    by_role = {}
    for v in agg.violations:
        by_role.setdefault((v['role'], v.get('case')), []).append(v)
    final = []
    for key, vs in sorted(by_role.items(), key=lambda kv: str(kv[0])):
        got = None
        for i, v in enumerate(vs[:8]):
            confirm(binary, v, i)
            if v['confirmed']:
                got = v
                break
        final.append(got or vs[0])
    agg.violations = final
    samples = [s for r in results for s in r.get('samples', []) if s.get('case') in ('direction', 'format', 'severity')]
    rnd.shuffle(samples)
    for s in samples[:b['validate']]:
        if '"' in s['value'] or '\n' in s['value']:
            continue
        v = dict(role='malformed-rule-accepted' if s['outcome'] == 'ok' else 'well-formed-rule-rejected', case=s['case'], value=s['value'], summary='')
        confirm(binary, v, 0)
        # sample outcome 'ok' means mirsym says accepted: real binary must not fail (confirm flags a mismatch the other way round)
        if v['confirmed']:
            agg.validated += 1
        else:
            msg = 'mirsym outcome %s vs real %s for %s=%r' % (s['outcome'], v.get('observed'), s['case'], s['value'])
            agg.validation_failures.append(msg)
            agg.engine_errors.append({'engine_error': 'translator validation: ' + msg})
    bounds = dict(max_value_len=b['maxlen'], positions=b['positions'], numeric_key_shapes=b['numeric'], bad_regexes=BAD_REGEXES)
    return finish(
        agg, bounds,
        assumptions=['values that trim to a valid word but carry surrounding blanks (keep-sorted=" asc") are don\'t-care',
                     'line-count expressions are decided in C09 (same harness family), severity parsing alone in C11',
                     'regex compilation errors come from the reference model mirsym/rexmodel.py for a menu of uncompilable patterns',
                     'Lua/AI malformations (async validators) and the process exit code itself are outside'],
        stubs=['WinnowBlockTagParser::next (reference scanner; the symbolic value is spliced into the parsed attribute map)',
               'regex::Regex::new (reference model)', 'serde_json::to_value'],
        must_cover=['case:direction', 'case:format', 'case:affects', 'case:severity', 'case:numeric-keys', 'case:regex', 'case:propagation', 'case:line-count', 'case:async', 'err', 'ok'],
        explanation='accepted language of each attribute as a Z3 formula over the value bytes: PC∧reject∧Ok and PC∧accept∧Err asked on every path')


if __name__ == '__main__':
    sys.exit(main(sys.argv[1] if len(sys.argv) > 1 else 'quick'))
