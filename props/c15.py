"""C15 — only files in scope are examined: globs, --ignore and diff paths.

Encoded (real MIR): blocks::parse_blocks, blocks::parse_file (+filter closure),
parser_for_file_path, try_parser_for_extension, diff_parser::line_changes_from_diff.
Symbolic: per file: walked?, allow(path)?, ignore(path)?, named in the diff?; should_scan_files;
every byte of the diff's target path.  Enumerated: walk order / map order permutations.
Oracle: examined = (scan ∧ walked ∧ allow ∪ diff) ∖ ignore, each read once; the key a diff
file is looked up under = target path with exactly one leading `b/` removed.
"""
import itertools
import json
import os
import random
import shutil
import sys

import z3

from .common import *  # noqa
from .vharness import *  # noqa
from . import c16
from mirsym.interp import explore, PathStats
from mirsym.models import new_string, ListIter
from mirsym.extmodels import mk_line, mk_hunk, mk_patched_file

PROP = 'C15'
FILES = [b'a.py', b'b/b.py', b'src/x.rs', b'a/b/c.md']
PATH_ALPHABET = [ord(c) for c in 'ab/.x']


def run_scope(task):
    nfiles, walk_order, map_order, want_sample = task
    prog = driver.load_program()
    stats = PathStats()
    table, names, _st = c16.real_table(prog)
    f_pb = prog.find_fn('parse_blocks')
    files = FILES[:nfiles]
    out = dict(violations=[], samples=[], obligations=0, cover={}, panic_paths=0)
    holder = {}
    roles = set()

    def run_path(I):
        scan = I.fresh_bool('scan')
        walked = [I.fresh_bool('walked%d' % i) for i in range(nfiles)]
        allow = [I.fresh_bool('allow%d' % i) for i in range(nfiles)]
        ignore = [I.fresh_bool('ignore%d' % i) for i in range(nfiles)]
        indiff = [I.fresh_bool('indiff%d' % i) for i in range(nfiles)]
        holder.update(scan=scan, walked=walked, allow=allow, ignore=ignore, indiff=indiff)
        reads = []
        holder['reads'] = reads
        I.map_order = lambda n: [map_order[i] for i in range(len(map_order)) if map_order[i] < n] if len(map_order) >= n else list(range(n))

        def idx_of(I2, p):
            b = bytes(as_bytes(I2, p))
            return files.index(b)

        def walk_stub(I2, a, ci, dt):
            items = []
            for i in walk_order:
                if i < nfiles and I2.branch(walked[i]):
                    items.append(Ok(new_string(I2, files[i])))
            return ListIter(items)

        def allow_stub(I2, a, ci, dt):
            return allow[idx_of(I2, a[1])]

        def ignore_stub(I2, a, ci, dt):
            return ignore[idx_of(I2, a[1])]

        def read_stub(I2, a, ci, dt):
            reads.append(idx_of(I2, a[1]))
            return Ok(new_string(I2, b'# <block>\nx\n# </block>\n'))

        def parse_stub(I2, a, ci, dt):
            blk = mk_block(prog, I2, {}, (1, 3), (1, 9), (9, 11), (1, 10), (3, 1))
            return Ok(VecVal([blk]))

        I.stubs['FileSystem::walk'] = walk_stub
        I.stubs['PathChecker::should_allow'] = allow_stub
        I.stubs['PathChecker::should_ignore'] = ignore_stub
        I.stubs['FileSystem::read_to_string'] = read_stub
        I.stubs['BlocksParser::parse'] = parse_stub
        ents = []
        for i in range(nfiles):
            if I.branch(indiff[i]):
                ents.append(Tuple(new_string(I, files[i]),
                                  VecVal([mk_struct(prog, 'LineChange', line=1, ranges=NONE)])))
        lcmap = MapVal(ents, 'HashMap')
        fs = Ref(Cell(Struct('FakeFS', ())), ())
        pc = Ref(Cell(Struct('FakePC', ())), ())
        return I.call_fn(f_pb, [lcmap, scan, fs, pc, table, MapVal((), 'HashMap')])

    def as_bytes(I2, p):
        from mirsym.models import as_sstr
        return as_sstr(I2, p).b

    def viol(I, cond, role, summary):
        out['obligations'] += 1
        if role in roles:
            return
        if I.check(cond):
            roles.add(role)
            # prefer a witness the CLI can express: scan mode needs at least one positional glob
            h = holder
            replayable = z3.Or(z3.Not(h['scan']), zor(h['allow']))
            if not I.check(cond, replayable):
                I.check(cond)
            m = I.solver.model()
            out['violations'].append(dict(
                role=role, summary=summary, files=[f.decode() for f in files],
                scan=mval(m, holder['scan']), walked=[mval(m, x) for x in holder['walked']],
                allow=[mval(m, x) for x in holder['allow']], ignore=[mval(m, x) for x in holder['ignore']],
                indiff=[mval(m, x) for x in holder['indiff']], reads=list(holder['reads']),
                walk_order=list(walk_order)))

    for I, kind, val in explore(prog, models.M, run_path, stats=stats, max_paths=300000):
        if kind == 'panic':
            out['panic_paths'] += 1
            viol(I, z3.BoolVal(True), 'panic', 'panic: %s' % val.msg[:120])
            continue
        h = holder
        reads = h['reads']
        if val.v != 0:
            viol(I, z3.BoolVal(True), 'unexpected-error', 'parse_blocks returned Err under total stubs')
            continue
        keys = set()
        for e in val.f[0].entries:
            keys.add(files.index(bytes(e.f[0].b)))
        for i in range(nfiles):
            in_scope = z3.And(z3.Not(h['ignore'][i]),
                              z3.Or(z3.And(h['scan'], h['walked'][i], h['allow'][i]), h['indiff'][i]))
            cnt = reads.count(i)
            if cnt == 0:
                viol(I, in_scope, 'in-scope-file-not-examined', 'file %s in scope but never read' % files[i].decode())
            else:
                viol(I, z3.Not(in_scope), 'out-of-scope-file-examined',
                     'file %s out of scope (ignored / not matched) but read' % files[i].decode())
                if cnt > 1:
                    viol(I, z3.BoolVal(True), 'file-examined-twice', 'file %s read %d times' % (files[i].decode(), cnt))
            if (i in keys) != (cnt > 0):
                viol(I, z3.BoolVal(True), 'result-keys-differ-from-examined', 'result map keys differ from the files read')
        out['cover']['scope-paths'] = out['cover'].get('scope-paths', 0) + 1
        if want_sample and len(out['samples']) < 2:
            m = I.ensure_model()
            out['samples'].append(dict(kind='scope', files=[f.decode() for f in files], scan=mval(m, h['scan']),
                                       walked=[mval(m, x) for x in h['walked']], allow=[mval(m, x) for x in h['allow']],
                                       ignore=[mval(m, x) for x in h['ignore']], indiff=[mval(m, x) for x in h['indiff']],
                                       reads=sorted(set(reads))))
    out.update(Agg(PROP, 'x').stats_from(stats))
    return out


def run_diffpath(task):
    plen, with_prefix, removed, want_sample = task
    prog = driver.load_program()
    stats = PathStats()
    f = prog.find_fn('line_changes_from_diff')
    out = dict(violations=[], samples=[], obligations=0, cover={}, panic_paths=0)
    holder = {}
    roles = set()

    def run_path(I):
        path = tuple(I.fresh_byte('t%d' % i, PATH_ALPHABET) for i in range(plen))
        holder['path'] = path
        target = (tuple(b'b/') if with_prefix else ()) + path
        if removed is True:
            target = tuple(b'/dev/null')        # how git names the new side of a deleted file
        holder['target'] = target

        def from_str_stub(I2, a, ci, dt):
            if removed:
                # `@@ -1 +0,0 @@`: a deleted file - or (removed == 'top') an existing file whose first line
                # was deleted, as `git diff -U0` writes it: that file is still named in the diff
                hunk = mk_hunk(I2, 1, 1, 0, 0, [mk_line(I2, b'-', 1, None)])
            else:
                hunk = mk_hunk(I2, 0, 0, 1, 1, [mk_line(I2, b'+', None, 1)])
            pf = Struct('PatchedFile', (new_string(I2, b'a/x'), NONE, new_string(I2, target), NONE, VecVal([hunk])))
            return Ok(Struct('PatchSet', (VecVal([pf]), Opaque('encoding'))))

        I.stubs['<PatchSet as FromStr>::from_str'] = from_str_stub
        return I.call_fn(f, [SStr(tuple(b'diff'), I.new_alloc(), 0)])

    def viol(I, cond, role, summary):
        out['obligations'] += 1
        if role in roles:
            return
        if I.check(cond):
            roles.add(role)
            # prefer a witness that is a plain relative path (replayable on a real file system)
            pth = holder['path']
            nice = [pth[0] != 47, pth[-1] != 47, pth[-1] != 46, pth[0] != 46] + \
                   [z3.Not(z3.And(pth[i] == 47, pth[i + 1] == 47)) for i in range(len(pth) - 1)] + \
                   [z3.Not(z3.And(pth[i] == 47, pth[i + 1] == 46)) for i in range(len(pth) - 1)]
            if not I.check(cond, *nice):
                I.check(cond)
            m = I.solver.model()
            out['violations'].append(dict(role=role, summary=summary,
                                          target=model_bytes(m, holder['target']).decode('latin1'),
                                          key=holder.get('key'), top_deletion=(removed == 'top')))

    for I, kind, val in explore(prog, models.M, run_path, stats=stats, max_paths=100000):
        if kind == 'panic':
            viol(I, z3.BoolVal(True), 'panic', 'panic: %s' % val.msg[:120])
            continue
        if val.v != 0:
            viol(I, z3.BoolVal(True), 'unexpected-error', 'line_changes_from_diff returned Err')
            continue
        ents = val.f[0].entries
        if removed is True:
            if ents:
                viol(I, z3.BoolVal(True), 'removed-file-listed', 'a deleted file contributes line changes')
            out['cover']['removed'] = 1
            continue
        if removed == 'top':
            out['cover']['first line deleted (-U0)'] = 1
        if len(ents) != 1:
            viol(I, z3.BoolVal(True), 'diff-file-lost' + ('-first-line-deleted' if removed == 'top' else ''),
                 'diff names one file, map has %d' % len(ents))
            continue
        key = ents[0].f[0].b
        path = holder['path']
        expected = path if with_prefix else path
        if not with_prefix:
            # a target without the b/ prefix (git diff --no-prefix): one leading "b/" of the
            # path itself would be removed by design; keep that corner out of the claim
            starts_b = zand([path[0] == 98, path[1] == 47]) if plen >= 2 else z3.BoolVal(False)
        else:
            starts_b = z3.BoolVal(False)
        holder['key'] = None
        if len(key) != len(expected):
            m_ok = z3.Not(starts_b)
            holder['key'] = 'length %d instead of %d' % (len(key), len(expected))
            viol(I, m_ok, 'diff-path-mangled', 'diff target path resolved to a different path (more than one leading b/ removed?)')
        else:
            neq = zor([a != b for a, b in zip(key, expected) if not (isinstance(a, int) and isinstance(b, int) and a == b)])
            viol(I, z3.And(neq, z3.Not(starts_b)), 'diff-path-mangled', 'diff target path resolved to a different path')
        out['cover']['diffpath'] = out['cover'].get('diffpath', 0) + 1
        if want_sample and len(out['samples']) < 2:
            m = I.ensure_model()
            out['samples'].append(dict(kind='diffpath', target=model_bytes(m, holder['target']).decode('latin1'),
                                       key=model_bytes(m, key).decode('latin1')))
    out.update(Agg(PROP, 'x').stats_from(stats))
    return out


def run_difforder(task):
    """A diff with several file sections, one of them a deleted file, in every order: every
    non-deleted file must be a key of the result whatever the order (C15 scope, C20 determinism)."""
    order = task
    prog = driver.load_program()
    stats = PathStats()
    f = prog.find_fn('line_changes_from_diff')
    out = dict(violations=[], samples=[], obligations=0, cover={}, panic_paths=0, results=[])
    secs = {0: ('alpha.py', False), 1: ('legacy.py', True), 2: ('zeta/z.py', False)}

    def run_path(I):
        def from_str_stub(I2, a, ci, dt):
            pfs = []
            for i in order:
                name, removed = secs[i]
                if removed:
                    hunk = mk_hunk(I2, 1, 2, 0, 0, [mk_line(I2, b'-', 1, None), mk_line(I2, b'-', 2, None)])
                    pfs.append(Struct('PatchedFile', (new_string(I2, b'a/' + name.encode()), NONE, new_string(I2, b'/dev/null'), NONE, VecVal([hunk]))))
                else:
                    hunk = mk_hunk(I2, 1, 1, 1, 2, [mk_line(I2, b' ', 1, 1), mk_line(I2, b'+', None, 2)])
                    pfs.append(Struct('PatchedFile', (new_string(I2, b'a/' + name.encode()), NONE, new_string(I2, b'b/' + name.encode()), NONE, VecVal([hunk]))))
            return Ok(Struct('PatchSet', (VecVal(pfs), Opaque('encoding'))))
        I.stubs['<PatchSet as FromStr>::from_str'] = from_str_stub
        return I.call_fn(f, [SStr(tuple(b'diff'), I.new_alloc(), 0)])

    for I, kind, val in explore(prog, models.M, run_path, stats=stats, max_paths=100):
        out['obligations'] += 1
        if kind == 'panic' or val.v != 0:
            out['violations'].append(dict(role='diff-sections-error', summary='line_changes_from_diff failed on a multi-file diff', order=list(order)))
            continue
        keys = sorted(bytes(e.f[0].b).decode() for e in val.f[0].entries)
        if keys != ['alpha.py', 'zeta/z.py']:
            out['violations'].append(dict(role='diff-section-lost', order=list(order),
                                          summary='diff sections in order %s: files %s instead of alpha.py, zeta/z.py' % ([secs[i][0] for i in order], keys)))
        out['cover']['diff-orders'] = out['cover'].get('diff-orders', 0) + 1
    out.update(Agg(PROP, 'x').stats_from(stats))
    return out


def confirm_difforder(binary, v, idx, prop=PROP):
    v['confirmed'] = False
    secs = {0: ('alpha.py', False), 1: ('legacy.py', True), 2: ('zeta/z.py', False)}
    diff = ''
    files = {}
    for i in v['order']:
        name, removed = secs[i]
        if removed:
            diff += 'diff --git a/%s b/%s\ndeleted file mode 100644\n--- a/%s\n+++ /dev/null\n@@ -1,2 +0,0 @@\n-x\n-y\n' % (name, name, name)
        else:
            files[name] = b'# <block name="k">\nnew\n# </block>\n'
            diff += 'diff --git a/%s b/%s\n--- a/%s\n+++ b/%s\n@@ -1,1 +1,2 @@\n # <block name="k">\n+new\n' % (name, name, name, name)
    d = scratch_dir('c15o')
    try:
        git_init(d)
        for n, c in files.items():
            p = os.path.join(d, n)
            os.makedirs(os.path.dirname(p), exist_ok=True)
            open(p, 'wb').write(c)
        r = run_blockwatch(binary, d, ['list'], stdin=diff.encode())
    finally:
        shutil.rmtree(d, ignore_errors=True)
    keys = []
    try:
        keys = sorted(json.loads(r['stdout'] or '{}').keys())
    except ValueError:
        pass
    v['observed'] = dict(code=r['code'], keys=keys)
    if keys != ['alpha.py', 'zeta/z.py']:
        v['confirmed'] = True
        files2 = dict(files)
        files2['input.diff'] = diff.encode()
        v['replay'] = save_replay(prop, '%s-%d' % (v['role'], idx), files2, 'list', 'expected alpha.py and zeta/z.py listed; ' + v['summary'], v, stdin_file='input.diff')
    return v


# ------------------------------------------------------------------ replay on the real binary

def observe_scope(binary, v):
    """Build a real tree: walked files exist on disk; allow = positional globs listing the files;
    ignore = --ignore globs; diff names the indiff files.  Returns the set of file keys listed."""
    files = v['files']
    d = scratch_dir('c15')
    try:
        git_init(d)
        for i, f in enumerate(files):
            if v['walked'][i] or v['indiff'][i]:
                p = os.path.join(d, f)
                os.makedirs(os.path.dirname(p), exist_ok=True)
                body = {'py': '# <block name="k">\nx\n# </block>\n', 'rs': '// <block name="k">\nx\n// </block>\n',
                        'md': '<!-- <block name="k"> -->\nx\n<!-- </block> -->\n'}[f.rsplit('.', 1)[1]]
                open(p, 'w').write(body)
        args = ['list']
        globs = [files[i] for i in range(len(files)) if v['allow'][i]]
        if v['scan'] and not globs:
            return None        # scan mode with an empty glob set cannot be expressed on the CLI
        if not v['scan']:
            globs = []
        for i, f in enumerate(files):
            if v['ignore'][i]:
                args += ['--ignore', f]
        diff = ''
        for i, f in enumerate(files):
            if v['indiff'][i]:
                diff += 'diff --git a/%s b/%s\n--- a/%s\n+++ b/%s\n@@ -1 +1 @@\n-old\n+%s\n' % (
                    f, f, f, f, {'py': '# <block name="k">', 'rs': '// <block name="k">', 'md': '<!-- <block name="k"> -->'}[f.rsplit('.', 1)[1]])
        r = run_blockwatch(binary, d, args + globs, stdin=diff.encode())
    finally:
        shutil.rmtree(d, ignore_errors=True)
    if r['code'] != 0:
        return dict(error=r['stderr'][-300:])
    try:
        js = json.loads(r['stdout']) if r['stdout'].strip() else {}
    except ValueError:
        return dict(error='bad json')
    return dict(keys=sorted(js.keys()))


def expected_scope(v):
    files = v['files']
    out = []
    for i, f in enumerate(files):
        if v['ignore'][i]:
            continue
        on_disk = v['walked'][i] or v['indiff'][i]     # the replay creates diff-named files too
        if (v['scan'] and on_disk and v['allow'][i]) or v['indiff'][i]:
            out.append(f)
    return sorted(out)


def confirm(binary, v, idx):
    v['confirmed'] = False
    if 'target' in v:
        tgt = v['target']
        if not tgt.startswith('b/') or tgt.endswith('/') or '//' in tgt or not tgt[2:]:
            return v
        rel = tgt[2:]
        if rel.startswith('/') or any(seg in ('', '.', '..') for seg in rel.split('/')):
            return v
        if v.get('top_deletion'):
            # the file's first line (its start tag) was deleted: the diff names the file, so it is examined and
            # its stray end tag fails the run
            body = b'x = 1\n# </block>\n'
            diff = 'diff --git a/%s.py %s.py\n--- a/%s.py\n+++ %s.py\n@@ -1 +0,0 @@\n-# <block name="k">\n' % (rel, tgt, rel, tgt)
            d = scratch_dir('c15t')
            try:
                git_init(d)
                p = os.path.join(d, rel + '.py')
                os.makedirs(os.path.dirname(p), exist_ok=True)
                open(p, 'wb').write(body)
                r = run_blockwatch(binary, d, ['list'], stdin=diff.encode())
            finally:
                shutil.rmtree(d, ignore_errors=True)
            v['observed'] = dict(code=r['code'], stderr=r['stderr'][-200:], stdout=r['stdout'][-200:])
            if r['code'] == 0:
                v['confirmed'] = True
                v['replay'] = save_replay(PROP, '%s-%d' % (v['role'], idx), {rel + '.py': body, 'input.diff': diff.encode()},
                                          'list', 'expected a failed run naming %s.py (stray end tag); %s' % (rel, v['summary']), v, stdin_file='input.diff')
            return v
        d = scratch_dir('c15p')
        try:
            git_init(d)
            p = os.path.join(d, rel + '.py')
            os.makedirs(os.path.dirname(p), exist_ok=True)
            open(p, 'w').write('# <block name="k">\nx\n# </block>\n')
            # the old path differs from the new one (a rename with an edit), as in the harness
            diff = 'diff --git a/x.py %s.py\n--- a/x.py\n+++ %s.py\n@@ -1 +1 @@\n-old\n+# <block name="k">\n' % (tgt, tgt)
            r = run_blockwatch(binary, d, ['list'], stdin=diff.encode())
        finally:
            shutil.rmtree(d, ignore_errors=True)
        ok = False
        if r['code'] == 0:
            try:
                ok = (rel + '.py') in json.loads(r['stdout'] or '{}')
            except ValueError:
                ok = False
        v['observed'] = dict(code=r['code'], stderr=r['stderr'][-200:], stdout=r['stdout'][-200:])
        if not ok:
            v['confirmed'] = True
            v['replay'] = save_replay(PROP, '%s-%d' % (v['role'], idx), {rel + '.py': b'# <block name="k">\nx\n# </block>\n',
                                                                        'input.diff': diff.encode()},
                                      'list', 'expected key %s.py; %s' % (rel, v['summary']), v, stdin_file='input.diff')
        return v
    obs = observe_scope(binary, v)
    if obs is None:
        return v
    v['observed'] = obs
    want = expected_scope(v)
    v['expected'] = want
    if obs.get('keys') != want:
        v['confirmed'] = True
        rd = replay_dir(PROP, '%s-%d' % (v['role'], idx))
        open(os.path.join(rd, 'violation.json'), 'w').write(json.dumps(v, indent=1, default=str))
        open(os.path.join(rd, 'replay.sh'), 'w').write('#!/bin/sh\n# see violation.json: files/walked/allow/ignore/indiff; expected keys %s\n' % want)
        v['replay'] = rd
    return v


BOUNDS = {
    'quick': dict(nfiles=3, orders=1, path_max=5, validate=20),
    'thorough': dict(nfiles=4, orders=4, path_max=8, validate=80),
}


def main(tier):
    b = BOUNDS[tier]
    agg = Agg(PROP, tier)
    binary = driver.real_binary()
    prog = driver.load_program()
    rnd = random.Random(seed())
    n = b['nfiles']
    perms = list(itertools.permutations(range(n)))
    rnd.shuffle(perms)
    pick = [tuple(range(n)), tuple(reversed(range(n)))] + perms[:b['orders']]
    tasks = [(n, wo, mo, True) for wo in pick for mo in pick[:2]]
    results = pmap(run_scope, tasks)
    dtasks = []
    for L in range(1, b['path_max'] + 1):
        dtasks.append((L, True, False, True))
        dtasks.append((L, False, False, False))
    dtasks.append((3, True, True, False))
    dtasks.append((3, True, 'top', False))
    dtasks.append((5, True, 'top', False))
    results += pmap(run_diffpath, dtasks)
    results += pmap(run_difforder, list(itertools.permutations(range(3))))
    # the repository root, the directory walk and the file reads (FileSystemImpl on environment stubs)
    from . import fsroot
    starts = [b'/', b'/r', b'/r/a', b'/r/a/b'] + ([b'/r/a/b/c', b'/r/.git/x', b'/a b/c.d'] if tier == 'thorough' else [])
    fs_results = pmap(fsroot.run_root, [(s,) for s in starts])
    walks = [(b'/r', [b'a.py', b'b', b'b/b.py']), (b'/', [b'a.py', b'b/b.py']), (b'/r/r', [b'r/a.py', b'rr/r/b.py'])]
    if tier == 'thorough':
        walks += [(b'/r', [b'a', b'a/b', b'a/b/c', b'a/b/c/d.py']), (b'/a b', [b'c d/e f.py', b'.x', b'b/b/b'])]
    fs_results += pmap(fsroot.run_walkfs, walks)
    gl = [(['top0/*.py'], None, ['ign0'], None), (['top0/*.py', 'top1/*.py'], None, [], None), ([], ['list0/**', 'list1/**'], ['ign0'], None),
          ([], ['list0/**'], ['ign0', 'ign1'], None), ([], [], ['ign0'], None),
          (['top0/*.py'], ['list0/**'], [], None),                  # globs on both sides of `list`
          (['src', 'top0/*.py'], None, ['.ci/**'], None),           # a plain name that is a directory; a hidden ignored directory
          (['top0/*.py', 'top1/*.py'], None, ['ign0'], ('top', 1)), (['top0/*.py'], None, ['ign0'], ('ign', 0)), ([], ['list0/**', 'list1/**'], [], ('list', 1))]
    fs_results += pmap(fsroot.run_globs, gl)
    fs_violations = []
    fs_by_role = {}
    for r in fs_results:
        for v in r.get('violations', []):
            fs_by_role.setdefault(v['role'], []).append(v)
        r2 = dict(r)
        r2['violations'] = []
        r2['samples'] = []
        agg.add(r2)
    for role, cands in sorted(fs_by_role.items()):
        # the same role can come from several shapes; the replay of some shapes cannot show it (e.g. no
        # pattern that names a directory): keep the first candidate the real binary confirms
        chosen = None
        for v in cands[:8]:
            {'globs': fsroot.confirm_globs, 'root': fsroot.confirm_root, 'walk': fsroot.confirm_walk}[v['fsroot']](binary, PROP, v, 0)
            if v.get('confirmed'):
                chosen = v
                break
        fs_violations.append(chosen or cands[0])
    # validation of these replays: on paths where the post-conditions hold, the real binary must agree
    # (a replay that "confirms" on a passing path is wrong, and nothing it confirms may be believed)
    if not fs_violations:
        fs_samples = [s for r in fs_results for s in r.get('samples', [])]
        rnd.shuffle(fs_samples)
        picked = [s for s in fs_samples if s['fsroot'] == 'globs'] + [s for s in fs_samples if s['fsroot'] == 'root'][:4]
        picked.append(dict(fsroot='walk', role='sample', summary='sample'))
        for smp in picked:
            v = dict(smp)
            {'globs': fsroot.confirm_globs, 'root': fsroot.confirm_root, 'walk': fsroot.confirm_walk}[v['fsroot']](binary, PROP, v, 90)
            if v.get('confirmed'):
                msg = 'replay of a passing %s path disagrees with the real binary: %s' % (v['fsroot'], json.dumps(v, default=str)[:600])
                agg.validation_failures.append(msg)
                agg.engine_errors.append({'engine_error': 'translator validation: ' + msg})
                shutil.rmtree(v.get('replay', '/nonexistent'), ignore_errors=True)
            else:
                agg.validated += 1
    for r in results:
        agg.add(r)
    from . import mainwire
    mainwire.add_to(agg, PROP, binary)
    by_role = {}
    for v in agg.violations:
        by_role.setdefault(v['role'], []).append(v)
    final = []
    for role, vs in sorted(by_role.items()):
        got = None
        for i, v in enumerate(vs[:10]):
            if v.get('main'):
                pass                     # main-wiring violations were replayed by mainwire.add_to
            elif 'order' in v and 'files' not in v:
                confirm_difforder(binary, v, i)
            else:
                confirm(binary, v, i)
            if v['confirmed']:
                got = v
                break
        final.append(got or vs[0])
    agg.violations = final + fs_violations
    samples = [s for r in results for s in r.get('samples', [])]
    rnd.shuffle(samples)
    done = 0
    for s in samples:
        if done >= b['validate']:
            break
        if s['kind'] != 'scope':
            continue
        obs = observe_scope(binary, s)
        if obs is None:
            continue
        done += 1
        want = sorted(s['files'][i] for i in s['reads'])
        # the replay also creates diff-named files on disk, so a walked=false file that is in the
        # diff and allowed counts as walked there; compare with the reference under that reading
        if obs.get('keys') == expected_scope(s):
            agg.validated += 1
        else:
            msg = 'reference %s vs real %s on %s' % (expected_scope(s), obs, json.dumps(s))
            agg.validation_failures.append(msg)
            agg.engine_errors.append({'engine_error': 'translator validation: ' + msg})
    bounds = dict(b)
    bounds['files'] = [f.decode() for f in FILES[:n]]
    bounds['path_alphabet'] = ''.join(map(chr, PATH_ALPHABET))
    return finish(
        agg, bounds,
        assumptions=['globset matching, ignore::Walk (hidden / git-ignored files) and the current directory are stubs: allow(path), ignore(path), walked(path) are arbitrary booleans per path',
                     'Args::globs / ignored_globs run on enumerated argument shapes (0-2 top-level globs, `list` with 0-2 globs, both together, 0-2 --ignore patterns, a plain directory name, a hidden directory, one refused pattern; Path::is_dir / exists answer arbitrarily) with globset as a recording stub',
                     'repository_root_path and FileSystemImpl::walk / read_to_string run on environment stubs: Path::is_dir is a Z3 boolean per <ancestor>/.git and /.hg, ignore::Walk yields entries whose kind (file, directory, error) Z3 chooses, fs::read_to_string records its argument; start directories of depth 0-3 (quick) / 0-4 (thorough)',
                     'unidiff::PatchSet::from_str is a stub returning one patched file with an arbitrary target path',
                     'targets without the b/ prefix whose own first component is `b` are outside the claim'],
        stubs=['FileSystem::walk', 'FileSystem::read_to_string', 'PathChecker::should_allow', 'PathChecker::should_ignore',
               'BlocksParser::parse', 'PatchSet::from_str', 'Path::is_dir', 'ignore::Walk::new', 'DirEntry::path', 'std::fs::read_to_string'],
        must_cover=['main', 'scope-paths', 'diffpath', 'removed', 'first line deleted (-U0)', 'diff-orders', 'root', 'walk', 'globs'],
        explanation='per path: for every file, PC∧in_scope∧not read, PC∧¬in_scope∧read, read twice; diff key vs target minus one b/')


if __name__ == '__main__':
    sys.exit(main(sys.argv[1] if len(sys.argv) > 1 else 'quick'))
