"""C18 — check-lua: one call per block, faithful arguments, errors fail the run.

Encoded (real MIR, including the coroutine state machines): validators::run, run_async_validators
(+ async block, per-validator task), <CheckLuaValidator as ValidatorAsync>::validate (+ async block,
+ the per-block task), check_lua::run_lua_script (async fn body + its context closures),
check_lua::block_content (+closure), check_lua::create_violation, Block::content / severity /
name_display.

Contract stub for mlua (the Lua VM is C code behind FFI): `lua_from_env` hands out a fresh
interpreter (which libraries it has is C17); `load(s).exec_async()` fails iff the script is marked
as failing to load; `globals().get("validate")` fails iff the script defines no function of that
name; tables are handles that keep what is `set`; `call_async((ctx, content))` records its arguments
and returns what the script is marked to return: nil, a string (symbolic bytes), a value of another
type, or a runtime error.  std::fs::read_to_string fails iff the script file is marked missing.
tokio as in mirsym/asyncmodels.py (each task runs to completion when joined; every completion
order is explored).

Symbolic: content bytes and surrounding blanks, script result strings, attribute values, the
completion order of the tasks.  Enumerated: files / blocks, which blocks carry check-lua and
check-lua-pattern (none / `value` group / whole match / no match), outcome kind per script.
"""
import itertools
import json
import random
import re
import sys

import z3

from .common import *  # noqa
from .vharness import *  # noqa
from . import extsrc
from mirsym.interp import explore, PathStats
from mirsym.models import new_string, as_sstr
from mirsym.asyncmodels import ReadyFut

PROP = 'C18'
TEXT_ALPHA = tuple(b'y "\'\\')
MSG_ALPHA = tuple(b'm "\n')
VAL_ALPHA = tuple(b'v w')
WSB = (32, 9, 10)
FAIL_KINDS = ('read_error', 'load_error', 'no_validate', 'runtime_error', 'nonstring')

_VAL = None


def value_variants():
    global _VAL
    if _VAL is None:
        vs = [n for n, cfgs in extsrc.enum_variants('mlua-0*', 'Value') if not any('luau' in c for c in cfgs)]
        _VAL = vs
    return _VAL


def lua_value(name, *f):
    vs = value_variants()
    return Enum('Value', vs.index(name), name, f)


def install_lua(I, prog, scripts, calls):
    """scripts: tag byte -> spec (kind, text); calls: list receiving one dict per validate() call."""
    st = I.stubs
    # LuaState = (script loaded last, script whose `validate` is the current global): globals persist in one VM
    st['lua_from_env'] = lambda I2, a, ci, dt: Struct('Lua', (Ref(Cell(Struct('LuaState', (None, None, 0))), ()),))

    def spec_of(I2, path):
        b = as_sstr(I2, path).b
        t = b[0] if b and isinstance(b[0], int) else None
        return t, scripts.get(t, ('read_error',))

    def read_to_string(I2, a, ci, dt):
        t, sp = spec_of(I2, a[0])
        if sp[0] == 'read_error':
            return Err(Opaque('io::Error', 'no such file'))
        return Ok(SString(tuple(b'--script ') + (t,), I2.new_alloc()))
    st['fs::read_to_string'] = read_to_string
    st['read_to_string'] = read_to_string

    def script_tag(I2, text):
        b = as_sstr(I2, text).b
        return b[-1]

    def load(I2, a, ci, dt):
        lua = a[0]
        while isinstance(lua, Ref):
            lua = I2.load(lua)
        t = script_tag(I2, a[1])
        cur = I2.load(lua.f[0])
        I2.store(lua.f[0], Struct('LuaState', (t, cur.f[1], cur.f[2])))
        return Struct('LuaChunk', (lua, t))
    st['Lua::load'] = load

    def exec_async(I2, a, ci, dt):
        t = a[0].f[1]
        if scripts[t][0] == 'load_error':
            return ReadyFut(Err(Opaque('LuaError', 'syntax or runtime error while loading')))
        if scripts[t][0] != 'no_validate':
            # running the chunk defines the global function `validate` (it stays defined in this VM)
            lua = a[0].f[0]
            cur = I2.load(lua.f[0])
            I2.store(lua.f[0], Struct('LuaState', (cur.f[0], t, cur.f[2])))
        return ReadyFut(Ok(UNIT))
    st['LuaChunk::exec_async'] = exec_async
    st['Chunk::exec_async'] = exec_async

    def globals_(I2, a, ci, dt):
        lua = a[0]
        while isinstance(lua, Ref):
            lua = I2.load(lua)
        return Struct('LuaTable', (Ref(Cell(VecVal(())), ()), ('globals', lua.f[0])))
    st['Lua::globals'] = globals_

    def table_get(I2, a, ci, dt):
        tb = a[0]
        while isinstance(tb, Ref):
            tb = I2.load(tb)
        key = bytes(as_sstr(I2, a[1]).b)
        if tb.f[1] and tb.f[1][0] == 'globals' and key == b'validate':
            t = I2.load(tb.f[1][1]).f[1]
            if t is None:
                return Err(Opaque('LuaError', 'error converting Lua nil to function'))
            return Ok(Struct('LuaFunction', (t, tb.f[1][1])))
        raise Unmodelled('LuaTable::get(%r)' % key)
    st['LuaTable::get'] = table_get
    st['Table::get'] = table_get

    def create_table(I2, a, ci, dt):
        return Ok(Struct('LuaTable', (Ref(Cell(VecVal(())), ()), None)))
    st['Lua::create_table'] = create_table

    def table_set(I2, a, ci, dt):
        tb = a[0]
        while isinstance(tb, Ref):
            tb = I2.load(tb)
        k, v = a[1], a[2]
        while isinstance(v, Ref):
            v = I2.load(v)
        cur = I2.load(tb.f[0])
        I2.store(tb.f[0], VecVal(cur.items + (Tuple(as_sstr(I2, k), v),)))
        return Ok(UNIT)
    st['LuaTable::set'] = table_set
    st['Table::set'] = table_set

    def snapshot(I2, tb):
        out = []
        for e in I2.load(tb.f[0]).items:
            k, v = e.f[0], e.f[1]
            if isinstance(v, Struct) and v.name == 'LuaTable':
                v = snapshot(I2, v)
            elif isinstance(v, (SStr, SString)):
                v = tuple(v.b)
            out.append((bytes(k.b) if all(isinstance(x, int) for x in k.b) else tuple(k.b), v))
        return out

    def call_async(I2, a, ci, dt):
        fn = a[0]
        while isinstance(fn, Ref):
            fn = I2.load(fn)
        t = fn.f[0]
        args = a[1]
        ctx, content = args.f[0], args.f[1]
        calls.append(dict(tag=t, ctx=snapshot(I2, ctx), content=tuple(as_sstr(I2, content).b)))
        sp = scripts[t]
        ncalls = 1
        if len(fn.f) > 1 and fn.f[1] is not None:
            vm = I2.load(fn.f[1])
            ncalls = vm.f[2] + 1
            I2.store(fn.f[1], Struct('LuaState', (vm.f[0], vm.f[1], ncalls)))
        if sp[0] == 'stateful':
            # a script that keeps a counter outside validate(): what it returns tells how often this VM was used
            sp = ('string', tuple(b'call%d' % ncalls))
        if sp[0] == 'runtime_error':
            return ReadyFut(Err(Opaque('LuaError', 'runtime error')))
        if sp[0] == 'nonstring':
            val = lua_value(sp[1], Opaque('payload'))
        elif sp[0] == 'string':
            val = lua_value('String', Struct('LuaString', (SString(tuple(sp[1]), I2.new_alloc()),)))
        else:
            val = lua_value('Nil')
        return ReadyFut(from_lua(I2, ci, val))
    st['LuaFunction::call_async'] = call_async
    st['Function::call_async'] = call_async
    st['Lua::unpack'] = lambda I2, a, ci, dt: from_lua(I2, ci, a[1])
    st['LuaString::to_str'] = lambda I2, a, ci, dt: Ok(as_sstr(I2, I2.deref_value(a[0]).f[0]))
    st['String::to_str'] = st['LuaString::to_str']
    st['LuaValue::type_name'] = lambda I2, a, ci, dt: SStr(tuple(I2.deref_value(a[0]).vname.lower().encode()), -1, 0)
    st['Value::type_name'] = st['LuaValue::type_name']


NUMBER_TEXT = {'Integer': b'42', 'Number': b'1.5'}


def from_lua(I, ci, val):
    """mlua's FromLua for the result type the call site asks for (first generic argument of
    call_async): Value = as is; String / Option<String> accept Lua strings and, by Lua's coercion,
    numbers; nil is None for Option and an error otherwise; every other type is a conversion error."""
    m = re.search(r'(?:call_async|unpack|call)::<(.*)$', ci.raw)
    ty = 'LuaValue'
    if m:
        depth = 0
        cur = ''
        for ch in m.group(1):
            if ch in '<([':
                depth += 1
            elif ch in '>)]':
                if depth == 0:
                    break
                depth -= 1
            if ch == ',' and depth == 0:
                break
            cur += ch
        ty = cur.strip()
    last = ty.split('<')[0].split('::')[-1]
    if last in ('LuaValue', 'Value'):
        return Ok(val)
    opt_ = last == 'Option'
    inner = ty[ty.index('<') + 1:ty.rindex('>')].strip().split('::')[-1] if opt_ else last
    if inner not in ('String', 'LuaString', 'BorrowedStr'):
        raise Unmodelled('FromLua for %s' % ty)
    if val.vname == 'Nil':
        return Ok(NONE) if opt_ else Err(Opaque('LuaError', 'FromLuaConversionError nil -> String'))
    if val.vname == 'String':
        s = val.f[0].f[0]
    elif val.vname in NUMBER_TEXT:
        s = SString(tuple(NUMBER_TEXT[val.vname]), I.new_alloc())
    else:
        return Err(Opaque('LuaError', 'FromLuaConversionError %s -> String' % val.vname))
    return Ok(Some(s)) if opt_ else Ok(s)


def seq_ne(a, b):
    if len(a) != len(b):
        return z3.BoolVal(True)
    ds = []
    for x, y in zip(a, b):
        if isinstance(x, int) and isinstance(y, int):
            if x != y:
                return z3.BoolVal(True)
            continue
        ds.append(x != y)
    return zor(ds)


PATTERNS = {'group': b'k=(?P<value>[y"]+)', 'plain': b'[y"]+', 'edge': b'[ \ty]+', 'optgroup': b'z(?P<value>[y"]+)?'}


def build_content(I, name, bs):
    """-> (content bytes as in the file, expected bytes handed to validate())"""
    pat = bs.get('pattern')
    lead = [I.fresh_byte('%s_l%d' % (name, i), WSB) for i in range(bs['lead'])]
    trail = [I.fresh_byte('%s_t%d' % (name, i), WSB) for i in range(bs['trail'])]
    if pat is None:
        core = [I.fresh_byte('%s_c%d' % (name, i), TEXT_ALPHA if 0 < i < bs['core'] - 1 else tuple(b'y"\'\\')) for i in range(bs['core'])]
        return lead + core + trail, tuple(core)
    if pat == 'edge':
        # the whole match reaches both ends of the block content: blanks are part of what is selected
        lead = [I.fresh_byte('%s_l%d' % (name, i), (32, 9)) for i in range(bs['lead'])]
        trail = [I.fresh_byte('%s_t%d' % (name, i), (32, 9)) for i in range(bs['trail'])]
        core = [121] * max(bs['core'], 1)
        return lead + core + trail, tuple(lead + core + trail)
    core = [I.fresh_byte('%s_c%d' % (name, i), tuple(b'y"')) for i in range(bs['core'])]
    if pat == 'optgroup':
        # the pattern has a `value` group that takes part only when letters follow the z; otherwise the whole
        # match (`z`) is what is selected
        pre = [I.fresh_byte('%s_p%d' % (name, i), tuple(b'x y')) for i in range(bs.get('pre', 1))]
        body = pre + [122] + core + [59]
        return lead + body + trail, (tuple(core) if core else (122,))
    if pat == 'group':
        # text · k= · VALUE · ; — the text before may hold value letters (the match decides, not a search)
        pre = [I.fresh_byte('%s_p%d' % (name, i), tuple(b'x y')) for i in range(bs.get('pre', 1))]
        body = pre + ([107, 61] + core if core else [107, 59]) + [59]
        return lead + body + trail, tuple(core)
    pre = [I.fresh_byte('%s_p%d' % (name, i), tuple(b'x ;')) for i in range(bs.get('pre', 1))]
    body = pre + core + [59]
    return lead + body + trail, tuple(core)


def run_task(task):
    prog = driver.load_program()
    stats = PathStats()
    f_run = prog.find_fn('run')
    out = dict(violations=[], samples=[], obligations=0, cover={}, panic_paths=0)
    holder = {}
    roles = set()

    def run_path(I):
        calls = []
        scripts = {}
        blocks = []
        files = []
        tag = 65
        line = 1
        for fi, fblocks in enumerate(task['files']):
            src = []
            bwcs = []
            for bi, bs in enumerate(fblocks):
                name = 'f%db%d' % (fi, bi)
                content, expected = build_content(I, name, bs)
                start = len(src) + 3
                src += [35, 83, 10] + content + [10, 35, 69, 10]
                attrs_d = {'name': name.encode()}
                info = dict(name=name, file=('d/f%d.py' % fi).encode(), lua=bs['lua'], line=line, expected_content=expected,
                            raw=tuple(content))
                if bs['lua']:
                    mytag = bs.get('script_tag') or tag
                    attrs_d['check-lua'] = bytes([mytag]) + b'.lua'
                    if bs.get('extra_attr'):
                        val = tuple(I.fresh_byte('%s_a%d' % (name, i), VAL_ALPHA) for i in range(2))
                        attrs_d['owner'] = SString(val, I.new_alloc())
                    if bs.get('pattern'):
                        attrs_d['check-lua-pattern'] = PATTERNS[bs['pattern']]
                    kind = bs['outcome']
                    if kind == 'string':
                        txt = tuple(I.fresh_byte('%s_r%d' % (name, i), MSG_ALPHA) for i in range(bs.get('msg_len', 2)))
                        scripts[mytag] = ('string', txt)
                    elif kind == 'nonstring':
                        scripts[mytag] = ('nonstring', bs.get('vtype', 'Integer'))
                    else:
                        scripts[mytag] = (kind,)
                    info.update(tag=mytag, outcome=scripts[mytag], attrs=dict(attrs_d), script=chr(mytag) + '.lua')
                    if not bs.get('script_tag'):
                        tag += 1
                # tags of blocks with an extra attribute end on the next line (start line != end line)
                info['tag_range'] = ((line, 3), (line + (1 if bs.get('extra_attr') else 0), 20))
                blk = mk_block(prog, I, attrs_d, (line, 3), (line + (1 if bs.get('extra_attr') else 0), 20), (start, start + len(content)), (line + 1, 30), (line + 3, 1))
                bwcs.append(mk_bwc(prog, blk))
                blocks.append(info)
                line += 4
            files.append((('d/f%d.py' % fi).encode(), tuple(src), bwcs))
        ctx = mk_context(prog, I, files)
        install_lua(I, prog, scripts, calls)
        if task.get('order') == 'first':          # many tasks: a fixed completion order instead of all n! of them
            I.task_order = lambda n, step: 0
        elif task.get('order') == 'last':
            I.task_order = lambda n, step: n - 1
        else:
            I.task_order = lambda n, step: I.concretize(I.fresh_int('ord%d_%d' % (step, n), 0, n - 1), 'task order') if n > 1 else 0
        holder.update(blocks=blocks, calls=calls, files=files, I=I)
        vbox = Ref(Cell(Struct('CheckLuaValidator', ())), ())
        return I.call_fn(f_run, [ctx, VecVal(()), VecVal([vbox])])

    def witness(m):
        w = dict(files={}, blocks=[])
        if task.get('order'):
            w['slow_ok'] = 0.4      # many scripts in flight: healthy ones take their time, a failing one is done at once
        if getattr(holder.get('I'), '_cores', None) is not None:
            w['cores'] = mval(m, holder['I']._cores)
        for path, src, _b in holder['files']:
            w['files'][path.decode()] = model_bytes(m, src).decode('latin1')
        for b in holder['blocks']:
            e = dict(name=b['name'], file=b['file'].decode(), lua=b['lua'], line=b['line'], raw=model_bytes(m, b['raw']).decode('latin1'))
            if b['lua']:
                oc = b['outcome']
                if oc[0] == 'stateful':
                    oc = ('stateful',)
                e.update(script=(b.get('script') or chr(b['tag']) + '.lua'), outcome=[oc[0]] + ([model_bytes(m, oc[1]).decode('latin1')] if oc[0] == 'string' else list(oc[1:])),
                         expected_content=model_bytes(m, b['expected_content']).decode('latin1'),
                         attrs={k: (model_bytes(m, v.b).decode('latin1') if isinstance(v, SString) else bytes(v).decode('latin1')) for k, v in b['attrs'].items()})
            w['blocks'].append(e)
        return w

    def viol(I, cond, role, summary):
        out['obligations'] += 1
        if role in roles:
            return
        if isinstance(cond, bool):
            cond = z3.BoolVal(cond)
        if I.check(cond):
            roles.add(role)
            m = I.solver.model()
            out['violations'].append(dict(role=role, summary=summary, task=task, witness=witness(m)))

    for I, pk, val in explore(prog, models.M, run_path, stats=stats, max_paths=20000):
        if pk == 'panic':
            out['panic_paths'] += 1
            viol(I, True, 'panic', 'panic: %s' % val.msg[:160])
            continue
        blocks = [b for b in holder['blocks'] if b['lua']]
        calls = holder['calls']
        failing = [b for b in blocks if b['outcome'][0] in FAIL_KINDS]
        st, res = decode_violations(prog, val)
        if failing:
            if st != 'err':
                viol(I, True, 'script-failure-masked', 'script of %s fails (%s) but the run succeeded' % (
                    failing[0]['name'], failing[0]['outcome'][0]))
            out['cover']['failing script'] = out['cover'].get('failing script', 0) + 1
            continue
        if st == 'err':
            viol(I, True, 'healthy-run-fails', 'every script returns nil or a string, but the run failed')
            continue
        for b in blocks:
            mine = [c for c in calls if c['tag'] == b['tag']]
            if sum(1 for x in blocks if x['tag'] == b['tag']) > 1:
                # blocks sharing one script: tell their calls apart by ctx.line
                mine = [c for c in mine if dict((k, v) for k, v in c['ctx'] if isinstance(k, bytes)).get(b'line') == b['line']]
            if len(mine) != 1:
                viol(I, True, 'not-exactly-one-call', 'block %s: validate() called %d times' % (b['name'], len(mine)))
                continue
            c = mine[0]
            viol(I, seq_ne(c['content'], b['expected_content']), 'content-argument-wrong',
                 'block %s: content handed to validate() differs from the %s' % (b['name'], 'pattern selection' if b['attrs'].get('check-lua-pattern') else 'trimmed block content'))
            ctxd = dict((k, v) for k, v in c['ctx'] if isinstance(k, bytes))
            if set(ctxd.keys()) != {b'file', b'line', b'attrs'}:
                viol(I, True, 'ctx-shape-wrong', 'ctx keys %s' % sorted(ctxd.keys()))
                continue
            viol(I, seq_ne(ctxd[b'file'], tuple(b['file'])), 'ctx-file-wrong', 'ctx.file differs from the file path')
            ln = ctxd[b'line']
            viol(I, (ln != b['line']) if not isinstance(ln, int) else (ln != b['line']), 'ctx-line-wrong', 'ctx.line %r, tag line %d' % (ln, b['line']))
            got_attrs = dict((k, v) for k, v in ctxd[b'attrs'] if isinstance(k, bytes))
            want_attrs = b['attrs']
            if set(got_attrs.keys()) != set(k.encode() for k in want_attrs.keys()):
                viol(I, True, 'ctx-attrs-wrong', 'ctx.attrs keys %s, tag has %s' % (sorted(got_attrs.keys()), sorted(want_attrs.keys())))
            else:
                for k, v in want_attrs.items():
                    wb = tuple(v.b) if isinstance(v, SString) else tuple(v)
                    viol(I, seq_ne(got_attrs[k.encode()], wb), 'ctx-attrs-wrong', 'ctx.attrs.%s differs from the attribute' % k)
        stray = [c for c in calls if c['tag'] not in [b['tag'] for b in blocks]]
        if stray:
            viol(I, True, 'stray-call', '%d calls for no check-lua block' % len(stray))
        for b in blocks:
            got = [v for v in res.get(b['file'], []) if v['start'][0] == b['line']]
            if b['outcome'][0] == 'stateful':
                b = dict(b, outcome=('string', tuple(b'call1')))      # every block has an interpreter of its own
            if b['outcome'][0] == 'nil':
                if got:
                    viol(I, True, 'nil-reported', 'block %s: validate() returned nil but %d diagnostics' % (b['name'], len(got)))
            else:
                if len(got) != 1:
                    viol(I, True, 'string-not-reported-once', 'block %s: validate() returned a string, %d diagnostics' % (b['name'], len(got)))
                    continue
                if got[0]['code'] != tuple(b'check-lua'):
                    viol(I, True, 'wrong-code', 'code %r' % (got[0]['code'],))
                if (tuple(got[0]['start']), tuple(got[0]['end'])) != b['tag_range']:
                    viol(I, True, 'range-not-the-start-tag', 'block %s: diagnostic range %s..%s, the start tag spans %s..%s' % (
                        b['name'], got[0]['start'], got[0]['end'], b['tag_range'][0], b['tag_range'][1]))
                msg = lua_error(prog, I, got[0]['data'])
                if msg is None:
                    viol(I, True, 'diagnostic-lacks-message', 'no lua_error in the diagnostic data')
                else:
                    viol(I, seq_ne(msg, b['outcome'][1]), 'diagnostic-misquotes-message', 'block %s: lua_error differs from the returned string' % b['name'])
        extra = sum(len(v) for v in res.values()) - sum(1 for b in blocks for v in res.get(b['file'], []) if v['start'][0] == b['line'])
        if extra:
            viol(I, True, 'stray-diagnostic', '%d diagnostics on blocks without check-lua' % extra)
        out['cover']['decided'] = out['cover'].get('decided', 0) + 1
        if len(blocks) >= 2:
            out['cover']['two or more Lua blocks'] = 1
        for b in blocks:
            if b['attrs'].get('check-lua-pattern'):
                out['cover']['pattern'] = 1
        if task.get('sample') and len(out['samples']) < 1:
            m = I.ensure_model()
            w = witness(m)
            w['diagnostics'] = {k.decode(): len(v) for k, v in res.items()}
            out['samples'].append(w)
    out.update(Agg(PROP, 'x').stats_from(stats))
    return out


def lua_error(prog, I, d):
    if not (isinstance(d, Enum) and d.name == 'Option' and d.v == 1):
        return None
    j = d.f[0]
    while isinstance(j, Enum) and j.name == 'Result':
        j = j.f[0]
    if isinstance(j, Opaque) and j.tag == 'json':
        s = j.data
        v = s.f[field_index(prog, 'CheckLuaViolation', 'lua_error')]
        return as_sstr(I, v).b
    return None


# ------------------------------------------------------------------ real binary: real Lua scripts that echo their arguments

SCRIPT = {
    'stateful': 'local n = 0\nfunction validate(ctx, content)\n  echo(ctx, content)\n  n = n + 1\n  return "call" .. n\nend\n',
    'nil': 'function validate(ctx, content)\n  echo(ctx, content)\n  return nil\nend\n',
    'string': 'function validate(ctx, content)\n  echo(ctx, content)\n  return MSG\nend\n',
    'load_error': 'function validate(ctx, content)\n  return nil\nend\nerror("boom at load")\n',
    'no_validate': 'function check(ctx, content)\n  return nil\nend\n',
    'runtime_error': 'function validate(ctx, content)\n  echo(ctx, content)\n  error("boom")\nend\n',
}
ECHO = '''local function q(s) return (string.format("%q", s)) end
local function echo(ctx, content)
  local keys = {}
  for k, _ in pairs(ctx.attrs) do keys[#keys + 1] = k end
  table.sort(keys)
  local parts = {}
  for _, k in ipairs(keys) do parts[#parts + 1] = q(k) .. "=" .. q(ctx.attrs[k]) end
  local f = io.open(LOG, "a")
  f:write("CALL|" .. q(ctx.file) .. "|" .. tostring(ctx.line) .. "|" .. table.concat(parts, ",") .. "|" .. q(content) .. "|END\\n")
  f:close()
end
'''


def lua_q(s):
    """Lua's %q of a latin1 string, as the echo prints it."""
    out = '"'
    for ch in s:
        if ch == '"':
            out += '\\"'
        elif ch == '\\':
            out += '\\\\'
        elif ch == '\n':
            out += '\\\n'
        elif ch == '\r':
            out += '\\r'
        elif ch == '\0':
            out += '\\0'
        elif ord(ch) < 32 or ord(ch) == 127:
            out += '\\%d' % ord(ch)
        else:
            out += ch
    return out + '"'


def real_files(w, d):
    """Markdown hosts (inert text); scripts under d; returns (files dict, expected call lines, expect dict)."""
    files = {}
    logp = os.path.join(d, 'calls.log')
    per_file = {}
    for b in w['blocks']:
        per_file.setdefault(b['file'], []).append(b)
    exp_calls = []
    msgs = []
    fail = False
    diags = {}
    line_of = {}
    for fname, bl in per_file.items():
        rn = fname.replace('.py', '.md')
        lines = []
        for b in bl:
            cur_line = len(lines) + 1
            if b['lua']:
                at = ''
                for k, v in sorted(b['attrs'].items(), key=lambda kv: kv[0] == 'owner'):
                    if k == 'name':
                        continue
                    sep = '\n' if k == 'owner' else ' '        # the tag continues on the next line
                    if '"' in v:
                        at += "%s%s='%s'" % (sep, k, v)
                    else:
                        at += '%s%s="%s"' % (sep, k, v)
                lines += ('<!-- <block name="%s"%s> -->' % (b['name'], at)).split('\n')
            else:
                lines.append('<!-- <block name="%s"> -->' % b['name'])
            lines += b['raw'].split('\n')
            lines.append('<!-- </block> -->')
            if b['lua']:
                oc = b['outcome']
                body = SCRIPT.get(oc[0])
                if oc[0] == 'nonstring':
                    ret = {'Integer': '42', 'Boolean': 'true', 'Table': '{}', 'Number': '1.5'}[oc[1]]
                    body = 'function validate(ctx, content)\n  echo(ctx, content)\n  return %s\nend\n' % ret
                if oc[0] == 'string':
                    body = body.replace('MSG', lua_q(oc[1]))
                if w.get('slow_ok') and oc[0] in ('nil', 'string'):
                    body = body.replace('  echo(ctx, content)\n', '  echo(ctx, content)\n  local t0 = os.clock()\n  while os.clock() - t0 < %s do end\n' % w['slow_ok'])
                if oc[0] != 'read_error':
                    files[b['script']] = ('LOG = %s\n' % lua_q(logp) + ECHO + body).encode('latin1')
                if oc[0] in FAIL_KINDS:
                    fail = True
                attrs = dict(b['attrs'])
                parts = ','.join('%s=%s' % (lua_q(k), lua_q(attrs[k])) for k in sorted(attrs))
                exp_calls.append('CALL|%s|%d|%s|%s|END' % (lua_q(rn), cur_line, parts, lua_q(b['expected_content'])))
                if oc[0] in ('string', 'stateful'):
                    diags[rn] = diags.get(rn, 0) + 1
                    msgs.append(oc[1] if oc[0] == 'string' else 'call1')
        files[rn] = ('\n'.join(lines) + '\n').encode('latin1')
    return files, exp_calls, dict(fail=fail, diags=diags, messages=sorted(msgs))


def check_real(binary, w):
    d = scratch_dir('c18')
    try:
        git_init(d)
        files, exp_calls, exp = real_files(w, d)
        for name, content in files.items():
            p = os.path.join(d, name)
            os.makedirs(os.path.dirname(p), exist_ok=True)
            open(p, 'wb').write(content)
        if w.get('cores'):
            # the number of cores the process sees is part of the witness (std::thread::available_parallelism)
            r = run_blockwatch('taskset', d, ['-c', '0-%d' % (w['cores'] - 1), binary, '**/*.md'], stdin=b'',
                               env_extra={'BLOCKWATCH_LUA_MODE': 'safe'}, timeout=60)
        else:
            r = run_blockwatch(binary, d, ['**/*.md'], stdin=b'', env_extra={'BLOCKWATCH_LUA_MODE': 'safe'}, timeout=60)
        try:
            log = open(os.path.join(d, 'calls.log'), 'rb').read().decode('latin1')
        except OSError:
            log = ''
    finally:
        shutil.rmtree(d, ignore_errors=True)
    got_calls = sorted(x + 'END' for x in log.split('END\n') if x.startswith('CALL|'))
    diags = None
    if r['stderr'].strip().startswith('{'):
        try:
            diags = json.loads(r['stderr'])
        except ValueError:
            pass
    if exp['fail']:
        ok = r['code'] != 0 and diags is None
    else:
        got = {k: len(v) for k, v in (diags or {}).items()}
        got_msgs = sorted((d.get('data') or {}).get('lua_error', '') for v in (diags or {}).values() for d in v)
        ok = got == exp['diags'] and r['code'] == (1 if exp['diags'] else 0) and got_calls == sorted(exp_calls) \
            and got_msgs == [m.encode('latin1').decode('utf-8', 'replace') for m in exp['messages']] \
            and diag_ranges_on_tags(files, diags)
    return dict(ok=ok, observed=dict(code=r['code'], diags=diags, stderr=r['stderr'][-300:], calls=got_calls), expected=dict(exp, calls=sorted(exp_calls)), files=files)


def B(lua=True, pattern=None, lead=0, core=2, trail=0, outcome='nil', extra_attr=False, msg_len=2, pre=1, vtype='Integer'):
    return dict(lua=lua, pattern=pattern, lead=lead, core=core, trail=trail, outcome=outcome, extra_attr=extra_attr, msg_len=msg_len, pre=pre, vtype=vtype)


def tasks_for(tier):
    T = []
    kinds = ['nil', 'string'] + list(FAIL_KINDS)
    for k in kinds:
        T.append(dict(files=[[B(outcome=k, lead=1, trail=1, extra_attr=True)]]))
    for vt in ('Boolean', 'Table', 'Number'):
        T.append(dict(files=[[B(outcome='nonstring', vtype=vt)]]))
    # content selection
    for pat in ('group', 'plain'):
        for core in (0, 1, 2):
            T.append(dict(files=[[B(pattern=pat, core=core, lead=1, trail=1, outcome='string')]]))
        T.append(dict(files=[[B(pattern=pat, core=2, pre=2, outcome='nil')]]))
    for core in (0, 1, 2):
        T.append(dict(files=[[B(pattern='optgroup', core=core, lead=1, trail=1, outcome='string')]]))
    for lead, trail in ((1, 0), (0, 1), (2, 1)):
        T.append(dict(files=[[B(pattern='edge', core=1, lead=lead, trail=trail, outcome='string')]]))
    T.append(dict(files=[[B(core=3, lead=2, trail=2, outcome='string', msg_len=3)]]))
    T.append(dict(files=[[B(core=0, lead=2, trail=0, outcome='string')]]))       # blank content: still one call
    T.append(dict(files=[[B(core=1, outcome='string', msg_len=0)]]))
    # several blocks: every pair of outcomes among ok / failing, one or two files, plain block between
    for a, b in itertools.product(['nil', 'string', 'runtime_error', 'nonstring'], repeat=2):
        T.append(dict(files=[[B(outcome=a), B(lua=False), B(outcome=b, extra_attr=True)]]))
        T.append(dict(files=[[B(outcome=a, lead=1)], [B(outcome=b, pattern='plain')]]))
    for pos in range(3):
        for fk in FAIL_KINDS:
            ks = ['string', 'nil', 'string']
            ks[pos] = fk
            T.append(dict(files=[[B(outcome=ks[0]), B(outcome=ks[1])], [B(outcome=ks[2])]]))
    T.append(dict(files=[[B(outcome='string'), B(outcome='string')], [B(outcome='nil')]]))
    # several blocks (same file / different files) checked by one script that keeps state between calls
    S = lambda **kw: dict(B(outcome='stateful', **kw), script_tag=83)
    T.append(dict(files=[[S(), S(lead=1)]]))
    T.append(dict(files=[[S()], [S(), B(outcome='nil')]]))
    # many blocks (more than any plausible in-flight limit), one failing script, two fixed completion orders
    for n, bad, fk in ((34, 0, 'runtime_error'), (34, 33, 'no_validate'), (12, 5, 'nonstring')):
        for order in ('first', 'last'):
            blocks = [B(outcome='nil', core=1) for _ in range(n)]
            blocks[bad] = B(outcome=fk, core=1)
            T.append(dict(files=[blocks], order=order))
    T.append(dict(files=[[B(outcome='string', core=1) for _ in range(12)]], order='first'))
    if tier == 'thorough':
        for ks in itertools.product(['nil', 'string', 'load_error'], repeat=3):
            T.append(dict(files=[[B(outcome=ks[0], core=3, extra_attr=True), B(outcome=ks[1], trail=2, pattern='group')], [B(lua=False), B(outcome=ks[2], lead=2)]]))
        T.append(dict(files=[[B(outcome='string') for _ in range(4)]]))
        T.append(dict(files=[[B(outcome='nil') for _ in range(3)] + [B(outcome='no_validate')]]))
    for t in T:
        t['sample'] = True
    return T


BOUNDS = {'quick': dict(validate=14), 'thorough': dict(validate=40)}


def main(tier):
    agg = Agg(PROP, tier)
    binary = driver.real_binary()
    rnd = random.Random(seed())
    tasks = tasks_for(tier)
    results = pmap(run_task, tasks)
    for r in results:
        agg.add(r)
    by_role = {}
    for v in agg.violations:
        by_role.setdefault(v['role'], []).append(v)
    final = []
    for role, vs in sorted(by_role.items()):
        got = None
        for i, v in enumerate(vs[:6]):
            r = check_real(binary, v['witness'])
            v['confirmed'] = not r['ok']
            v['observed'] = r['observed']
            v['expected'] = r['expected']
            if v['confirmed']:
                v['replay'] = save_replay(PROP, '%s-%d' % (role, i), r['files'], "'**/*.md'",
                                          'BLOCKWATCH_LUA_MODE=safe (the scripts log their arguments to the path in their first line); expected %s; %s'
                                          % (json.dumps(r['expected'])[:300], v['summary']), v)
                rs = os.path.join(v['replay'], 'replay.sh')
                pre = ('taskset -c 0-%d ' % (v['witness']['cores'] - 1)) if v['witness'].get('cores') else ''
                open(rs, 'w').write('#!/bin/sh\n# %s\ncd "$(dirname "$0")" && BLOCKWATCH_LUA_MODE=safe %s"${BLOCKWATCH:-blockwatch}" \'**/*.md\' < /dev/null\n' % (v['summary'], pre))
                got = v
                break
        final.append(got or vs[0])
    agg.violations = final
    samples = [s for r in results for s in r.get('samples', [])]
    rnd.shuffle(samples)
    for s in samples[:BOUNDS[tier]['validate']]:
        r = check_real(binary, s)
        if r['ok']:
            agg.validated += 1
        else:
            msg = 'real %s vs expected %s' % (json.dumps(r['observed'])[:500], json.dumps(r['expected'])[:400])
            agg.validation_failures.append(msg)
            agg.engine_errors.append({'engine_error': 'translator validation: ' + msg})
    bounds = dict(tasks=len(tasks), blocks='1..3 check-lua blocks (4 thorough) over 1..2 files, optional plain block between, every completion order; plus 12-34 blocks with one failing script under two fixed completion orders',
                  symbolic='content 0-3 bytes over [y space " \' \\] with 0-2 blanks (space, tab, LF) around; returned string 0-3 bytes over [m space " LF]; extra attribute value 2 bytes',
                  outcomes=['nil', 'string'] + list(FAIL_KINDS), completion_orders='all (forked choice at every join)')
    return finish(
        agg, bounds,
        assumptions=['mlua / the Lua VM is a contract stub (see module docstring); what a real script computes is outside — the per-run validation runs real scripts that log their arguments (BLOCKWATCH_LUA_MODE=safe) through the real binary',
                     'tokio: a spawned task runs to completion when the JoinSet is polled; the completion order is a forked choice (all orders); interleaving inside tasks, 1..16 worker threads, CPU affinity and busy-loop timing are outside',
                     'two regex forms for check-lua-pattern (reference matcher mirsym/rexmodel.py)',
                     'all completion orders only up to 4 scripted blocks; 12-34 blocks under two fixed orders'],
        stubs=['mlua::{Lua, Chunk, Table, Function, Value, String}', 'tokio::{JoinSet, Runtime}', 'std::fs::read_to_string', 'lua_from_env (decided in C17)'],
        must_cover=['decided', 'failing script', 'two or more Lua blocks', 'pattern'],
        explanation='calls recorded by the call_async stub (ctx.file, ctx.line, ctx.attrs, content) and the diagnostics of validators::run compared with the reference per block on every path and completion order')


if __name__ == '__main__':
    sys.exit(main(sys.argv[1] if len(sys.argv) > 1 else 'quick'))
