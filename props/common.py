"""Shared harness plumbing: parallel exploration, evidence, known findings, replay dirs."""
import json
import multiprocessing as mp
import os
import random
import shutil
import subprocess
import sys
import time
import traceback

import z3

sys.path.insert(0, os.path.dirname(os.path.dirname(os.path.abspath(__file__))))
from mirsym import driver, interp, models, extmodels, strmodels, models2, rexmodel, winnowmodel, asyncmodels  # noqa: E402
from mirsym.values import *  # noqa: E402,F401

VERIF = driver.VERIF
KNOWN_FILE = os.path.join(VERIF, 'known_findings.txt')


def seed():
    try:
        return int(os.environ.get('VERIF_SEED', '0'))
    except ValueError:
        return 0


def nproc():
    try:
        return max(1, min(16, int(os.environ.get('VERIF_JOBS', str(os.cpu_count() or 4)))))
    except ValueError:
        return 8


# ------------------------------------------------------------------ struct building

def mk_struct(prog, name, **fields):
    order = prog.src.structs.get(name)
    if order is None:
        raise EngineError('struct %s not found in source' % name)
    missing = [f for f in order if f not in fields]
    extra = [f for f in fields if f not in order]
    if missing or extra:
        raise EngineError('struct %s fields changed: missing %s extra %s' % (name, missing, extra))
    return Struct(name, [fields[f] for f in order])


def field_index(prog, name, field):
    order = prog.src.structs.get(name)
    if order is None or field not in order:
        raise EngineError('field %s.%s not found in source' % (name, field))
    return order.index(field)


def get_field(prog, v, name, field):
    return v.f[field_index(prog, name, field)]


def position(prog, line, character):
    return mk_struct(prog, 'Position', line=line, character=character)


# ------------------------------------------------------------------ known findings

def load_known(prop):
    """Lines:  known: property=<id> role=<role> <text>   |  fixed: property=<id> <commit> <text>"""
    out = {}
    if not os.path.exists(KNOWN_FILE):
        return out
    for ln in open(KNOWN_FILE):
        ln = ln.strip()
        if not ln or ln.startswith('#'):
            continue
        if ln.startswith('known:'):
            parts = ln[len('known:'):].split()
            kv = dict(p.split('=', 1) for p in parts[:2] if '=' in p)
            if kv.get('property') == prop and 'role' in kv:
                out[kv['role']] = ' '.join(parts[2:])
    return out


# ------------------------------------------------------------------ model helpers

def mval(model, x):
    if isinstance(x, bool):
        return x
    if isinstance(x, int):
        return x
    v = model.eval(x, model_completion=True)
    if z3.is_int_value(v):
        return v.as_long()
    if z3.is_true(v):
        return True
    if z3.is_false(v):
        return False
    raise EngineError('cannot read model value %r' % (v,))


def small_model(I, extra, small_vars, bounds=(8, 20, 40, 80, 400, 2500)):
    """A satisfying model of PC ∧ extra that prefers small values for `small_vars`."""
    for b in bounds:
        cs = [z3.And(v >= -b, v <= b) for v in small_vars if is_sym(v)]
        if I.check(extra, *cs):
            return I.solver.model()
    if I.check(extra):
        return I.solver.model()
    return None


# ------------------------------------------------------------------ parallel map

def _worker(args):
    fn, task, idx = args
    t0 = time.time()
    try:
        r = fn(task)
        r['task_wall'] = time.time() - t0
        return r
    except EngineError as e:
        return {'engine_error': '%s: %s' % (type(e).__name__, e), 'task': repr(task)[:300],
                'tb': traceback.format_exc()[-1500:]}
    except Exception as e:  # noqa
        return {'engine_error': 'internal %s: %s' % (type(e).__name__, e), 'task': repr(task)[:300],
                'tb': traceback.format_exc()[-2500:]}


def pmap(fn, tasks, jobs=None, chunksize=1, deadline=None):
    jobs = jobs or nproc()
    tasks = list(tasks)
    if jobs == 1 or len(tasks) <= 1:
        out = []
        for i, t in enumerate(tasks):
            out.append(_worker((fn, t, i)))
        return out
    ctx = mp.get_context('fork')
    with ctx.Pool(jobs) as pool:
        return pool.map(_worker, [(fn, t, i) for i, t in enumerate(tasks)], chunksize=chunksize)


# ------------------------------------------------------------------ result aggregation

class Agg:
    def __init__(self, prop, tier):
        self.prop = prop
        self.tier = tier
        self.t0 = time.time()
        self.paths = 0
        self.blocks = 0
        self.queries = 0
        self.solver_s = 0.0
        self.tasks = 0
        self.obligations = 0
        self.violations = []      # dicts
        self.known_hits = {}      # role -> example
        self.engine_errors = []
        self.samples = []
        self.fns = {}
        self.models_used = set()
        self.cover = {}
        self.validated = 0
        self.validation_failures = []
        self.panic_paths = 0

    def add(self, r):
        self.tasks += 1
        if 'engine_error' in r:
            self.engine_errors.append(r)
            return
        self.paths += r.get('paths', 0)
        self.blocks += r.get('blocks', 0)
        self.queries += r.get('queries', 0)
        self.solver_s += r.get('solver_s', 0.0)
        self.obligations += r.get('obligations', 0)
        self.panic_paths += r.get('panic_paths', 0)
        self.violations.extend(r.get('violations', []))
        for s in r.get('samples', []):
            if len(self.samples) < 12:
                self.samples.append(s)
        self.fns.update(r.get('fns', {}))
        self.models_used.update(r.get('models', []))
        for k, v in r.get('cover', {}).items():
            self.cover[k] = self.cover.get(k, 0) + v

    def stats_from(self, stats, mods=None):
        return {'paths': stats.paths, 'blocks': stats.blocks, 'queries': stats.queries,
                'solver_s': stats.solver_s, 'fns': dict(stats.fns_used),
                'models': sorted((mods or models.M).used.keys())}


def finish(agg, bounds, assumptions, stubs, must_cover=(), explanation='', extra=None):
    """Writes evidence and returns the exit code (0 held / 1 violation / 2 inconclusive)."""
    known = load_known(agg.prop)
    status = 0
    lines = []
    new_violations = []
    for v in agg.violations:
        role = v.get('role', '?')
        if v.get('confirmed') is False:
            agg.engine_errors.append({'engine_error': 'solver counterexample not reproduced by the real binary',
                                      'task': json.dumps(v)[:600]})
            continue
        if role in known:
            agg.known_hits.setdefault(role, v)
        else:
            new_violations.append(v)
    for role, v in sorted(agg.known_hits.items()):
        lines.append('KNOWN-FINDING: property=%s role=%s %s' % (agg.prop, role, known[role]))
    missing = [c for c in must_cover if not agg.cover.get(c)]
    if new_violations:
        status = 1
        seen = set()
        for v in new_violations:
            key = (v.get('role'), v.get('replay'))
            if key in seen:
                continue
            seen.add(key)
            lines.append('VIOLATION property=%s replay=%s' % (agg.prop, v.get('replay', '-')))
            lines.append('  role=%s %s' % (v.get('role'), v.get('summary', '')))
    elif agg.engine_errors or missing:
        status = 2
        for e in agg.engine_errors[:5]:
            lines.append('INCONCLUSIVE property=%s %s | %s' % (agg.prop, e.get('engine_error'), e.get('task', '')[:200]))
            if e.get('tb'):
                lines.append(e['tb'])
        if missing:
            lines.append('INCONCLUSIVE property=%s must-cover shapes not reached: %s' % (agg.prop, missing))
    wall = time.time() - agg.t0
    ev = {
        'property_id': agg.prop,
        'tier': agg.tier,
        'seed': seed(),
        'level': 'model_checking',
        'wall_s': round(wall, 2),
        'violations': len(new_violations),
        'coverage': {
            'states': max(agg.paths, 0),
            'transitions': max(agg.blocks, 0),
            'traces_validated_against_impl': agg.validated,
            'samples': agg.samples[:12] or ['(no path completed)'],
            'exhaustive': False,
            'explanation': explanation,
            'engine': 'mirsym: path-based symbolic execution of rustc MIR text regenerated from /repo; Z3 %s decides every branch feasibility and every post-condition' % z3.get_version_string(),
            'functions_encoded': agg.fns,
            'models_used_trusted_base': sorted(agg.models_used),
            'stubs': list(stubs),
            'bounds': bounds,
            'tasks': agg.tasks,
            'completed_paths': agg.paths,
            'panic_paths': agg.panic_paths,
            'truncated_paths': len([e for e in agg.engine_errors if 'Truncated' in e.get('engine_error', '')]),
            'mir_basic_blocks_executed': agg.blocks,
            'solver_queries': agg.queries,
            'solver_seconds': round(agg.solver_s, 2),
            'postcondition_queries': agg.obligations,
            'must_cover': {c: agg.cover.get(c, 0) for c in must_cover},
            'cover_counts': agg.cover,
            'known_findings_hit': sorted(agg.known_hits.keys()),
            'engine_errors': [e.get('engine_error') for e in agg.engine_errors[:10]],
            'validation_failures': agg.validation_failures[:5],
            'status': {0: 'held within bounds', 1: 'violation', 2: 'inconclusive'}[status],
        },
        'assumptions': list(assumptions),
    }
    if extra:
        ev['coverage'].update(extra)
    driver.write_evidence(agg.prop, ev)
    for ln in lines:
        print(ln)
    print('%s %s: %s; %d tasks, %d paths, %d MIR blocks, %d solver queries (%.1fs solver), %d post-condition queries, %d validated against the real binary, wall %.1fs'
          % (agg.prop, agg.tier, ev['coverage']['status'], agg.tasks, agg.paths, agg.blocks, agg.queries,
             agg.solver_s, agg.obligations, agg.validated, wall))
    return status


# ------------------------------------------------------------------ replay support

def replay_dir(prop, name):
    import re as _re
    name = _re.sub(r'[^A-Za-z0-9_.-]+', '_', name)[:120]      # printed on the VIOLATION line: no blanks or quotes
    d = os.path.join(VERIF, 'replays', prop, name)
    shutil.rmtree(d, ignore_errors=True)
    os.makedirs(d)
    return d


def scratch_dir(tag):
    d = os.path.join(driver.SCRATCH_BASE, 'bwverif.%s.%d.%d' % (tag, os.getpid(), random.randrange(1 << 30)))
    shutil.rmtree(d, ignore_errors=True)
    os.makedirs(d)
    return d


def run_blockwatch(binary, cwd, args=(), stdin=None, env_extra=None, timeout=20):
    env = dict(os.environ)
    env.pop('BLOCKWATCH_TERMINAL_MODE', None)
    if env_extra:
        env.update(env_extra)
    try:
        p = subprocess.run([binary] + list(args), cwd=cwd, input=stdin, stdout=subprocess.PIPE,
                           stderr=subprocess.PIPE, env=env, timeout=timeout)
    except subprocess.TimeoutExpired:
        return {'code': 'timeout', 'stdout': '', 'stderr': ''}
    return {'code': p.returncode, 'stdout': p.stdout.decode('utf-8', 'replace'),
            'stderr': p.stderr.decode('utf-8', 'replace')}


def git_init(d):
    os.makedirs(os.path.join(d, '.git'), exist_ok=True)
