"""C03 — blocks are exactly the tag pairs in comments (Rust side only).

Encoded (real MIR): parse_blocks_from_comments (+sort closure), PartialBlocksIterator::next,
BlockStart::new, source_position_at, BlockEnd::into_block; the eleven comment normaliser
closures and c_style_multiline_comment_processor.
Part (a) pairing: for every balanced sequence of comment templates (0-2 tag events each, tags on
first or later comment lines) with *symbolic* comment geometry (line, column, byte offset of each
comment; ordered, non-overlapping), the blocks returned are the innermost-first matching of the
events, sorted by start position; each block's name, `<`/`>` positions, content byte range and
content position range equal the reference computed from the geometry.
Part (b) normalisers: for every comment text up to N bytes, the normalised text has the same
length, every byte is kept or blanked, and line breaks stay where they are.
Outside: which nodes tree-sitter delivers (string literals, per-language comment kinds, CRLF)
and the tag grammar (C05).
"""
import itertools
import json
import random
import sys

import z3

from .common import *  # noqa
from .vharness import *  # noqa
from .events import *  # noqa
from . import normalisers, c12
from mirsym.interp import explore, PathStats
from mirsym.models import ListIter

PROP = 'C03'


def run_pairing(task):
    tmpls, want_sample = task
    prog = driver.load_program()
    stats = PathStats()
    f = prog.find_fn('parse_blocks_from_comments')
    out = dict(violations=[], samples=[], obligations=0, cover={}, panic_paths=0)
    holder = {}
    roles = set()

    def run_path(I):
        comments, geo, specs = build_comments(I, prog, tmpls)
        holder.update(geo=geo, specs=specs)
        install_event_parser(I, prog, specs)
        return I.call_fn(f, [ListIter(comments)])

    def geo_vals(m):
        return [dict((k, mval(m, v)) for k, v in g.items()) for g in holder['geo']]

    def viol(I, cond, role, summary):
        out['obligations'] += 1
        if role in roles:
            return
        if I.check(cond):
            roles.add(role)
            m = I.solver.model()
            out['violations'].append(dict(role=role, summary=summary, seq=list(tmpls), geometry=geo_vals(m),
                                          texts=[sp.text for sp in holder['specs']]))

    def ne(a, b):
        if isinstance(a, int) and isinstance(b, int):
            return z3.BoolVal(a != b)
        return a != b

    for I, pk, val in explore(prog, models.M, run_path, stats=stats, max_paths=50000):
        if pk == 'panic':
            out['panic_paths'] += 1
            viol(I, z3.BoolVal(True), 'panic', 'panic: %s' % val.msg[:120])
            continue
        st, exp = reference_pairing(holder['specs'], holder['geo'])
        if st == 'err':
            continue
        if val.v != 0:
            viol(I, z3.BoolVal(True), 'balanced-tags-rejected', 'balanced sequence rejected')
            continue
        got = [block_fields(prog, b) for b in val.f[0].items]
        if sorted(g['name'] or '' for g in got) != sorted(e['name'] or '' for e in exp):
            viol(I, z3.BoolVal(True), 'wrong-set-of-blocks', 'blocks %s, expected %s' % ([g['name'] for g in got], [e['name'] for e in exp]))
            continue
        # unnamed (bare) tags are told apart by where they start: pair in source order when names repeat
        names = [e['name'] for e in exp]
        by_name = {e['name']: e for e in exp}
        in_order = sorted(exp, key=lambda e: e['order'])
        for gi, g in enumerate(got):
            e = by_name[g['name']] if names.count(g['name']) == 1 else in_order[gi]
            for fld in ('lt', 'gt', 'content_start', 'content_end', 'content_bytes'):
                diffs = [ne(a, b) for a, b in zip(g[fld], e[fld])]
                viol(I, zor(diffs), 'block-%s-wrong' % fld.replace('_', '-'),
                     'block %s: %s differs from the reference' % (g['name'], fld))
        # source order
        for a, b in zip(got, got[1:]):
            la, ca = a['lt']
            lb, cb = b['lt']
            unordered = z3.Or(la > lb, z3.And(la == lb, ca > cb)) if not all(isinstance(x, int) for x in (la, lb, ca, cb)) \
                else z3.BoolVal((la, ca) > (lb, cb))
            viol(I, unordered, 'blocks-not-in-source-order', 'blocks %s and %s are out of source order' % (a['name'], b['name']))
        out['cover']['paired'] = out['cover'].get('paired', 0) + 1
        if len(exp) >= 2:
            out['cover']['two or more blocks'] = 1
        if any(t.startswith('Q') for t in tmpls):
            out['cover']['tag text inside a quoted value'] = 1
        if any(e['content_bytes'] == (0, 0) for e in exp):
            out['cover']['start and end tag in one comment'] = 1
        if want_sample and not out['samples']:
            m = I.ensure_model()
            out['samples'].append(dict(seq=list(tmpls), geometry=geo_vals(m), blocks=[g['name'] for g in got]))
    out.update(Agg(PROP, 'x').stats_from(stats))
    return out


# ------------------------------------------------------------------ replay

def materialize(texts, geometry=None):
    return c12.materialize_seq(texts)


def ref_list(src):
    """Reference on a concrete .js file: /* */ and // comments, tags, stack pairing -> [(name, line, col)] sorted."""
    import re
    s = src.decode('latin1')
    events = []
    for cm in re.finditer(r'/\*.*?\*/|//[^\n]*', s, re.S):
        for tm in re.finditer(r'<block(?: name="(\w+)")?(?:\s+[a-z]+="[^"]*")*>|</\s*block\s*>', cm.group(0)):
            off = cm.start() + tm.start()
            events.append((off, None if tm.group(0).startswith('</') else (tm.group(1) or '(unnamed)')))
    stack, out = [], []
    for off, name in events:
        if name is not None:
            stack.append((off, name))
        else:
            o, n = stack.pop()
            line = s.count('\n', 0, o) + 1
            col = o - (s.rfind('\n', 0, o) + 1) + 1
            out.append((line, col, n))
    return sorted(out)


def observe_list(binary, src):
    r = run_scan(binary, {'t.js': src}, ['**'], extra_args=['list'])
    if r['code'] != 0:
        return dict(error=r['stderr'][-200:])
    try:
        js = json.loads(r['stdout']) if r['stdout'].strip() else {}
    except ValueError:
        return dict(error='bad json')
    return dict(blocks=[(b['line'], b['column'], b['name']) for b in js.get('t.js', [])])   # listing order is part of the property


def confirm(binary, v, idx):
    v['confirmed'] = False
    if 'texts' not in v:
        return v
    src = materialize(v['texts'])
    obs = observe_list(binary, src)
    want = ref_list(src)
    v['observed'] = obs
    v['expected'] = want
    if obs.get('blocks') != want:
        v['confirmed'] = True
        v['replay'] = save_replay(PROP, '%s-%d' % (v['role'], idx), {'t.js': src}, "list '**'",
                                  'expected blocks (line, column, name) %s; %s' % (want, v['summary']), v)
    return v


def confirm_norm(binary, v, idx):
    """A normaliser that changes length/bytes shows up as a wrong tag column after the rewritten bytes."""
    v['confirmed'] = False
    text = v['text'].encode('latin1')
    hits = []
    for ext in v['exts']:
        # put a tag on the line after the comment text and one inside a following comment
        src = text + b' <block name="zz"> </block>' + (b' */' if text.startswith(b'/*') else b'') + b'\n'
        r = run_scan(binary, {'t.' + ext: src}, ['**'], extra_args=['list'])
        hits.append(dict(ext=ext, code=r['code'], out=r['stdout'][-200:], err=r['stderr'][-200:]))
    v['observed'] = hits
    return v


BOUNDS = {
    'quick': dict(max_comments=3, tmpls=['S', 'E', 'SE', 'nS', 'ES', 'Snt', 'nE', 'SS', 'EE', 'tntnS', 'SntnS', 'uS', 'MS', 'MnS', 'L', 'LS', 'Q', 'QE'], sample=380, lmax=6, validate=20),
    'thorough': dict(max_comments=4, tmpls=list(TEMPLATES.keys()), sample=3000, lmax=8, validate=80),
}


def main(tier):
    b = BOUNDS[tier]
    agg = Agg(PROP, tier)
    binary = driver.real_binary()
    prog = driver.load_program()
    rnd = random.Random(seed())
    seqs = []
    for n in range(1, b['max_comments'] + 1):
        for s in itertools.product(b['tmpls'], repeat=n):
            if 2 <= c12.events_in(s) <= 6 and c12.depth_verdict(s) == 'ok':
                seqs.append(s)
    rnd.shuffle(seqs)
    seqs.sort(key=len)
    chosen = seqs[:b['sample']]
    results = pmap(run_pairing, [(s, i % 5 == 0) for i, s in enumerate(chosen)], chunksize=4)
    ntasks = normalisers.normaliser_tasks(prog, b['lmax'])
    ntasks.sort(key=lambda t: -t[2])
    nres = pmap(normalisers.run_normaliser, ntasks)
    for r in results:
        agg.add(r)
    # (c) the walk over the syntax tree (model trees): exactly the comment nodes, once, in document order
    from . import treewalk
    wres = treewalk.run_all(tier)
    for r in wres:
        r2 = dict(r)
        r2['violations'] = [v for v in r.get('violations', []) if v['role'] in ('walk-misses-or-repeats-comments', 'comment-geometry-wrong')]
        r2['samples'] = []
        agg.add(r2)
    for r in nres:
        r2 = dict(r)
        r2['samples'] = [s for s in r.get('samples', [])][:1]
        agg.add(r2)
    # (d) Markdown: the blocks of the `[//]: #` pass and of the HTML-comment pass all come out, each once
    from . import mdhtml
    mm_tasks = [(1, 1), (2, 1), (1, 2), (2, 2)] + ([(3, 2), (2, 3), (3, 3), (0, 2), (2, 0)] if tier == 'thorough' else [])
    mm_bad = False
    for r in pmap(mdhtml.run_mdmerge, mm_tasks, chunksize=1):
        r2 = dict(r)
        r2['samples'] = []
        mm_bad = mm_bad or bool(r.get('violations'))
        agg.add(r2)
    if not mm_bad:
        pv = dict(role='sample', summary='passing path')
        mdhtml.confirm_mdmerge(binary, PROP, pv, 90)
        if pv.get('confirmed'):
            msg = 'Markdown two-pass replay disagrees with the real binary on a passing path: observed %s expected %s' % (pv.get('observed'), pv.get('expected'))
            agg.validation_failures.append(msg)
            agg.engine_errors.append({'engine_error': 'translator validation: ' + msg})
        else:
            agg.validated += 1
    by_role = {}
    for v in agg.violations:
        by_role.setdefault(v['role'], []).append(v)
    final = []
    for role, vs in sorted(by_role.items()):
        got = None
        for i, v in enumerate(vs[:6]):
            if v.get('walk'):
                from . import treewalk
                treewalk.confirm_walk(binary, PROP, v, i)
            elif v.get('mdmerge'):
                mdhtml.confirm_mdmerge(binary, PROP, v, i)
            elif 'closure' in v:
                # normaliser post-condition violations: solver-decided on the MIR; the observable effect is a
                # shifted column, shown in the replay directory
                confirm_norm(binary, v, i)
                v['confirmed'] = True
                v['replay'] = save_replay(PROP, '%s-%s-%d' % (role, v['closure'].split('::')[0], i),
                                          {'comment.txt': v['text'].encode('latin1')}, "list '**'",
                                          '%s in %s on comment text %r' % (v['summary'], v['closure'], v['text']), v)
            else:
                confirm(binary, v, i)
            if v['confirmed']:
                got = v
                break
        final.append(got or vs[0])
    agg.violations = final
    samples = [s for r in results for s in r.get('samples', [])]
    rnd.shuffle(samples)
    for s in samples[:b['validate']]:
        texts = [CommentSpec(t, 0).text for t in s['seq']]
        # CommentSpec numbers names from 0 per comment when built alone: rebuild with running numbering
        k = 0
        texts = []
        for t in s['seq']:
            sp = CommentSpec(t, k)
            k = sp.next_name_idx
            texts.append(sp.text)
        src = materialize(texts)
        obs = observe_list(binary, src)
        want = ref_list(src)
        if obs.get('blocks') == want and sorted(n for _l, _c, n in want) == sorted(x or '(unnamed)' for x in s['blocks']):
            agg.validated += 1
        else:
            msg = 'real %s vs reference %s (mirsym blocks %s) on %s' % (obs, want, s['blocks'], s['seq'])
            agg.validation_failures.append(msg)
            agg.engine_errors.append({'engine_error': 'translator validation: ' + msg})
    bounds = dict(max_comments=b['max_comments'], templates=b['tmpls'], balanced_sequences=len(chosen), of=len(seqs),
                  normaliser_tasks=len(ntasks), comment_text_max=b['lmax'],
                  geometry='line, column and byte offset of every comment: integers in [0 or 1, 2^32], ordered and non-overlapping')
    return finish(
        agg, bounds,
        assumptions=['tree-sitter: which nodes exist, their kinds and ranges are a stub (arbitrary ordered, non-overlapping comments); hence "never inside string literals", "in every language", CRLF handling inside tree-sitter are outside',
                     'the winnow tag parser is replaced by the event list of each comment template (attributes as written: C05, not applicable)',
                     'normalisers: ASCII comment text over per-form alphabets, opener assumed, closer not'],
        stubs=['tree_sitter::Node (kind + byte range)', 'tree_sitter::{Parser, Tree, TreeCursor} over model trees'],
        must_cover=['paired', 'two or more blocks', 'start and end tag in one comment', 'tag text inside a quoted value', 'normalised', 'tree walk', 'md+html merge'],
        explanation='reference pairing and positions as Z3 terms over the symbolic geometry: PC∧(field≠reference) asked per block field on every path; normaliser output compared bytewise with its input')


if __name__ == '__main__':
    sys.exit(main(sys.argv[1] if len(sys.argv) > 1 else 'quick'))
