"""main(): how the pieces are wired (bin MIR).  Used by C02 (mode / should_scan_files), C15
(default `**` glob), C14 (flags rejected before anything is validated) and C11 (`list`).

Encoded (real MIR): blockwatch::main.  Everything it calls is a recording stub: clap, stdin /
terminal detection / env, globset, the file system, and the crate's own parse_blocks /
detect_validators / run / process_violations / line_changes_from_diff (decided elsewhere).
Symbolic: stdin is a terminal?, BLOCKWATCH_TERMINAL_MODE set?, positional globs empty?, `list`?,
both -d and -e given?, does the diff parse?, are there violations?
"""
import z3

from .common import *  # noqa
from .vharness import *  # noqa
from . import c16
from mirsym.interp import explore, PathStats
from mirsym.models import new_string


def run_main(task):
    prop = task
    prog = driver.load_program(want_bin=True)
    stats = PathStats()
    lst = prog.fns.get('main')
    if not lst:
        raise EngineError('main not in the bin MIR dump')
    f = lst[0]
    table, names, _st = c16.real_table(prog)
    out = dict(violations=[], samples=[], obligations=0, cover={}, panic_paths=0)
    holder = {}
    roles = set()

    def run_path(I):
        tty = I.fresh_bool('stdin_is_terminal')
        envset = I.fresh_bool('terminal_mode_env')
        globs_empty = I.branch(I.fresh_bool('globs_empty'))
        is_list = I.branch(I.fresh_bool('list'))
        both_flags = I.branch(I.fresh_bool('both_flags'))
        # which validators -e / -d name (when not both): none, `affects`, `keep-sorted` / none, `line-count`
        e_pick = 0 if both_flags else I.concretize(I.fresh_int('enable_pick', 0, 2), 'enable')
        d_pick = 0 if (both_flags or e_pick) else I.concretize(I.fresh_int('disable_pick', 0, 1), 'disable')
        e_list = [[], [b'affects'], [b'keep-sorted']][e_pick]
        d_list = [[], [b'line-count']][d_pick]
        if both_flags:
            e_list, d_list = [b'keep-sorted'], [b'line-count']
        diff_ok = I.fresh_bool('diff_ok')
        has_viol = I.fresh_bool('has_violations')
        # does the selection hold any block at all?  (an empty selection is still listed, as `{}`)
        blocks_empty = I.branch(I.fresh_bool('blocks_empty'))
        sym = dict(tty=tty, envset=envset, globs_empty=globs_empty, is_list=is_list, both_flags=both_flags,
                   diff_ok=diff_ok, has_viol=has_viol, blocks_empty=blocks_empty, enabled=[x.decode() for x in e_list], disabled=[x.decode() for x in d_list])
        calls = []
        holder.update(sym=sym, calls=calls)
        cmd = NONE
        # the positional globs live at the top level, or inside the `list` subcommand when it is used
        given = [] if globs_empty else [new_string(I, b'a.py')]
        if is_list:
            vi = prog.variant_index('SubCommand', 'List')
            cmd = Some(Enum('SubCommand', vi, 'List', (VecVal(given),)))
        args = mk_struct(prog, 'Args', extensions=VecVal(()),
                         disabled_validators=VecVal([new_string(I, x) for x in d_list]),
                         enabled_validators=VecVal([new_string(I, x) for x in e_list]),
                         ignore=VecVal(()), globs=VecVal([] if is_list else given), command=cmd)
        st = I.stubs
        st['Parser::parse'] = lambda I2, a, ci, dt: args
        st['language_parsers'] = lambda I2, a, ci, dt: Ok(table)

        def globs_stub(I2, a, ci, dt):
            calls.append(('globs',))
            return Ok(Struct('GlobSet', (globs_empty, 'user')))
        st['Args::globs'] = globs_stub
        st['Args::ignored_globs'] = lambda I2, a, ci, dt: Ok(Struct('GlobSet', (True, 'ignore')))
        st['GlobSet::is_empty'] = lambda I2, a, ci, dt: I2.deref_value(a[0]).f[0]

        def glob_new(I2, a, ci, dt):
            calls.append(('Glob::new', bytes(as_b(I2, a[0]))))
            return Ok(Struct('Glob', (bytes(as_b(I2, a[0])),)))

        def as_b(I2, v):
            from mirsym.models import as_sstr
            return as_sstr(I2, v).b
        st['Glob::new'] = glob_new

        def globset_new(I2, a, ci, dt):
            pats = [g.f[0] for g in a[0].items]
            calls.append(('GlobSet::new', pats))
            return Ok(Struct('GlobSet', (len(pats) == 0, tuple(pats))))
        st['GlobSet::new'] = globset_new
        st['stdin'] = lambda I2, a, ci, dt: Opaque('stdin')
        st['IsTerminal::is_terminal'] = lambda I2, a, ci, dt: tty
        st['var'] = lambda I2, a, ci, dt: Ok(new_string(I2, b'1')) if I2.branch(envset) else Err(Opaque('VarError'))
        st['current_dir'] = lambda I2, a, ci, dt: Ok(new_string(I2, b'/r/sub'))
        st['canonicalize'] = lambda I2, a, ci, dt: Ok(new_string(I2, b'/r/sub'))
        st['repository_root_path'] = lambda I2, a, ci, dt: Ok(new_string(I2, b'/r'))

        def read_stdin(I2, a, ci, dt):
            calls.append(('read_stdin',))
            I2.store(a[1], new_string(I2, b'DIFF'))
            return Ok(4)
        st['Read::read_to_string'] = read_stdin

        def lcfd(I2, a, ci, dt):
            calls.append(('line_changes_from_diff', bytes(as_b(I2, a[0]))))
            if I2.branch(diff_ok):
                return Ok(MapVal([Tuple(new_string(I2, b'f.py'), VecVal(()))], 'HashMap'))
            return Err(Opaque('anyhow', {'ctx': [], 'src': 'bad diff'}))
        st['line_changes_from_diff'] = lcfd

        def pb(I2, a, ci, dt):
            pc = I2.deref_value(a[3])
            gs = get_field(prog, pc, 'PathCheckerImpl', 'glob_set')
            calls.append(('parse_blocks', len(a[0].entries), a[1], gs.f[1]))
            if blocks_empty:
                return Ok(MapVal((), 'HashMap'))
            return Ok(MapVal([Tuple(new_string(I2, b'a.py'), Opaque('FileBlocks'))], 'HashMap'))
        st['parse_blocks'] = pb
        st['ValidationContext::to_serializable_report'] = lambda I2, a, ci, dt: (calls.append(('report',)), MapVal((), 'HashMap'))[1]
        st['stdout'] = lambda I2, a, ci, dt: Opaque('stdout')
        st['to_writer_pretty'] = lambda I2, a, ci, dt: (calls.append(('print',)), Ok(UNIT))[1]
        def detect_stub(I2, a, ci, dt):
            def names(h):
                h = I2.deref_value(h)
                return sorted(bytes(as_b(I2, e.f[0])).decode() for e in h.entries)
            calls.append(('detect', names(a[2]), names(a[3])))
            return Ok(Tuple(VecVal(()), VecVal(())))
        st['detect_validators'] = detect_stub

        def run_stub(I2, a, ci, dt):
            calls.append(('run',))
            if I2.branch(has_viol):
                return Ok(MapVal([Tuple(new_string(I2, b'f.py'), VecVal(()))], 'HashMap'))
            return Ok(MapVal((), 'HashMap'))
        st['run'] = run_stub
        st['validators::run'] = run_stub
        st['process_violations'] = lambda I2, a, ci, dt: (calls.append(('process_violations',)), Ok(UNIT))[1]
        return I.call_fn(f, [])

    def viol(I, cond, role, summary):
        out['obligations'] += 1
        if role in roles:
            return
        if I.check(cond):
            roles.add(role)
            m = I.solver.model()
            out['violations'].append(dict(role=role, summary=summary, main=True,
                                          inputs={k: (v if isinstance(v, (list, str)) else mval(m, v)) for k, v in holder['sym'].items()},
                                          calls=[list(map(str, c)) for c in holder['calls']]))

    for I, pk, val in explore(prog, models.M, run_path, stats=stats, max_paths=5000):
        s = holder['sym']
        calls = holder['calls']
        if pk == 'panic':
            out['panic_paths'] += 1
            viol(I, z3.BoolVal(True), 'main-panic', 'panic in main: %s' % val.msg[:100])
            continue
        names_called = [c[0] for c in calls]
        is_terminal = z3.Or(s['tty'], s['envset'])
        if s['both_flags']:
            if val.v == 0 or 'parse_blocks' in names_called or 'read_stdin' in names_called:
                viol(I, z3.BoolVal(True), 'flags-not-rejected-up-front', '-d with -e: main went on to %s' % names_called)
            out['cover']['main:both-flags'] = 1
            continue
        pbs = [c for c in calls if c[0] == 'parse_blocks']
        read = 'read_stdin' in names_called
        # diff is read exactly when not in terminal mode
        if read:
            viol(I, is_terminal, 'diff-read-in-terminal-mode', 'stdin read although in terminal mode')
        else:
            viol(I, z3.Not(is_terminal), 'diff-not-read', 'not a terminal but stdin was not read')
        if not pbs:
            # only legitimate when the diff failed to parse
            viol(I, z3.Or(is_terminal, s['diff_ok']), 'blocks-not-parsed', 'main ended without parse_blocks: %s' % names_called)
            out['cover']['main:diff-error'] = 1
            continue
        _n, nfiles, scan, pats = pbs[0]
        ge = z3.BoolVal(bool(s['globs_empty']))
        want_scan = z3.Or(z3.Not(ge), is_terminal)
        viol(I, (scan != want_scan) if is_sym(scan) else (z3.Not(want_scan) if scan else want_scan),
             'should-scan-files-wrong', 'should_scan_files=%s' % scan)
        default_glob = (pats == (b'**',))
        want_default = z3.And(ge, is_terminal)
        viol(I, z3.Not(want_default) if default_glob else want_default, 'default-glob-wrong',
             'glob set handed to the path checker: %r' % (pats,))
        if nfiles:
            viol(I, is_terminal, 'diff-used-in-terminal-mode', 'line changes passed although in terminal mode')
        if s['is_list']:
            if 'report' not in names_called or 'print' not in names_called or 'detect' in names_called or val.v != 0:
                viol(I, z3.BoolVal(True), 'list-wiring-wrong', '`list`: calls %s, result %s' % (names_called, 'Ok' if val.v == 0 else 'Err'))
            out['cover']['main:list'] = 1
        elif s['blocks_empty']:
            # nothing selected: whether the validators are set up at all is not observable; nothing may be reported
            if 'process_violations' in names_called and 'run' not in names_called:
                viol(I, z3.BoolVal(True), 'report-wiring-wrong', 'process_violations called without a run')
            out['cover']['main:validate-empty'] = 1
        else:
            if names_called.count('detect') != 1 or names_called.count('run') != 1:
                viol(I, z3.BoolVal(True), 'validation-wiring-wrong', 'calls %s' % names_called)
            else:
                det = [c for c in calls if c[0] == 'detect'][0]
                if det[1] != sorted(s['disabled']) or det[2] != sorted(s['enabled']):
                    viol(I, z3.BoolVal(True), 'validator-selection-rewritten:-e %s -d %s' % (','.join(s['enabled']) or '-', ','.join(s['disabled']) or '-'),
                         '-d %s -e %s on the command line, detect_validators got disabled=%s enabled=%s' % (s['disabled'], s['enabled'], det[1], det[2]))
            pv = 'process_violations' in names_called
            viol(I, z3.Not(s['has_viol']) if pv else s['has_viol'], 'report-wiring-wrong',
                 'process_violations %s' % ('called' if pv else 'not called'))
            out['cover']['main:validate'] = 1
        out['cover']['main'] = out['cover'].get('main', 0) + 1
    out.update(Agg(prop, 'x').stats_from(stats))
    return out


def confirm_main(binary, prop, v, idx):
    """Replay of a wiring violation: the default-scan behaviour is observable through BLOCKWATCH_TERMINAL_MODE."""
    v['confirmed'] = False
    files = {'a.py': b'# <block name="x" keep-sorted>\nb\na\n# </block>\n',
             'other/b.py': b'# <block name="y" keep-sorted>\na\nb\n# </block>\n'}
    inp = v.get('inputs', {})
    if inp.get('blocks_empty'):
        # the same files without a single block: the selection is empty
        files = {'a.py': b'x = 1\n', 'other/b.py': b'y = 2\n'}
    env = {'BLOCKWATCH_TERMINAL_MODE': '1'} if (inp.get('envset') or inp.get('tty')) else None
    globs = [] if inp.get('globs_empty', True) else ['a.py']
    extra = ['list'] if inp.get('is_list') else []
    if inp.get('both_flags'):
        extra += ['-d', 'line-count', '-e', 'keep-sorted']
    else:
        for x in inp.get('enabled') or []:
            extra += ['-e', x]
        for x in inp.get('disabled') or []:
            extra += ['-d', x]
    r = run_scan(binary, files, globs, env_extra=env, extra_args=extra)
    terminal = bool(env)
    scanned = terminal or bool(globs)
    if inp.get('both_flags'):
        ok = r['code'] != 0 and r['diags'] is None
        if ok:
            # the two flags are global: they may also sit on opposite sides of the sub-command
            for argv in (['-e', 'keep-sorted', 'list', '-d', 'line-count', 'a.py'], ['-d', 'line-count', 'list', 'a.py', '-e', 'keep-sorted']):
                r = run_scan(binary, files, [], env_extra=env, extra_args=argv)
                if r['code'] == 0:
                    ok = False
                    extra, globs = argv, []
                    break
    elif inp.get('blocks_empty'):
        # an empty selection: `list` prints an empty JSON object, validation prints nothing; both exit 0
        ok = r['code'] == 0 and (r['stdout'].strip() == '{}' if inp.get('is_list') else r['diags'] is None)
    elif inp.get('is_list'):
        # the file outside the glob is listed exactly when everything is scanned by default
        ok = r['code'] == 0 and (('"x"' in r['stdout']) == scanned) and (('"y"' in r['stdout']) == (terminal and not globs))
    else:
        # a.py holds one keep-sorted violation: it is reported unless -e names another validator
        sel = inp.get('enabled') or []
        reported = scanned and (not sel or 'keep-sorted' in sel)
        ok = (r['code'] == (1 if reported else 0))
    v['observed'] = dict(code=r['code'], stdout=r['stdout'][-150:], stderr=r['stderr'][-150:])
    if not ok:
        v['confirmed'] = True
        import re as _re
        v['replay'] = save_replay(prop, 'main-%s-%d' % (_re.sub(r'[^A-Za-z0-9_-]+', '_', v['role']), idx), files,
                                  ' '.join(extra + globs), 'env %s; %s' % (env, v['summary']), v)
    return v


ROLES = {
    'C02': ['should-scan-files-wrong', 'diff-read-in-terminal-mode', 'diff-not-read', 'diff-used-in-terminal-mode', 'blocks-not-parsed', 'main-panic'],
    'C15': ['default-glob-wrong', 'should-scan-files-wrong'],
    'C14': ['flags-not-rejected-up-front', 'validation-wiring-wrong', 'validator-selection-rewritten'],
    'C11': ['list-wiring-wrong', 'report-wiring-wrong', 'validation-wiring-wrong'],
}


def add_to(agg, prop, binary):
    """Run the wiring harness and fold the violations relevant to `prop` into agg (replay-confirmed)."""
    for r in pmap(run_main, [prop], jobs=1):
        r2 = dict(r)
        keep = []
        for i, v in enumerate(r.get('violations', [])):
            if v['role'].split(':')[0] in ROLES[prop]:
                confirm_main(binary, prop, v, i)
                keep.append(v)
        r2['violations'] = keep
        agg.add(r2)
