"""C19 — check-ai: the request is faithful, the reply decides, endpoint faults fail closed.

Encoded (real MIR, including the coroutine state machines of the async fns / async blocks):
validators::run, run_async_validators (+ its async block and the per-validator task),
<CheckAiValidator<OpenAiClient> as ValidatorAsync>::validate (+ async block, + the per-block task),
check_ai::block_content (+closure), CheckAiValidator::process_ai_response, check_ai::create_violation,
OpenAiClient::new_from_env, <OpenAiClient as AiClient>::check_block (+ async block),
CheckAiValidator::with_client, Block::content / severity / name_display.

Contract stubs: the async-openai client (config, message/request builders, `chat().create()`), tokio
(JoinSet, Runtime::block_on: see mirsym/asyncmodels.py), std::env::var.  `create()` records the
request and answers with the reply the task assigns to that block: a reply text (symbolic bytes),
an error (connection refused, 4xx, invalid JSON and a body cut short are all `Err(OpenAIError)` at
this API), a body without choices, a choice with null content.

Symbolic: condition and content bytes of every block (alphabet with the characters JSON must
escape), blanks around the content, every reply text, BLOCKWATCH_AI_MODEL / _API_URL values, the
order in which the per-block tasks complete (all orders).  Enumerated: number of files and blocks,
which blocks carry check-ai / check-ai-pattern, reply kind per block, key present or not.
"""
import itertools
import json
import random
import sys
import threading

import z3

from .common import *  # noqa
from .vharness import *  # noqa
from . import extsrc, c18
from mirsym.interp import explore, PathStats
from mirsym.models import new_string, as_sstr
from mirsym.asyncmodels import ReadyFut

PROP = 'C19'
AO = 'async-openai-0*'

COND_ALPHA = tuple(b'x "\\\n')
TEXT_ALPHA = tuple(b'y "\\{')
REPLY_ALPHA = tuple(b'OoKk.x ')
WSB = (32, 9, 10)
DEFAULT_MODEL = b'gpt-5-nano'
DEFAULT_BASE = b'https://api.openai.com/v1'
models.M.consts['async_openai::config::OPENAI_API_BASE'] = SStr(tuple(DEFAULT_BASE), -1, 0)
models.M.consts['OPENAI_API_BASE'] = SStr(tuple(DEFAULT_BASE), -1, 0)


def install_openai(I, prog, env, replies, log):
    """env: {name: bytes tuple or None}; replies: block tag byte -> reply spec; log: list of requests."""
    st = I.stubs

    def var(I2, a, ci, dt):
        n = bytes(as_sstr(I2, a[0]).b)
        v = env.get(n)
        return Ok(SString(tuple(v), I2.new_alloc())) if v is not None else Err(Opaque('VarError'))
    st['var'] = var
    # async-openai's documented default: endpoint OPENAI_API_BASE, key from OPENAI_API_KEY (or empty)
    def cfg_new(I2, a, ci, dt):
        k = env.get(b'OPENAI_API_KEY')
        return Struct('OpenAIConfig', (SString(tuple(DEFAULT_BASE), I2.new_alloc()), SString(tuple(k or ()), I2.new_alloc())))
    st['OpenAIConfig::new'] = cfg_new
    st['OpenAIConfig::default'] = cfg_new
    st['OpenAIConfig::with_api_base'] = lambda I2, a, ci, dt: Struct('OpenAIConfig', (a[1], a[0].f[1]))
    st['OpenAIConfig::with_api_key'] = lambda I2, a, ci, dt: Struct('OpenAIConfig', (a[0].f[0], a[1]))
    st['Client::with_config'] = lambda I2, a, ci, dt: Struct('Client', (a[0],))
    st['Client::config'] = lambda I2, a, ci, dt: Ref(a[0].cell, a[0].path + (0,))
    st['Config::api_key'] = lambda I2, a, ci, dt: Ref(a[0].cell, a[0].path + (1,))
    st['ExposeSecret::expose_secret'] = lambda I2, a, ci, dt: as_sstr(I2, a[0])

    def builder(name, fields):
        def default(I2, a, ci, dt):
            return Struct(name, tuple(None for _ in fields))
        st[name + '::default'] = default
        for i, fld in enumerate(fields):
            def setter(I2, a, ci, dt, i=i):
                v = a[1]
                while isinstance(v, Ref):
                    v = I2.load(v)
                I2.store(Ref(a[0].cell, a[0].path + (i,)), v)
                return a[0]
            st['%s::%s' % (name, fld)] = setter

        def build(I2, a, ci, dt):
            v = I2.load(a[0])
            if any(x is None for x in v.f):
                return Err(Opaque('OpenAIError', 'builder: field not set'))
            return Ok(Struct(name.replace('Args', ''), v.f))
        st[name + '::build'] = build
    builder('ChatCompletionRequestUserMessageArgs', ['content'])
    builder('ChatCompletionRequestSystemMessageArgs', ['content'])
    builder('CreateChatCompletionRequestArgs', ['model', 'messages'])
    st['Client::chat'] = lambda I2, a, ci, dt: Struct('Chat', (a[0],))

    resp_fields = extsrc.struct_fields(AO, 'CreateChatCompletionResponse')
    choice_fields = extsrc.struct_fields(AO, 'ChatChoice')
    msg_fields = extsrc.struct_fields(AO, 'ChatCompletionResponseMessage')

    def mk_resp(I2, choices):
        f = [Opaque('unused:' + n) for n in resp_fields]
        f[resp_fields.index('choices')] = VecVal(choices)
        return Struct('CreateChatCompletionResponse', f)

    def mk_choice(I2, content):
        m = [Opaque('unused:' + n) for n in msg_fields]
        m[msg_fields.index('content')] = content
        c = [Opaque('unused:' + n) for n in choice_fields]
        c[choice_fields.index('message')] = Struct('ChatCompletionResponseMessage', m)
        return Struct('ChatChoice', c)

    def create(I2, a, ci, dt):
        chat = a[0]
        while isinstance(chat, Ref):
            chat = I2.load(chat)
        client = chat.f[0]
        while isinstance(client, Ref):
            client = I2.load(client)
        cfg = client.f[0]
        req = a[1]
        msgs = req.f[1]
        msgs = I2.deref_value(msgs) if isinstance(msgs, Ref) else msgs
        entry = dict(model=req.f[0], base=cfg.f[0], key=cfg.f[1],
                     roles=[m.name for m in msgs.items], contents=[m.f[0].f[0] for m in msgs.items])
        # which block is this?  conditions start with a distinct concrete tag byte
        user = [m for m in msgs.items if m.name == 'User']
        tag = None
        if len(user) == 1:
            ub = as_sstr(I2, user[0].f[0].f[0]).b
            pre = tuple(b'CONDITION:\n')
            if len(ub) > len(pre) and ub[:len(pre)] == pre:
                tag = I2.concretize(ub[len(pre)], 'condition tag')
            entry['user'] = ub
        entry['tag'] = tag
        log.append(entry)
        spec = replies.get(tag, replies.get('default', ('err',)))
        kind = spec[0]
        if kind == 'err':
            # which fault: 0 the endpoint answers 4xx with an error object (OpenAIError::ApiError), 1 the transport
            # fails (Reqwest), 2 a 200 whose body is not the JSON of a completion (JSONDeserialize)
            vname = ('ApiError', 'Reqwest', 'JSONDeserialize')[spec[1] if len(spec) > 1 and spec[1] in (0, 1, 2) else 0]
            vs = [n for n, _cfg in extsrc.enum_variants('async-openai-[0-9]*', 'OpenAIError')]
            payload = (new_string(I2, b'bad'),) if vname != 'JSONDeserialize' else (new_string(I2, b'expected value'), new_string(I2, b'not json'))
            return ReadyFut(Err(Enum('OpenAIError', vs.index(vname), vname, payload)))
        if kind == 'nochoices':
            return ReadyFut(Ok(mk_resp(I2, [])))
        if kind == 'null':
            return ReadyFut(Ok(mk_resp(I2, [mk_choice(I2, NONE)])))
        return ReadyFut(Ok(mk_resp(I2, [mk_choice(I2, Some(SString(tuple(spec[1]), I2.new_alloc())))])))
    st['Chat::create'] = create


def lower(b):
    if isinstance(b, int):
        return b + 32 if 65 <= b <= 90 else b
    return z3.If(z3.And(b >= 65, b <= 90), b + 32, b)


def is_ok_reply(text):
    """Z3: text equals OK / OK. in any letter case."""
    def eq(t, w):
        if len(t) != len(w):
            return z3.BoolVal(False)
        return zand([lower(x) == y if not isinstance(x, int) else z3.BoolVal(lower(x) == y) for x, y in zip(t, w)])
    return z3.Or(eq(text, b'ok'), eq(text, b'ok.'))


def seq_ne(a, b):
    if len(a) != len(b):
        return z3.BoolVal(True)
    ds = []
    for x, y in zip(a, b):
        if isinstance(x, int) and isinstance(y, int):
            if x != y:
                return z3.BoolVal(True)
            continue
        ds.append(x != y)
    return zor(ds)


def run_task(task):
    """task = dict(files=[[blockspec,..],..], key=bool, model_env=bool, url_env=bool)
    blockspec = dict(ai=bool, pattern=None|'group'|'plain', lead, core, trail, cond_len, reply=(kind, len))"""
    prog = driver.load_program()
    stats = PathStats()
    f_run = prog.find_fn('run')
    f_env = prog.find_method('OpenAiClient', 'new_from_env')
    f_with = prog.find_method('CheckAiValidator', 'with_client')
    if f_run is None or f_env is None or f_with is None:
        raise EngineError('run / new_from_env / with_client not in the MIR dump')
    out = dict(violations=[], samples=[], obligations=0, cover={}, panic_paths=0)
    holder = {}
    roles = set()

    def run_path(I):
        log = []
        env = {}
        sym = {}
        if task['key']:
            env[b'BLOCKWATCH_AI_API_KEY'] = tuple(I.fresh_byte('key%d' % i, tuple(b'ks-')) for i in range(2))
        else:
            env[b'BLOCKWATCH_AI_API_KEY'] = None if task.get('key_unset', True) else ()
        if task.get('foreign_key'):
            env[b'OPENAI_API_KEY'] = tuple(b'sk')          # a key meant for another provider is in the environment
        env[b'BLOCKWATCH_AI_MODEL'] = tuple(I.fresh_byte('mod%d' % i, tuple(b'mg4')) for i in range(2)) if task['model_env'] else None
        env[b'BLOCKWATCH_AI_API_URL'] = tuple(b'http://h/') + tuple(I.fresh_byte('url%d' % i, tuple(b'uv1')) for i in range(1)) if task['url_env'] else None
        blocks = []
        replies = {}
        files = []
        tag = 65
        line = 1
        for fi, fblocks in enumerate(task['files']):
            src = []
            bwcs = []
            for bi, bs in enumerate(fblocks):
                name = 'f%db%d' % (fi, bi)
                content, expected = c18.build_content(I, name, bs)
                start = len(src) + 3
                src += [35, 83, 10] + content + [10, 35, 69, 10]     # "#S\n" content "\n#E\n"
                attrs_d = {'name': name.encode()}
                col = 3
                if bs.get('same_line') and bi > 0:
                    line -= 4
                    col = 3 + 60 * bi
                info = dict(name=name, file=('f%d.py' % fi).encode(), ai=bs['ai'], line=line, col=col, expected_content=tuple(expected),
                            same_line=bool(bs.get('same_line') and bi > 0))
                if bs['ai']:
                    cond = [tag] + [I.fresh_byte('%s_q%d' % (name, i), COND_ALPHA) for i in range(bs['cond_len'])]
                    # the condition is trimmed only for the emptiness test: keep its ends non-blank
                    attrs_d['check-ai'] = SString(tuple(cond), I.new_alloc())
                    info['cond'] = tuple(cond)
                    info['tag'] = tag
                    rk, rl = bs['reply']
                    if rk == 'lit':
                        rk, txt = 'text', tuple(rl.encode())
                        replies[tag] = ('text', txt)
                        info['reply'] = ('text', txt)
                    elif rk == 'text':
                        txt = tuple(I.fresh_byte('%s_r%d' % (name, i), REPLY_ALPHA) for i in range(rl))
                        replies[tag] = ('text', txt)
                        info['reply'] = ('text', txt)
                    else:
                        replies[tag] = (rk,)
                        info['reply'] = (rk,)
                    tag += 1
                    if bs.get('pattern'):
                        attrs_d['check-ai-pattern'] = c18.PATTERNS[bs['pattern']]
                        info['pattern'] = bs['pattern']
                blk = mk_block(prog, I, attrs_d, (line, col), (line, col + 17), (start, start + len(content)), (line, col + 27), (line, col + 40) if info['same_line'] or (bi + 1 < len(fblocks) and fblocks[bi + 1].get('same_line')) else (line + 2, 1))
                bwcs.append(mk_bwc(prog, blk))
                blocks.append(info)
                line += 4
            files.append((('f%d.py' % fi).encode(), tuple(src), bwcs))
        ctx = mk_context(prog, I, files)
        install_openai(I, prog, env, replies, log)
        if task.get('order') == 'first':          # many tasks: a fixed completion order instead of all n! of them
            I.task_order = lambda n, step: 0
        elif task.get('order') == 'last':
            I.task_order = lambda n, step: n - 1
        else:
            I.task_order = lambda n, step: I.concretize(I.fresh_int('ord%d_%d' % (step, n), 0, n - 1), 'task order') if n > 1 else 0
        holder.update(blocks=blocks, log=log, env=env, files=files)
        client = I.call_fn(f_env, [])
        validator = I.call_fn(f_with, [client])
        vbox = Ref(Cell(validator), ())
        return I.call_fn(f_run, [ctx, VecVal(()), VecVal([vbox])])

    def viol(I, cond, role, summary):
        out['obligations'] += 1
        if role in roles:
            return
        if isinstance(cond, bool):
            cond = z3.BoolVal(cond)
        if I.check(cond):
            roles.add(role)
            # prefer a witness the tag syntax can carry (no `"` / line break in the quoted condition)
            nice = zand([z3.And(x != 34, x != 10) for b in holder['blocks'] if b['ai'] for x in b['cond'] if not isinstance(x, int)])
            if not I.check(cond, nice):
                I.check(cond)
            m = I.solver.model()
            out['violations'].append(dict(role=role, summary=summary, task=task, witness=witness(m)))

    def witness(m):
        w = dict(files={}, env={}, blocks=[])
        w['same_line'] = [b['name'] for b in holder['blocks'] if b.get('same_line')]
        if task.get('order'):
            w['slow_ok'] = 0.6      # many requests in flight: let the faulty one finish while the others are pending
        for path, src, _b in holder['files']:
            w['files'][path.decode()] = model_bytes(m, src).decode('latin1')
        for k, v in holder['env'].items():
            w['env'][k.decode()] = None if v is None else model_bytes(m, v).decode('latin1')
        for b in holder['blocks']:
            if b['ai']:
                w['blocks'].append(dict(name=b['name'], file=b['file'].decode(), cond=model_bytes(m, b['cond']).decode('latin1'),
                                        content=model_bytes(m, b['expected_content']).decode('latin1'),
                                        pattern=b.get('pattern'),
                                        reply=(b['reply'][0], model_bytes(m, b['reply'][1]).decode('latin1')) if b['reply'][0] == 'text' else (b['reply'][0],)))
        return w

    for I, pk, val in explore(prog, models.M, run_path, stats=stats, max_paths=20000):
        if pk == 'panic':
            out['panic_paths'] += 1
            viol(I, True, 'panic', 'panic: %s' % val.msg[:160])
            continue
        blocks = [b for b in holder['blocks'] if b['ai']]
        log = holder['log']
        fault = (not task['key']) or any(b['reply'][0] != 'text' for b in blocks)
        st, res = decode_violations(prog, val)
        if fault and blocks:
            if st != 'err':
                viol(I, True, 'endpoint-fault-passes', 'missing key or a faulty reply, but the run succeeded with %s' % (
                    {k: len(v) for k, v in res.items()},))
            if not task['key'] and log:
                viol(I, True, 'request-sent-without-key', '%d requests although no key is configured' % len(log))
            out['cover']['fault'] = out['cover'].get('fault', 0) + 1
            continue
        if st == 'err':
            viol(I, True, 'healthy-run-fails', 'all replies well-formed, but the run failed')
            continue
        # exactly one faithful request per block
        for b in blocks:
            mine = [e for e in log if e['tag'] == b['tag']]
            if len(mine) != 1:
                viol(I, True, 'not-exactly-one-request', 'block %s: %d requests' % (b['name'], len(mine)))
                continue
            e = mine[0]
            want_content = b['expected_content']
            want = tuple(b'CONDITION:\n') + b['cond'] + tuple(b'\n\nBLOCK (formatting preserved):\n') + want_content
            viol(I, seq_ne(e.get('user', ()), want), 'request-not-verbatim', 'block %s: the user message is not condition and trimmed content verbatim' % b['name'])
            want_model = holder['env'][b'BLOCKWATCH_AI_MODEL'] or tuple(DEFAULT_MODEL)
            viol(I, seq_ne(as_b(I, e['model']), want_model), 'wrong-model', 'request model differs from BLOCKWATCH_AI_MODEL / default')
            want_base = holder['env'][b'BLOCKWATCH_AI_API_URL'] or tuple(DEFAULT_BASE)
            viol(I, seq_ne(as_b(I, e['base']), want_base), 'wrong-endpoint', 'client endpoint differs from BLOCKWATCH_AI_API_URL / default')
            viol(I, seq_ne(as_b(I, e['key']), holder['env'][b'BLOCKWATCH_AI_API_KEY']), 'wrong-key', 'client key differs from BLOCKWATCH_AI_API_KEY')
            if sorted(e['roles']) != ['System', 'User']:
                viol(I, True, 'request-shape', 'messages %s' % e['roles'])
        stray = [e for e in log if e['tag'] not in [b['tag'] for b in blocks]]
        if stray:
            viol(I, True, 'stray-request', '%d requests that belong to no check-ai block' % len(stray))
        # verdicts
        for b in blocks:
            got = [v for v in res.get(b['file'], []) if tuple(v['start']) == (b['line'], b['col'])]
            txt = b['reply'][1]
            ok = is_ok_reply(txt)
            if len(got) == 0:
                viol(I, z3.Not(ok), 'rejecting-reply-passes', 'block %s: reply is not OK but no diagnostic' % b['name'])
            elif len(got) == 1:
                viol(I, ok, 'ok-reply-reported', 'block %s: reply OK reported as a violation' % b['name'])
                d = got[0]['data']
                if got[0]['code'] != tuple(b'check-ai'):
                    viol(I, True, 'wrong-code', 'code %r' % (got[0]['code'],))
                if tuple(got[0]['end']) != (b['line'], b['col'] + 17):
                    viol(I, True, 'range-not-the-start-tag', 'block %s: diagnostic range ends at %s, the start tag at %s' % (
                        b['name'], got[0]['end'], (b['line'], b['col'] + 17)))
                msg = ai_message(prog, I, d)
                if msg is None:
                    viol(I, True, 'diagnostic-lacks-reply', 'no ai_message in the diagnostic data')
                else:
                    viol(I, seq_ne(msg, txt), 'diagnostic-misquotes-reply', 'block %s: ai_message differs from the reply' % b['name'])
            else:
                viol(I, True, 'duplicate-diagnostic', 'block %s: %d diagnostics' % (b['name'], len(got)))
        extra = sum(len(v) for v in res.values()) - sum(1 for b in blocks for v in res.get(b['file'], []) if tuple(v['start']) == (b['line'], b['col']))
        if any(b['same_line'] for b in blocks):
            out['cover']['two AI blocks on one line'] = 1
        if extra:
            viol(I, True, 'stray-diagnostic', '%d diagnostics on blocks without check-ai' % extra)
        out['cover']['decided'] = out['cover'].get('decided', 0) + 1
        if len(blocks) >= 2:
            out['cover']['two or more AI blocks'] = 1
        if task.get('sample') and len(out['samples']) < 1:
            # a witness the tag syntax can carry: no `"` / line break inside the double-quoted condition
            nice = zand([z3.And(x != 34, x != 10) for b in blocks for x in b['cond'] if not isinstance(x, int)])
            if not I.check(nice):
                continue
            m = I.solver.model()
            w = witness(m)
            w['diagnostics'] = {k.decode(): len(v) for k, v in res.items()}
            out['samples'].append(w)
    out.update(Agg(PROP, 'x').stats_from(stats))
    return out


def as_b(I, v):
    return as_sstr(I, v).b


def ai_message(prog, I, d):
    """ai_message of the CheckAiViolation payload kept by the serde_json::to_value model."""
    if not (isinstance(d, Enum) and d.name == 'Option' and d.v == 1):
        return None
    j = d.f[0]
    while isinstance(j, Enum) and j.name == 'Result':
        j = j.f[0]
    if isinstance(j, Opaque) and j.tag == 'json':
        s = j.data
        idx = field_index(prog, 'CheckAiViolation', 'ai_message')
        v = s.f[idx]
        if isinstance(v, Enum) and v.name == 'Option':
            if v.v == 0:
                return None
            v = v.f[0]
        return as_sstr(I, v).b
    return None


# ------------------------------------------------------------------ real binary with a local fake endpoint

class FakeEndpoint:
    """Loopback chat-completions endpoint: replies per block (matched on the condition in the user
    message), `default` for everything else.  Use as a context manager; .port, .requests."""

    def __init__(self, blocks, default=('err',), slow_ok=0.0):
        import http.server
        import socketserver
        import time as _time
        reqs = self.requests = []

        class H(http.server.BaseHTTPRequestHandler):
            def log_message(self, *a):
                pass

            def do_POST(self):
                n = int(self.headers.get('content-length', '0'))
                body = self.rfile.read(n)
                try:
                    js = json.loads(body)
                except ValueError:
                    js = None
                reqs.append(dict(path=self.path, auth=self.headers.get('authorization'), body=js))
                user = ''
                if js:
                    for m in js.get('messages', []):
                        if m.get('role') == 'user':
                            user = m.get('content')
                spec = tuple(default)
                for b in blocks:
                    if isinstance(user, str) and user.startswith('CONDITION:\n' + b['cond'] + '\n\n'):
                        spec = tuple(b['reply'])
                if spec[0] != 'err' and slow_ok:
                    _time.sleep(slow_ok)        # faults come back at once, healthy replies take their time
                if spec[0] == 'err' and len(spec) > 1 and spec[1] == 1:
                    # transport fault: the connection is closed without an answer
                    try:
                        self.connection.shutdown(2)
                    except OSError:
                        pass
                    self.close_connection = True
                    return
                if spec[0] == 'err' and len(spec) > 1 and spec[1] == 2:
                    self.send_response(200)
                    out = b'not json'
                elif spec[0] == 'err':
                    self.send_response(400)
                    out = b'{"error": {"message": "bad", "type": "invalid_request_error", "param": null, "code": null}}'
                elif spec[0] == 'nochoices':
                    self.send_response(200)
                    out = json.dumps(dict(id='x', object='chat.completion', created=1, model='m', choices=[])).encode()
                else:
                    content = None if spec[0] == 'null' else spec[1]
                    self.send_response(200)
                    out = json.dumps(dict(id='x', object='chat.completion', created=1, model='m',
                                          choices=[dict(index=0, finish_reason='stop', message=dict(role='assistant', content=content))])).encode()
                self.send_header('content-type', 'application/json')
                self.send_header('content-length', str(len(out)))
                self.end_headers()
                self.wfile.write(out)

        class TS(socketserver.ThreadingMixIn, socketserver.TCPServer):
            allow_reuse_address = True
            daemon_threads = True
            request_queue_size = 128
        self.srv = TS(('127.0.0.1', 0), H)
        self.port = self.srv.server_address[1]

    def __enter__(self):
        threading.Thread(target=self.srv.serve_forever, daemon=True).start()
        return self

    def __exit__(self, *a):
        self.srv.shutdown()
        self.srv.server_close()


def run_real(binary, w):
    """Runs the real binary on the witness with a loopback fake endpoint; returns dict(code, diags, requests)."""
    ep = FakeEndpoint(w['blocks'], slow_ok=w.get('slow_ok', 0.0))
    ep.__enter__()
    reqs = ep.requests
    port = ep.port
    d = scratch_dir('c19')
    written = {}
    try:
        git_init(d)
        # real files: python comments around the content, attributes written as tag attributes
        for fname, _src in w['files'].items():
            lines = []
            fb = blocks_of(w, fname)
            same = set(w.get('same_line') or [])
            for k, b in enumerate(fb):
                glued = b.get('name') in same or (k + 1 < len(fb) and fb[k + 1].get('name') in same)
                if glued and '\n' not in b['raw']:
                    one = '%s %s <!-- </block> -->' % (b['tagline'], b['raw'])
                    if b.get('name') in same and lines:
                        lines[-1] += ' ' + one      # the start tag shares the line of the previous block's start tag
                    else:
                        lines.append(one)
                    continue
                lines.append(b['tagline'])
                lines.append(b['raw'])
                lines.append('<!-- </block> -->')
            open(os.path.join(d, real_name(fname)), 'wb').write(('\n'.join(lines) + '\n').encode('latin1'))
            written[real_name(fname)] = ('\n'.join(lines) + '\n').encode('latin1')
        env = {'BLOCKWATCH_AI_API_URL': 'http://127.0.0.1:%d/v1' % port}
        if w['env'].get('BLOCKWATCH_AI_API_KEY') is not None:
            env['BLOCKWATCH_AI_API_KEY'] = w['env']['BLOCKWATCH_AI_API_KEY']
        if w['env'].get('BLOCKWATCH_AI_MODEL') is not None:
            env['BLOCKWATCH_AI_MODEL'] = w['env']['BLOCKWATCH_AI_MODEL']
        if w['env'].get('OPENAI_API_KEY') is not None:
            env['OPENAI_API_KEY'] = w['env']['OPENAI_API_KEY']
        r = run_blockwatch(binary, d, ['**'], stdin=b'', env_extra=env, timeout=60)
    finally:
        ep.__exit__()
        shutil.rmtree(d, ignore_errors=True)
    diags = None
    if r['stderr'].strip().startswith('{'):
        try:
            diags = json.loads(r['stderr'])
        except ValueError:
            pass
    return dict(code=r['code'], diags=diags, stderr=r['stderr'][-300:], requests=reqs, written=written)


def real_name(fname):
    """Markdown hosts the replay: its text is inert (quotes, backslashes and braces of the content would
    open string literals in a programming language)."""
    return fname.replace('.py', '.md')


def blocks_of(w, fname):
    return [b for b in w['real_blocks'] if b['file'] == fname]


def realise(w):
    """Tag lines and raw content for the real files; False if the witness cannot be written as a tag
    (the attribute value must survive the tag grammar: no `"` and no newline in a double-quoted value)."""
    rb = []
    for path, src in w['files'].items():
        segs = src.split('#S\n')[1:]
        k = 0
        for seg in segs:
            raw = seg.split('\n#E\n')[0]
            rb.append(dict(file=path, raw=raw))
    ai = {b['name']: b for b in w['blocks']}
    names = sorted(set(n for n in ai))
    # blocks are laid out in the order of w['all_names']
    out = []
    for i, nm in enumerate(w['all_names']):
        b = ai.get(nm)
        ent = rb[i]
        ent['name'] = nm
        if b:
            if '"' in b['cond'] or '\n' in b['cond']:
                return False
            pat = ''
            if b.get('pattern'):
                pat = " check-ai-pattern='%s'" % c18.PATTERNS[b['pattern']].decode()
            ent['tagline'] = '<!-- <block name="%s" check-ai="%s"%s> -->' % (nm, b['cond'], pat)
        else:
            ent['tagline'] = '<!-- <block name="%s"> -->' % nm
        out.append(ent)
    w['real_blocks'] = out
    return True


def expected_real(w):
    """(exit code, {file: n diagnostics}, n requests) the property demands for the witness."""
    blocks = w['blocks']
    key = w['env'].get('BLOCKWATCH_AI_API_KEY')
    if blocks and (not key or any(b['reply'][0] != 'text' for b in blocks)):
        return dict(fail=True)
    diags = {}
    for b in blocks:
        if b['reply'][1].lower() not in ('ok', 'ok.'):
            diags[real_name(b['file'])] = diags.get(real_name(b['file']), 0) + 1
    return dict(fail=False, diags=diags, requests=len(blocks))


def check_real(binary, w):
    if not realise(w):
        return None
    obs = run_real(binary, w)
    exp = expected_real(w)
    if exp['fail']:
        ok = obs['code'] != 0 and obs['diags'] is None
    else:
        got = {k: len(v) for k, v in (obs['diags'] or {}).items()}
        ok = got == exp['diags'] and len(obs['requests']) == exp['requests'] and obs['code'] == (1 if exp['diags'] else 0) \
            and diag_ranges_on_tags(obs.get('written') or {}, obs['diags'])
        if ok:
            want_model = w['env'].get('BLOCKWATCH_AI_MODEL') or DEFAULT_MODEL.decode()
            want_auth = 'Bearer ' + (w['env'].get('BLOCKWATCH_AI_API_KEY') or '')
            for r in obs['requests']:
                if not r['body'] or r['body'].get('model') != want_model or r.get('auth') != want_auth \
                        or not r['path'].endswith('/chat/completions'):
                    ok = False
        if ok:
            # verbatim transport, end to end (JSON escaping included)
            for b in w['blocks']:
                want = 'CONDITION:\n%s\n\nBLOCK (formatting preserved):\n%s' % (b['cond'], b['content'])
                users = [m.get('content') for r in obs['requests'] if r['body'] for m in r['body'].get('messages', []) if m.get('role') == 'user']
                if want.encode('latin1').decode('utf-8', 'replace') not in users and want not in users:
                    ok = False
    return dict(ok=ok, observed=dict(code=obs['code'], diags=obs['diags'], stderr=obs['stderr'], nreq=len(obs['requests'])), expected=exp)


def B(ai=True, pattern=None, lead=0, core=2, trail=0, cond_len=1, reply=('text', 2), pre=1, same_line=False):
    d = dict(ai=ai, pattern=pattern, lead=lead, core=core, trail=trail, cond_len=cond_len, reply=reply, pre=pre)
    if same_line:
        d['same_line'] = True         # the start tag sits on the line of the previous block's start tag, further right
    return d


def tasks_for(tier):
    T = []
    replies = [('text', 2), ('text', 3), ('text', 1), ('text', 4), ('err', 0), ('nochoices', 0), ('null', 0)]
    # one block: every reply kind; key present / missing; env overrides
    for r in replies:
        T.append(dict(files=[[B(reply=r, lead=1, trail=1)]], key=True, model_env=False, url_env=False))
    T.append(dict(files=[[B()]], key=False, model_env=False, url_env=False))
    T.append(dict(files=[[B()]], key=False, key_unset=False, model_env=False, url_env=False))
    T.append(dict(files=[[B()]], key=False, foreign_key=True, model_env=False, url_env=True))
    T.append(dict(files=[[B()]], key=True, foreign_key=True, model_env=False, url_env=False))
    T.append(dict(files=[[B(cond_len=2, core=3)]], key=True, model_env=True, url_env=True))
    # content selection: pattern forms (value group, whole match, match reaching the edges, no match) and blank content
    for pat in ('group', 'plain'):
        for core in (0, 1, 2):
            T.append(dict(files=[[B(pattern=pat, core=core, lead=1, trail=1, reply=('text', 2))]], key=True, model_env=False, url_env=False))
    for core in (0, 1, 2):      # a `value` group that does not always take part: the whole match is the extract then
        T.append(dict(files=[[B(pattern='optgroup', core=core, lead=1, trail=1, reply=('text', 2))]], key=True, model_env=False, url_env=False))
    for lead, trail in ((1, 0), (0, 1), (2, 1)):
        T.append(dict(files=[[B(pattern='edge', core=1, lead=lead, trail=trail, reply=('text', 2))]], key=True, model_env=False, url_env=False))
    T.append(dict(files=[[B(core=0, lead=2, reply=('text', 2))]], key=True, model_env=False, url_env=False))
    T.append(dict(files=[[B(core=0, lead=1, reply=('err', 0))]], key=True, model_env=False, url_env=False))
    # two blocks whose start tags share a line (two one-line comments side by side): still two verdicts
    for rs in ((('text', 3), ('text', 3)), (('text', 2), ('text', 3)), (('text', 3), ('err', 0))):
        T.append(dict(files=[[B(reply=rs[0]), B(reply=rs[1], same_line=True)]], key=True, model_env=False, url_env=False))
    # the three kinds of fault (4xx with an error object, transport failure, a body that is not a completion),
    # also on a block whose own severity is below error: a fault is never a diagnostic of the block
    for k in (1, 2):
        T.append(dict(files=[[B(reply=('err', k), lead=1, trail=1)]], key=True, model_env=False, url_env=False))
        T.append(dict(files=[[B(reply=('text', 2)), B(reply=('err', k))]], key=True, model_env=False, url_env=False))
    # two and three blocks, one or two files, a non-AI block in between; faults on each position
    for rs in itertools.product([('text', 2), ('text', 3), ('err', 0), ('null', 0)], repeat=2):
        T.append(dict(files=[[B(reply=rs[0]), B(ai=False), B(reply=rs[1])]], key=True, model_env=False, url_env=False))
        T.append(dict(files=[[B(reply=rs[0])], [B(reply=rs[1], lead=1)]], key=True, model_env=True, url_env=False))
    for pos in range(3):
        for fault in (('err', 0), ('nochoices', 0), ('null', 0)):
            rs = [('text', 2)] * 3
            rs[pos] = fault
            T.append(dict(files=[[B(reply=rs[0]), B(reply=rs[1])], [B(reply=rs[2])]], key=True, model_env=False, url_env=False))
    T.append(dict(files=[[B(reply=('text', 2)), B(reply=('text', 3))], [B(reply=('text', 2))]], key=True, model_env=False, url_env=True))
    # many blocks (more than any plausible in-flight limit), a fault on the first / a middle / the last one,
    # two fixed completion orders (oldest first, newest first)
    for n, bad in ((10, 0), (10, 9), (12, 5)):
        for order in ('first', 'last'):
            blocks = [B(reply=('lit', 'OK' if i % 2 else 'no'), cond_len=0) for i in range(n)]
            blocks[bad] = B(reply=('err', 0), cond_len=0)
            T.append(dict(files=[blocks], key=True, model_env=False, url_env=False, order=order))
    T.append(dict(files=[[B(reply=('lit', 'OK' if i % 3 else 'bad'), cond_len=0) for i in range(10)]], key=True, model_env=False, url_env=False, order='first'))
    if tier == 'thorough':
        for rs in itertools.product([('text', 2), ('text', 3), ('err', 0)], repeat=3):
            T.append(dict(files=[[B(reply=rs[0], core=3, cond_len=2), B(reply=rs[1], trail=2)], [B(ai=False), B(reply=rs[2], lead=2)]], key=True, model_env=True, url_env=True))
        for n in (4,):
            T.append(dict(files=[[B(reply=('text', 2)) for _ in range(n)]], key=True, model_env=False, url_env=False))
            T.append(dict(files=[[B(reply=('text', 2)) for _ in range(n - 1)] + [B(reply=('err', 0))]], key=True, model_env=False, url_env=False))
    for i, t in enumerate(T):
        t['sample'] = True
    return T


BOUNDS = {'quick': dict(validate=12), 'thorough': dict(validate=40)}


def main(tier):
    agg = Agg(PROP, tier)
    binary = driver.real_binary()
    rnd = random.Random(seed())
    tasks = tasks_for(tier)
    results = pmap(run_task, tasks)
    for r in results:
        agg.add(r)
    by_role = {}
    for v in agg.violations:
        by_role.setdefault(v['role'], []).append(v)
    final = []
    for role, vs in sorted(by_role.items()):
        got = None
        for i, v in enumerate(vs[:6]):
            w = v['witness']
            w['all_names'] = all_names(v['task'])
            r = check_real(binary, w)
            v['confirmed'] = bool(r is not None and not r['ok'])
            if r is not None:
                v['observed'] = r['observed']
                v['expected'] = r['expected']
            if v['confirmed']:
                files = {}
                for fname in sorted(set(b['file'] for b in w['real_blocks'])):
                    lines = []
                    for b in blocks_of(w, fname):
                        lines += [b['tagline'], b['raw'], '<!-- </block> -->']
                    files[real_name(fname)] = ('\n'.join(lines) + '\n').encode('latin1')
                v['replay'] = save_replay(PROP, '%s-%d' % (role, i), files, "'**'",
                                          'needs a fake endpoint (see violation.json: replies per block) and env %s; expected %s; %s'
                                          % (w['env'], r['expected'], v['summary']), v)
                shutil.copy(os.path.join(driver.VERIF, 'tools', 'fake_ai_endpoint.py'), os.path.join(v['replay'], 'fake_ai_endpoint.py'))
                open(os.path.join(v['replay'], 'replay.sh'), 'w').write(
                    '#!/bin/sh\n# %s\ncd "$(dirname "$0")" && python3 fake_ai_endpoint.py "${BLOCKWATCH:-blockwatch}"\n' % v['summary'].replace('\n', ' '))
                got = v
                break
        final.append(got or vs[0])
    agg.violations = final
    samples = [(s, t) for r, t in zip(results, tasks) for s in r.get('samples', [])]
    rnd.shuffle(samples)
    for s, t in samples[:BOUNDS[tier]['validate']]:
        s['all_names'] = all_names(t)
        r = check_real(binary, s)
        if r is None:
            continue
        if r['ok']:
            agg.validated += 1
        else:
            msg = 'real %s vs expected %s on %s' % (r['observed'], r['expected'], json.dumps(s)[:400])
            agg.validation_failures.append(msg)
            agg.engine_errors.append({'engine_error': 'translator validation: ' + msg})
    bounds = dict(tasks=len(tasks), blocks='1..3 check-ai blocks (4 thorough) over 1..2 files, optional plain block between, every completion order; plus 10-12 blocks with one fault under two fixed completion orders',
                  symbolic='condition 2-3 bytes over [x space " \\ LF] after a tag letter; content 0-3 bytes over [y space dquote squote backslash] with 0-2 blanks (space, tab, LF) around; reply text 1-4 bytes over [OoKk.x space]; model 2 bytes; URL suffix 1 byte; key 2 bytes',
                  completion_orders='all (task order is a forked choice at every join)')
    return finish(
        agg, bounds,
        assumptions=['async-openai is a contract stub: builders keep what they are given, chat().create() returns exactly one of {Ok(body), Err}; every transport/status/decoding fault of the property\'s list is Err(OpenAIError) at that API (the HTTP and JSON layers are exercised only by the per-run validation against the real binary with a loopback endpoint)',
                     'tokio: a spawned task runs to completion when the JoinSet is polled; the order of completion is a forked choice (all orders); interleaving inside tasks, worker threads, timing are outside',
                     'three regex forms for check-ai-pattern (reference matcher mirsym/rexmodel.py)',
                     'format! text is rendered from the compact fmt template of the MIR (literal pieces + Display of strings)'],
        stubs=['async_openai::{Client, config::OpenAIConfig, Chat, *Args builders}', 'tokio::{JoinSet, Runtime}', 'std::env::var', 'secrecy::ExposeSecret'],
        must_cover=['two AI blocks on one line', 'decided', 'fault', 'two or more AI blocks'],
        explanation='requests recorded by the create() stub and the diagnostics of validators::run compared with the reference per block; PC∧(request≠verbatim), PC∧(verdict≠reference) asked on every path and every completion order')


def all_names(task):
    out = []
    for fi, fblocks in enumerate(task['files']):
        for bi, _b in enumerate(fblocks):
            out.append('f%db%d' % (fi, bi))
    return out


if __name__ == '__main__':
    sys.exit(main(sys.argv[1] if len(sys.argv) > 1 else 'quick'))
