"""Shared pieces for the validator harnesses (C06-C10, C13, C11): building a
ValidationContext from symbolic text, decoding results, materialising real files."""
import json
import os
import shutil

import z3

from .common import *  # noqa
from mirsym.models import reg, new_string
from mirsym import strmodels


# serde_json::to_value(struct) -> Ok(json(struct)): the struct is kept so that `data`
# payloads can be inspected field by field.
@reg('serde_json::to_value', 'to_value')
def _to_value(I, a, ci, dt):
    v = a[0]
    while isinstance(v, Ref):        # serialisation reads the value now: snapshot it
        v = I.load(v)
    return Ok(Opaque('json', v))


def _json_payload(I, v):
    while isinstance(v, Ref):
        v = I.load(v)
    if isinstance(v, Opaque) and v.tag == 'json':
        p = v.data
        while isinstance(p, Ref):
            p = I.load(p)
        return p
    return None


# serde_json::Value indexed by a field name: the field of the struct that was serialised (serde's
# derive writes a struct as an object keyed by its field names; renames are not used in this crate).
# A missing key yields Value::Null, as in serde_json.
@reg('<Value as Index>::index')
def _json_index(I, a, ci, dt):
    from mirsym.models import as_sstr
    p = _json_payload(I, a[0])
    try:
        key = bytes(as_sstr(I, a[1]).b).decode()
    except Exception:
        raise Unmodelled('serde_json::Value indexed by a non-string')
    if isinstance(p, Struct) and p.name in I.prog.src.structs:
        order = I.prog.src.structs[p.name]
        if key in order:
            return Ref(Cell(Opaque('json', p.f[order.index(key)])), ())
    return Ref(Cell(Opaque('json', None)), ())


@reg('Value::as_u64', 'Value::as_i64')
def _json_as_u64(I, a, ci, dt):
    p = _json_payload(I, a[0])
    if (isinstance(p, int) and not isinstance(p, bool)) or is_sym(p):
        return Some(p)
    return NONE


@reg('Value::as_str')
def _json_as_str(I, a, ci, dt):
    from mirsym.models import as_sstr
    p = _json_payload(I, a[0])
    if isinstance(p, (SStr, SString)):
        return Some(as_sstr(I, p))
    return NONE


@reg('Value::is_null')
def _json_is_null(I, a, ci, dt):
    return _json_payload(I, a[0]) is None


def S(I, b):
    if isinstance(b, str):
        b = b.encode()
    return new_string(I, tuple(b))


def attrs(I, d):
    """dict name -> bytes/tuple  ->  HashMap<String,String> value."""
    ents = []
    for k, v in d.items():
        vv = v if isinstance(v, SString) else S(I, v)
        ents.append(Tuple(S(I, k), vv))
    return MapVal(ents, 'HashMap')


def mk_block(prog, I, attributes, tag_start, tag_end, content_bytes, content_start, content_end):
    return mk_struct(
        prog, 'Block',
        attributes=attrs(I, attributes),
        start_tag_position_range=Struct('RangeInclusive', (position(prog, *tag_start), position(prog, *tag_end), False)),
        content_bytes_range=Struct('Range', tuple(content_bytes)),
        content_position_range=Struct('Range', (position(prog, *content_start), position(prog, *content_end))))


def mk_bwc(prog, block, content_modified=False, tag_modified=False):
    return mk_struct(prog, 'BlockWithContext', block=block, _is_start_tag_modified=tag_modified,
                     is_content_modified=content_modified)


def mk_context(prog, I, files):
    """files: list of (path bytes, file content bytes(tuple), [BlockWithContext])"""
    ents = []
    for path, content, bwcs in files:
        fb = mk_struct(prog, 'FileBlocks', file_content=SString(tuple(content), I.new_alloc()),
                       blocks_with_context=VecVal(bwcs))
        ents.append(Tuple(S(I, path), fb))
    ctx = mk_struct(prog, 'ValidationContext', blocks=MapVal(ents, 'HashMap'))
    return Ref(Cell(ctx), ())      # Arc<ValidationContext>


def validator_fn(prog, type_name):
    f = prog.find_method(type_name, 'validate', 'ValidatorSync')
    if f is None:
        raise EngineError('%s::validate (ValidatorSync) not found' % type_name)
    return f


def run_validator(I, prog, type_name, ctx):
    f = validator_fn(prog, type_name)
    this = Ref(Cell(Struct(type_name, ())), ())
    return I.call_fn(f, [this, ctx])


def decode_violations(prog, res):
    """Result<HashMap<PathBuf, Vec<Violation>>> -> ('err', payload) | ('ok', {path bytes: [dict]})"""
    if res.v == 1:
        return 'err', res.f[0]
    out = {}
    for e in res.f[0].entries:
        path = e.f[0].b
        if all(isinstance(x, int) for x in path):
            path = bytes(path)
        vs = []
        for v in e.f[1].items:
            rng = get_field(prog, v, 'Violation', 'range')
            st = get_field(prog, rng, 'ViolationRange', 'start')
            en = get_field(prog, rng, 'ViolationRange', 'end')
            vs.append(dict(
                start=(get_field(prog, st, 'Position', 'line'), get_field(prog, st, 'Position', 'character')),
                end=(get_field(prog, en, 'Position', 'line'), get_field(prog, en, 'Position', 'character')),
                code=get_field(prog, v, 'Violation', 'code').b,
                severity=get_field(prog, v, 'Violation', 'severity'),
                data=get_field(prog, v, 'Violation', 'data')))
        out[path] = vs
    return 'ok', out


def model_bytes(m, bs):
    return bytes(mval(m, b) for b in bs)


# ------------------------------------------------------------------ byte class formulas

def f_in(b, vals):
    if isinstance(b, int):
        return z3.BoolVal(b in vals)
    return z3.Or(*[b == v for v in vals])


def f_ws(b):
    return f_in(b, strmodels.WS_ASCII)


def f_digit(b):
    if isinstance(b, int):
        return z3.BoolVal(48 <= b <= 57)
    return z3.And(b >= 48, b <= 57)


def zand(xs):
    xs = list(xs)
    if not xs:
        return z3.BoolVal(True)
    return z3.And(*xs) if len(xs) > 1 else xs[0]


def zor(xs):
    xs = list(xs)
    if not xs:
        return z3.BoolVal(False)
    return z3.Or(*xs) if len(xs) > 1 else xs[0]


def zsum(xs):
    xs = list(xs)
    if not xs:
        return z3.IntVal(0)
    return z3.Sum(*xs) if len(xs) > 1 else xs[0]


# ------------------------------------------------------------------ real runs

def run_scan(binary, files, globs, env_extra=None, extra_args=()):
    """Run the real binary in scan mode over `files` {name: bytes}; returns dict(code, diags, stderr)."""
    d = scratch_dir('scan')
    try:
        git_init(d)
        for name, content in files.items():
            p = os.path.join(d, name)
            os.makedirs(os.path.dirname(p), exist_ok=True)
            with open(p, 'wb') as f:
                f.write(content)
        r = run_blockwatch(binary, d, list(extra_args) + list(globs), stdin=b'', env_extra=env_extra)
    finally:
        shutil.rmtree(d, ignore_errors=True)
    diags = None
    if r['stderr'].strip().startswith('{'):
        try:
            diags = json.loads(r['stderr'])
        except ValueError:
            diags = None
    return dict(code=r['code'], diags=diags, stderr=r['stderr'][-600:], stdout=r['stdout'][-600:])


def save_replay(prop, name, files, cmdline, note, violation, stdin_file=None):
    import re as _re
    name = _re.sub(r'[^A-Za-z0-9_.-]+', '_', name)      # the path is printed on the VIOLATION line: no blanks
    rd = replay_dir(prop, name)
    git_init(rd)
    for fname, content in files.items():
        p = os.path.join(rd, fname)
        os.makedirs(os.path.dirname(p), exist_ok=True)
        with open(p, 'wb') as f:
            f.write(content)
    open(os.path.join(rd, 'violation.json'), 'w').write(json.dumps(violation, indent=1, default=str))
    redir = (' < %s' % stdin_file) if stdin_file else ' < /dev/null'
    open(os.path.join(rd, 'replay.sh'), 'w').write(
        '#!/bin/sh\n# %s\ncd "$(dirname "$0")" && "${BLOCKWATCH:-blockwatch}" %s%s\n' % (note.replace('\n', ' '), cmdline, redir))
    os.chmod(os.path.join(rd, 'replay.sh'), 0o755)
    return rd


def tag_ranges(content):
    """{((line, col), (line, col))} of every `<block ...>` start tag in a file: 1-based line and byte column of
    its `<` and of its `>` (reference for "the range spans exactly the start tag")."""
    import re as _re
    text = content.decode('latin1') if isinstance(content, bytes) else content
    out = set()

    def pos(off):
        return (text.count('\n', 0, off) + 1, off - (text.rfind('\n', 0, off) + 1) + 1)
    # attribute values may be quoted and then hold `>` (a regex with a named group): skip them as a whole
    for m in _re.finditer(r'''<block(?:\s+[\w-]+(?:\s*=\s*(?:"[^"]*"|'[^']*'|[\w-]+))?)*\s*>''', text):
        out.add((pos(m.start()), pos(m.end() - 1)))
    return out


def diag_ranges_on_tags(files, diags):
    """Every diagnostic of `diags` ({file: [diagnostic JSON]}) spans one start tag of its file."""
    for fname, ds in (diags or {}).items():
        content = files.get(fname)
        if content is None:
            return False
        ok = tag_ranges(content)
        for d in ds:
            r = d.get('range') or {}
            try:
                got = ((r['start']['line'], r['start']['character']), (r['end']['line'], r['end']['character']))
            except (KeyError, TypeError):
                return False
            if got not in ok:
                return False
    return True
