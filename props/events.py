"""Comment/tag-event harness shared by C03 and C12: comments with symbolic geometry and a
concrete sequence of tag events, run through the crate's own pairing code
(parse_blocks_from_comments, PartialBlocksIterator::next, BlockStart::new,
source_position_at, BlockEnd::into_block).
"""
import z3

from .common import *  # noqa
from .vharness import *  # noqa
from mirsym.models import new_string, ListIter, as_sstr

NUM_MAX = 1 << 32

# comment templates: items are 'S' (start tag), 'E' (end tag), 'n' (newline), 't' (filler text)
TEMPLATES = {
    'S': ['S'], 'E': ['E'], 'SE': ['S', 'E'], 'nS': ['n', 'S'], 'Snt': ['S', 'n', 't'], 'ES': ['E', 'S'],
    'SS': ['S', 'S'], 'EE': ['E', 'E'], 'nE': ['n', 'E'], 'tnSnE': ['t', 'n', 'S', 'n', 'E'], 't': ['t'],
    'SnS': ['S', 'n', 'S'], 'EnE': ['E', 'n', 'E'],
    # end tag written with inner whitespace (`</ block >`), which the tag grammar accepts
    'W': ['W'], 'SW': ['S', 'W'], 'nW': ['n', 'W'],
}


class CommentSpec:
    """Concrete text + events of one comment built from a template."""

    def __init__(self, tmpl, first_name_idx):
        self.tmpl = tmpl
        text = '  '
        self.events = []        # (kind, offset, length, name)
        k = first_name_idx
        for it in TEMPLATES[tmpl]:
            if it == 'S':
                tag = '<block name="b%d">' % k
                self.events.append(('S', len(text), len(tag), 'b%d' % k))
                text += tag + ' '
                k += 1
            elif it in ('E', 'W'):
                tag = '</block>' if it == 'E' else '</ block >'
                self.events.append(('E', len(text), len(tag), None))
                text += tag + ' '
            elif it == 'n':
                text += '\n   '
            else:
                text += 'words '
        text += '  '
        self.text = text
        self.next_name_idx = k


def build_comments(I, prog, tmpls, tag='c'):
    """-> (list of Comment structs, list of dict geometry with symbolic ints, specs)"""
    comments = []
    geo = []
    specs = []
    k = 0
    prev = None
    for i, t in enumerate(tmpls):
        sp = CommentSpec(t, k)
        k = sp.next_name_idx
        specs.append(sp)
        sl = I.fresh_int('%s%d_sl' % (tag, i), 1, NUM_MAX)
        sc = I.fresh_int('%s%d_sc' % (tag, i), 1, NUM_MAX)
        so = I.fresh_int('%s%d_so' % (tag, i), 0, NUM_MAX)
        nl = sp.text.count('\n')
        el = sl + nl
        if nl == 0:
            ec = sc + len(sp.text)
        else:
            ec = len(sp.text) - sp.text.rfind('\n')        # 1-based column after the last char
        eo = so + len(sp.text)
        if prev is not None:
            I.add(so >= prev['eo'])
            I.add(z3.Or(sl > prev['el'], z3.And(sl == prev['el'], sc >= prev['ec'])))
        g = dict(sl=sl, sc=sc, so=so, el=el, ec=ec, eo=eo)
        prev = g
        geo.append(g)
        comments.append(mk_struct(
            prog, 'Comment',
            position_range=Struct('Range', (position(prog, sl, sc), position(prog, el, ec))),
            source_range=Struct('Range', (so, eo)),
            comment_text=new_string(I, sp.text.encode())))
    return comments, geo, specs


def install_event_parser(I, prog, specs):
    """WinnowBlockTagParser::next stub driven by the specs' event lists (matched by text)."""
    by_text = {sp.text: sp for sp in specs}

    def nxt(I2, a, ci, dt):
        r = a[0]
        tp = I2.load(r)
        src_i = field_index(prog, 'WinnowBlockTagParser', 'source')
        cur_i = field_index(prog, 'WinnowBlockTagParser', 'cursor')
        text = bytes(as_sstr(I2, tp.f[src_i]).b).decode('latin1')
        cursor = I2.concretize(tp.f[cur_i])
        sp = by_text.get(text)
        if sp is None:
            raise EngineError('tag parser stub: unknown comment text %r' % text)
        for (kind, off, ln, name) in sp.events:
            if off >= cursor:
                I2.store(Ref(r.cell, r.path + (cur_i,)), off + ln)
                if kind == 'S':
                    vi = prog.variant_index('BlockTag', 'Start')
                    fields = prog.src.enums['BlockTag'][vi][2]
                    vals = {'tag_range': Struct('Range', (off, off + ln)),
                            'attributes': MapVal([Tuple(new_string(I2, b'name'), new_string(I2, name.encode()))], 'HashMap')}
                    return Ok(Some(Enum('BlockTag', vi, 'Start', [vals[f] for f in fields])))
                vi = prog.variant_index('BlockTag', 'End')
                return Ok(Some(Enum('BlockTag', vi, 'End', [off])))
        I2.store(Ref(r.cell, r.path + (cur_i,)), len(text))
        return Ok(NONE)

    I.stubs['<WinnowBlockTagParser as BlockTagParser>::next'] = nxt
    I.stubs['BlockTagParser::next'] = nxt


def reference_pairing(specs, geo):
    """Independent reference: stack pairing of the event sequence.
    Returns ('err', why) or ('ok', [expected block dicts with z3 expressions])."""
    stack = []
    blocks = []
    for ci, sp in enumerate(specs):
        for (kind, off, ln, name) in sp.events:
            if kind == 'S':
                stack.append((ci, off, ln, name))
            else:
                if not stack:
                    return 'err', 'end tag with no open block'
                sci, soff, sln, sname = stack.pop()
                blocks.append(dict(name=sname, start_comment=sci, start_off=soff, start_len=sln, end_comment=ci))
    if stack:
        return 'err', 'start tag never closed'
    out = []
    for b in blocks:
        g = geo[b['start_comment']]
        ge = geo[b['end_comment']]
        text = specs[b['start_comment']].text

        def pos_at(off):
            nl = text.count('\n', 0, off)
            if nl == 0:
                return (g['sl'], g['sc'] + off)
            return (g['sl'] + nl, off - text.rfind('\n', 0, off))
        lt = pos_at(b['start_off'])
        gt = pos_at(b['start_off'] + b['start_len'] - 1)
        same = b['start_comment'] == b['end_comment']
        out.append(dict(name=b['name'], lt=lt, gt=gt,
                        content_bytes=(0, 0) if same else (g['eo'], ge['so']),
                        content_start=(g['el'], g['ec']), content_end=(ge['sl'], ge['sc'])))
    return 'ok', out


def block_fields(prog, b):
    rng = get_field(prog, b, 'Block', 'start_tag_position_range')
    st, en = rng.f[0], rng.f[1]
    cbr = get_field(prog, b, 'Block', 'content_bytes_range')
    cpr = get_field(prog, b, 'Block', 'content_position_range')
    attrs = get_field(prog, b, 'Block', 'attributes')
    name = None
    for e in attrs.entries:
        if bytes(e.f[0].b) == b'name':
            name = bytes(e.f[1].b).decode()

    def P(p):
        return (get_field(prog, p, 'Position', 'line'), get_field(prog, p, 'Position', 'character'))
    return dict(name=name, lt=P(st), gt=P(en), content_bytes=(cbr.f[0], cbr.f[1]),
                content_start=P(cpr.f[0]), content_end=P(cpr.f[1]))
