"""Comment/tag-event harness shared by C03 and C12: comments with symbolic geometry and a
concrete sequence of tag events, run through the crate's own pairing code
(parse_blocks_from_comments, PartialBlocksIterator::next, BlockStart::new,
source_position_at, BlockEnd::into_block).
"""
import z3

from .common import *  # noqa
from .vharness import *  # noqa
from mirsym.models import new_string, ListIter, as_sstr

NUM_MAX = 1 << 32

# comment templates: items are 'S' (start tag), 'E' (end tag), 'n' (newline), 't' (filler text)
TEMPLATES = {
    'S': ['S'], 'E': ['E'], 'SE': ['S', 'E'], 'nS': ['n', 'S'], 'Snt': ['S', 'n', 't'], 'ES': ['E', 'S'],
    'SS': ['S', 'S'], 'EE': ['E', 'E'], 'nE': ['n', 'E'], 'tnSnE': ['t', 'n', 'S', 'n', 'E'], 't': ['t'],
    'SnS': ['S', 'n', 'S'], 'EnE': ['E', 'n', 'E'],
    # end tag written with inner whitespace (`</ block >`), which the tag grammar accepts
    'W': ['W'], 'SW': ['S', 'W'], 'nW': ['n', 'W'],
    # tags on the third line of a comment, after other text
    'tntnS': ['t', 'n', 't', 'n', 'S'], 'SntnS': ['S', 'n', 't', 'n', 'S'], 'tntnE': ['t', 'n', 't', 'n', 'E'],
    # a bare tag as the very last bytes of a comment, directly after another tag; multi-byte text before a tag
    'XB$': ['X', 'B', '$'], 'B$': ['B', '$'], 'SX$': ['S', 'X', '$'], 'uS': ['u', 'S'], 'uE': ['u', 'E'],
    # a start tag that spans two lines, alone and followed by further tags in the same comment
    'M': ['M'], 'MS': ['M', 'S'], 'MnS': ['M', 'n', 'S'], 'ME': ['M', 'E'], 'tMS': ['t', 'M', 'S'],
    # ... and over three lines (one attribute per line)
    'L': ['L'], 'LS': ['L', 'S'], 'tL': ['t', 'L'],
    # a quoted attribute value that itself holds block-tag text: part of the tag, not tags of their own
    'Q': ['Q'], 'QE': ['Q', 'E'], 'QnS': ['Q', 'n', 'S'],
}


class CommentSpec:
    """Concrete text (bytes) + events of one comment built from a template.  Offsets are byte offsets."""

    def __init__(self, tmpl, first_name_idx):
        self.tmpl = tmpl
        text = b'  '
        self.events = []        # (kind, offset, length, name)
        k = first_name_idx
        pad_end = True
        for it in TEMPLATES[tmpl]:
            if it == 'S':
                tag = b'<block name="b%d">' % k
                self.events.append(('S', len(text), len(tag), 'b%d' % k))
                text += tag + b' '
                k += 1
            elif it == 'M':         # start tag with a line break between its attributes
                tag = b'<block name="b%d"\n   a="1">' % k
                self.events.append(('S', len(text), len(tag), 'b%d' % k))
                text += tag + b' '
                k += 1
            elif it == 'L':         # start tag over three lines
                tag = b'<block name="b%d"\n   a="1"\n     bb="22">' % k
                self.events.append(('S', len(text), len(tag), 'b%d' % k))
                text += tag + b' '
                k += 1
            elif it == 'Q':         # tag text inside a quoted value (the scanner must resume AFTER the tag)
                tag = b'<block name="b%d" p="</block><block>">' % k
                self.events.append(('S', len(text), len(tag), 'b%d' % k))
                text += tag + b' '
                k += 1
            elif it == 'B':         # bare start tag, nothing after it
                tag = b'<block>'
                self.events.append(('S', len(text), len(tag), None))
                text += tag
            elif it in ('E', 'W', 'X'):
                tag = {'E': b'</block>', 'W': b'</ block >', 'X': b'</block>'}[it]
                self.events.append(('E', len(text), len(tag), None))
                text += tag + (b'' if it == 'X' else b' ')
            elif it == 'n':
                text += b'\n   '
            elif it == 'u':         # multi-byte text before a tag
                text += '\u043a\u043b\u044e\u0447\u0438 \u65e5\u672c'.encode('utf-8')
            elif it == '$':
                pad_end = False
            else:
                text += b'words '
        if pad_end:
            text += b'  '
        self.text_bytes = text
        self.text = text.decode('utf-8')
        self.next_name_idx = k


def build_comments(I, prog, tmpls, tag='c'):
    """-> (list of Comment structs, list of dict geometry with symbolic ints, specs)"""
    comments = []
    geo = []
    specs = []
    k = 0
    prev = None
    for i, t in enumerate(tmpls):
        sp = CommentSpec(t, k)
        k = sp.next_name_idx
        specs.append(sp)
        sl = I.fresh_int('%s%d_sl' % (tag, i), 1, NUM_MAX)
        sc = I.fresh_int('%s%d_sc' % (tag, i), 1, NUM_MAX)
        so = I.fresh_int('%s%d_so' % (tag, i), 0, NUM_MAX)
        tb = sp.text_bytes
        nl = tb.count(b'\n')
        el = sl + nl
        if nl == 0:
            ec = sc + len(tb)
        else:
            ec = len(tb) - tb.rfind(b'\n')        # 1-based byte column after the last byte
        eo = so + len(tb)
        if prev is not None:
            I.add(so >= prev['eo'])
            I.add(z3.Or(sl > prev['el'], z3.And(sl == prev['el'], sc >= prev['ec'])))
        g = dict(sl=sl, sc=sc, so=so, el=el, ec=ec, eo=eo)
        prev = g
        geo.append(g)
        comments.append(mk_struct(
            prog, 'Comment',
            position_range=Struct('Range', (position(prog, sl, sc), position(prog, el, ec))),
            source_range=Struct('Range', (so, eo)),
            comment_text=new_string(I, sp.text_bytes)))
    return comments, geo, specs


def install_event_parser(I, prog, specs):
    """The crate's own tag scanner runs on the (concrete) comment text; only the winnow grammar
    entry points are replaced (see layout.install_tag_parser_stub)."""
    from .layout import install_tag_parser_stub
    install_tag_parser_stub(I, prog)


def reference_pairing(specs, geo):
    """Independent reference: stack pairing of the event sequence.
    Returns ('err', why) or ('ok', [expected block dicts with z3 expressions])."""
    stack = []
    blocks = []
    for ci, sp in enumerate(specs):
        for (kind, off, ln, name) in sp.events:
            if kind == 'S':
                stack.append((ci, off, ln, name))
            else:
                if not stack:
                    return 'err', 'end tag with no open block'
                sci, soff, sln, sname = stack.pop()
                blocks.append(dict(name=sname, start_comment=sci, start_off=soff, start_len=sln, end_comment=ci))
    if stack:
        return 'err', 'start tag never closed'
    out = []
    for b in blocks:
        g = geo[b['start_comment']]
        ge = geo[b['end_comment']]
        text = specs[b['start_comment']].text_bytes

        def pos_at(off):
            nl = text.count(b'\n', 0, off)
            if nl == 0:
                return (g['sl'], g['sc'] + off)
            return (g['sl'] + nl, off - text.rfind(b'\n', 0, off))
        lt = pos_at(b['start_off'])
        gt = pos_at(b['start_off'] + b['start_len'] - 1)
        same = b['start_comment'] == b['end_comment']
        out.append(dict(name=b['name'], order=(b['start_comment'], b['start_off']), lt=lt, gt=gt,
                        content_bytes=(0, 0) if same else (g['eo'], ge['so']),
                        content_start=(g['el'], g['ec']), content_end=(ge['sl'], ge['sc'])))
    return 'ok', out


def block_fields(prog, b):
    rng = get_field(prog, b, 'Block', 'start_tag_position_range')
    st, en = rng.f[0], rng.f[1]
    cbr = get_field(prog, b, 'Block', 'content_bytes_range')
    cpr = get_field(prog, b, 'Block', 'content_position_range')
    attrs = get_field(prog, b, 'Block', 'attributes')
    name = None
    for e in attrs.entries:
        if bytes(e.f[0].b) == b'name':
            name = bytes(e.f[1].b).decode()

    def P(p):
        return (get_field(prog, p, 'Position', 'line'), get_field(prog, p, 'Position', 'character'))
    return dict(name=name, lt=P(st), gt=P(en), content_bytes=(cbr.f[0], cbr.f[1]),
                content_start=P(cpr.f[0]), content_end=P(cpr.f[1]))
