"""C01 — drift detection: is_content_modified <=> the diff edits a line between the tags.

Encoded (real MIR): diff_parser::line_changes, fold_deleted_lines,
clear_or_fold_deleted_lines(+closure), Block::content_intersects_with_any(+closure),
Block::intersects_with_line_change(+closure).
Symbolic: first-hunk position, gaps between hunks, block position (lines and columns),
char ranges of every modified line.  Enumerated by forking: the kind sequence of the diff
lines and the hunk cuts (the "shape").
Oracle: computed from the edit script in new-file coordinates, independently of the
hunk-header arithmetic the code uses.
"""
import itertools
import json
import os
import random
import shutil
import sys

import z3

from .common import *  # noqa
from .vharness import zor, zand  # noqa
from mirsym.extmodels import mk_line, mk_hunk, mk_patched_file
from mirsym.interp import explore, PathStats, Interp

PROP = 'C01'
NUM_MAX = 1 << 32   # stated bound on every line number, column, gap and range bound

ROLE_INHUNK = 'pure-deletion-after-unbalanced-change-in-same-hunk'
ROLE_XHUNK = 'pure-deletion-after-net-offset-from-earlier-hunk'


# ------------------------------------------------------------------ shapes

def hunk_strings(n, max_edge_ctx):
    out = []
    for t in itertools.product('c-+', repeat=n):
        s = ''.join(t)
        if '-' not in s and '+' not in s:
            continue
        if '+-' in s:          # git prints removed lines before added lines in a change group
            continue
        lead = len(s) - len(s.lstrip('c'))
        trail = len(s) - len(s.rstrip('c'))
        if lead > max_edge_ctx or trail > max_edge_ctx:
            continue
        out.append(s)
    return out


def gen_shapes(max_lines, max_hunks, max_edge_ctx):
    by_len = {n: hunk_strings(n, max_edge_ctx) for n in range(1, max_lines + 1)}
    shapes = []

    def rec(prefix, remaining, hunks_left):
        if prefix:
            shapes.append(tuple(prefix))
        if hunks_left == 0:
            return
        for n in range(1, remaining + 1):
            for s in by_len[n]:
                rec(prefix + [s], remaining - n, hunks_left - 1)

    rec([], max_lines, max_hunks)
    return shapes


# ------------------------------------------------------------------ script semantics (oracle side)

class Script:
    """Edit script in new-file coordinates for a shape with symbolic placement."""

    def __init__(self, shape, os1, gaps):
        self.shape = shape
        self.hunks = []      # dicts: source_start,target_start,nsrc,ntgt,lines[(kind,src,tgt)]
        self.events = []     # dicts: kind 'add'|'mod'|'del'|'delmix', n / p, hunk, drift_in, drift_x
        delta = 0
        os_h = os1
        for hi, s in enumerate(shape):
            nsrc = s.count('c') + s.count('-')
            ntgt = s.count('c') + s.count('+')
            ns_h = os_h + delta
            source_start = os_h if nsrc > 0 else os_h - 1
            target_start = ns_h if ntgt > 0 else ns_h - 1
            src = source_start
            tgt = target_start
            tn = ns_h            # true new index of the next new-file line
            lines = []
            pending_del = 0      # removed lines waiting to be paired with added ones
            drift = 0            # (+ minus -) seen so far in this hunk
            i = 0
            while i < len(s):
                k = s[i]
                if k == 'c':
                    lines.append(('c', src, tgt))
                    src += 1
                    tgt += 1
                    tn += 1
                    pending_del = 0
                    i += 1
                elif k == '-':
                    j = i
                    while j < len(s) and s[j] == '-':
                        j += 1
                    run = j - i
                    followed_by_plus = j < len(s) and s[j] == '+'
                    self.events.append(dict(kind='delmix' if followed_by_plus else 'del', p=tn - 1,
                                            hunk=hi, drift_in=drift, drift_x=delta, run=run,
                                            first_src=src))
                    for _ in range(run):
                        lines.append(('-', src, None))
                        src += 1
                    drift -= run
                    pending_del = run if followed_by_plus else 0
                    i = j
                else:
                    kind = 'mod' if pending_del > 0 else 'add'
                    if pending_del > 0:
                        pending_del -= 1
                    self.events.append(dict(kind=kind, n=tn, hunk=hi, drift_in=drift, drift_x=delta))
                    lines.append(('+', None, tgt))
                    tgt += 1
                    tn += 1
                    drift += 1
                    i += 1
            self.hunks.append(dict(source_start=source_start, source_length=nsrc,
                                   target_start=target_start, target_length=ntgt, lines=lines,
                                   os=os_h, ns=ns_h))
            delta = delta + s.count('+') - s.count('-')
            if hi + 1 < len(shape):
                os_h = os_h + nsrc + gaps[hi]
        self.last_new = tn

    def reported_events(self):
        """Events for which line_changes is expected to emit one LineChange, in order."""
        return [e for e in self.events if e['kind'] in ('add', 'mod', 'del')]


def ev_inside(e, Sb, Ea):
    """The event certainly lies between the tag comments (must mark modified)."""
    if e['kind'] in ('add', 'mod'):
        return z3.And(Sb < e['n'], e['n'] < Ea)
    if e['kind'] == 'del':
        return z3.And(Sb <= e['p'], e['p'] + 1 <= Ea)
    return None


def ev_away(e, Sb, Ea):
    """The event neither touches nor adjoins the block's tag lines and is outside."""
    if e['kind'] in ('add', 'mod'):
        return z3.Or(e['n'] < Sb - 1, e['n'] > Ea + 1)
    return z3.Or(e['p'] + 1 < Sb - 1, e['p'] > Ea + 1)


def event_role(e):
    if e['kind'] == 'del' and e['drift_in'] != 0:
        return ROLE_INHUNK
    if e['kind'] == 'del' and e['drift_x'] != 0:
        return ROLE_XHUNK
    return 'content-change-missed:%s' % e['kind']


# ------------------------------------------------------------------ the path harness

class Ctx:
    pass


def build_inputs(I, prog, shape, nranges):
    c = Ctx()
    c.os1 = I.fresh_int('os1', 1, NUM_MAX)
    c.gaps = [I.fresh_int('gap%d' % i, 1, NUM_MAX) for i in range(len(shape) - 1)]
    c.script = Script(shape, c.os1, c.gaps)
    hunks = []
    for h in c.script.hunks:
        lines = []
        for (k, s, t) in h['lines']:
            ch = {'c': b' ', '-': b'-', '+': b'+'}[k]
            lines.append(mk_line(I, ch, s, t))
        hunks.append(mk_hunk(I, h['source_start'], h['source_length'], h['target_start'],
                             h['target_length'], lines))
    c.pf = mk_patched_file(I, b'a/f.js', b'b/f.js', hunks)
    # block geometry
    c.Sb = I.fresh_int('Sb', 1, NUM_MAX)
    c.Ea = I.fresh_int('Ea', 1, NUM_MAX)
    c.cs = I.fresh_int('cs', 30, NUM_MAX)
    c.ce = I.fresh_int('ce', 1, NUM_MAX)
    I.add(c.Sb <= c.Ea)
    I.add(z3.Implies(c.Sb == c.Ea, c.cs <= c.ce))
    c.tag_line = I.fresh_int('Tl', 1, NUM_MAX)     # line of '<' (start tag may begin on an earlier line)
    I.add(c.tag_line <= c.Sb)
    c.block = mk_struct(
        prog, 'Block',
        attributes=MapVal(()),
        start_tag_position_range=Struct('RangeInclusive', (position(prog, c.tag_line, 4),
                                                            position(prog, c.Sb, c.cs - 4), False)),
        content_bytes_range=Struct('Range', (0, 0)),
        content_position_range=Struct('Range', (position(prog, c.Sb, c.cs), position(prog, c.Ea, c.ce))))
    # line_diff stub: fresh sorted, separated, non-empty ranges
    c.mods = []
    mod_events = [e for e in c.script.events if e['kind'] == 'mod']

    def line_diff_stub(I2, args, ci, dt):
        k = len(c.mods)
        if k >= len(mod_events):
            raise EngineError('line_diff called more often than there are modified lines')
        rs = []
        prev_end = None
        length = I2.fresh_int('len%d' % k, 1, NUM_MAX)
        for j in range(nranges):
            a = I2.fresh_int('r%d_%ds' % (k, j), 0, NUM_MAX)
            b = I2.fresh_int('r%d_%de' % (k, j), 0, NUM_MAX)
            I2.add(a < b)
            if prev_end is not None:
                I2.add(a > prev_end)
            prev_end = b
            rs.append((a, b))
        if prev_end is not None:
            I2.add(prev_end <= length)
        n = mod_events[k]['n']
        # geometry of the replay file: a start-tag line is at least as long as its comment
        I2.add(z3.Implies(n == c.Sb, length >= c.cs - 1))
        I2.add(z3.Implies(n == c.Ea, length >= c.ce + 13))
        c.mods.append(dict(ranges=rs, length=length, n=n))
        return VecVal([Struct('Range', (a, b)) for a, b in rs])

    I.stubs['line_diff'] = line_diff_stub
    return c


def lc_fields(prog, lc):
    return get_field(prog, lc, 'LineChange', 'line'), get_field(prog, lc, 'LineChange', 'ranges')


def run_shape(task):
    shape, nranges, want_samples = task
    prog = driver.load_program()
    stats = PathStats()
    f_lc = prog.find_fn('line_changes')
    f_int = prog.find_method('Block', 'content_intersects_with_any')
    if f_int is None:
        raise EngineError('Block::content_intersects_with_any not found')
    out = dict(violations=[], samples=[], obligations=0, cover={}, panic_paths=0)
    holder = {}
    roles_seen = set()

    def run_path(I):
        c = build_inputs(I, prog, shape, nranges)
        holder['c'] = c
        lcs = I.call_fn(f_lc, [Ref(Cell(c.pf), ())])
        c.lcs = lcs
        r = I.call_fn(f_int, [Ref(Cell(c.block), ()), Ref(Cell(lcs), ())])
        return r

    for I, kind, val in explore(prog, models.M, run_path, stats=stats, max_paths=20000):
        c = holder['c']
        sc = c.script
        small = [c.os1, c.Sb, c.Ea, c.cs, c.ce, c.tag_line] + c.gaps + \
                [x for m in c.mods for ab in m['ranges'] for x in ab] + [m['length'] for m in c.mods]
        if kind == 'panic':
            out['panic_paths'] += 1
            m = small_model(I, z3.BoolVal(True), small)
            out['violations'].append(mk_violation(shape, c, m, 'panic:%s' % val.msg[:60], None,
                                                  'panic in line_changes/intersection: %s' % val.msg))
            continue
        r = val
        if not isinstance(r, bool):
            raise EngineError('content_intersects_with_any returned %r' % (r,))
        rep = sc.reported_events()
        n_lc = len(c.lcs.items)
        # (a) every change that certainly lies between the tags must mark the block modified
        if r is False:
            for e in sc.events:
                if nranges == 0 and e['kind'] == 'mod':
                    continue        # a -/+ pair with identical text (end-of-line-only change): no verdict asked
                cond = ev_inside(e, c.Sb, c.Ea)
                if cond is None:
                    continue
                out['obligations'] += 1
                if I.check(cond):
                    role = event_role(e)
                    if role in roles_seen:
                        continue
                    roles_seen.add(role)
                    m = small_model(I, cond, small)
                    out['violations'].append(mk_violation(shape, c, m, role, e,
                                                          'edit between the tags but is_content_modified=false'))
        else:
            # (b) a diff that stays away from the block must not mark it modified
            conds = [ev_away(e, c.Sb, c.Ea) for e in sc.events]
            cond = z3.And(*conds) if len(conds) > 1 else conds[0]
            out['obligations'] += 1
            if I.check(cond):
                m = small_model(I, cond, small)
                role = 'outside-change-marks-modified'
                # attribute: which reported change landed inside?
                if n_lc == len(rep):
                    for e, lc in zip(rep, c.lcs.items):
                        ln, _rg = lc_fields(prog, lc)
                        lv = mval(m, ln)
                        if mval(m, c.Sb) <= lv <= mval(m, c.Ea):
                            if e['kind'] == 'del' and (e['drift_in'] != 0 or e['drift_x'] != 0):
                                role = ROLE_INHUNK if e['drift_in'] != 0 else ROLE_XHUNK
                            break
                out['violations'].append(mk_violation(shape, c, m, role, None,
                                                      'no edit near the block but is_content_modified=true'))
        # cover bookkeeping
        kinds = set(e['kind'] for e in sc.events)
        for k in kinds:
            out['cover']['event:' + k] = out['cover'].get('event:' + k, 0) + 1
        if any(e['kind'] == 'del' and e['drift_x'] != 0 for e in sc.events):
            out['cover']['pure deletion after an unbalanced earlier hunk'] = 1
        if any(e['kind'] == 'del' and e['drift_in'] != 0 for e in sc.events):
            out['cover']['pure deletion after an unbalanced change in the same hunk'] = 1
        if c.mods and n_lc >= 3:
            out['cover']['three or more changes with a modified line'] = 1
        if want_samples and len(out['samples']) < 2:
            m = small_model(I, z3.BoolVal(True), small)
            if m is not None:
                out['samples'].append(dict(shape=list(shape), values=concrete_values(c, m),
                                           is_content_modified=r,
                                           line_changes=[mval(m, lc_fields(prog, lc)[0]) for lc in c.lcs.items]))
    out.update(Agg(PROP, 'x').stats_from(stats))
    return out


def concrete_values(c, m):
    v = dict(os1=mval(m, c.os1), gaps=[mval(m, g) for g in c.gaps], Sb=mval(m, c.Sb), Ea=mval(m, c.Ea),
             cs=mval(m, c.cs), ce=mval(m, c.ce), tag_line=mval(m, c.tag_line),
             mods=[dict(n=mval(m, x['n']), length=mval(m, x['length']),
                        ranges=[[mval(m, a), mval(m, b)] for a, b in x['ranges']]) for x in c.mods])
    return v


def mk_violation(shape, c, m, role, e, summary):
    vals = concrete_values(c, m) if m is not None else None
    return dict(role=role, shape=list(shape), values=vals, summary=summary,
                event=None if e is None else {k: (mval(m, v) if is_sym(v) else v) for k, v in e.items()})


# ------------------------------------------------------------------ materialisation and replay

def materialize(shape, vals):
    """Concrete new file, diff text and expected geometry for a shape + model values."""
    flat = [vals['os1'], vals['Sb'], vals['Ea'], vals['cs'], vals['ce']] + list(vals['gaps']) + \
           [x['length'] for x in vals['mods']] + [y for x in vals['mods'] for ab in x['ranges'] for y in ab]
    if max(flat) > 3000:
        return None
    sc = Script(tuple(shape), vals['os1'], vals['gaps'])
    Sb, Ea, cs, ce = vals['Sb'], vals['Ea'], vals['cs'], vals['ce']
    mods = {x['n']: x for x in vals['mods']}
    nl = max(Ea, sc.last_new, max([0] + list(mods.keys()))) + 2

    def pad_to(s, n, fill='p'):
        return s if len(s) >= n else s + ' //' + fill * max(0, n - len(s) - 3) if n - len(s) >= 3 else s + ' ' * (n - len(s))

    new_lines = {}
    for i in range(1, nl + 1):
        new_lines[i] = 'v%d = %d;' % (i, i)
    start_tag = '/* <block name="blk" p="%s"> */'
    end_tag = '/* </block> */'
    base = len(start_tag % '')
    if cs - 1 < base:
        return None
    st = start_tag % ('P' * (cs - 1 - base))
    if Sb == Ea:
        mid = ' ' * (ce - cs)
        if ce < cs:
            return None
        new_lines[Sb] = st + mid + end_tag
    else:
        new_lines[Sb] = st
        new_lines[Ea] = ' ' * (ce - 1) + end_tag
    # modified lines: make them long enough, then derive the old text
    old_of = {}
    for n, x in mods.items():
        ln = new_lines.get(n, 'v%d = %d;' % (n, n))
        if len(ln) > x['length'] and n not in (Sb, Ea):
            ln = ('w%d;' % n)[:max(1, x['length'])]
        if len(ln) < x['length']:
            ln = ln + ' ' + 'q' * (x['length'] - len(ln) - 1) if x['length'] - len(ln) >= 1 else ln
        if len(ln) != x['length']:
            return None
        new_lines[n] = ln
        old = list(ln)
        for a, b in x['ranges']:
            for k in range(a, b):
                if k < len(old):
                    old[k] = '~'
        old_of[n] = ''.join(old)
    # diff text
    out = ['diff --git a/f.js b/f.js', 'index 1111111..2222222 100644', '--- a/f.js', '+++ b/f.js']
    delcount = 0
    for h in sc.hunks:
        out.append('@@ -%d,%d +%d,%d @@' % (h['source_start'], h['source_length'], h['target_start'], h['target_length']))
        tn = h['ns']
        pending = []
        for (k, s, t) in h['lines']:
            if k == 'c':
                out.append(' ' + new_lines.get(tn, 'v%d = %d;' % (tn, tn)))
                tn += 1
                pending = []
            elif k == '-':
                delcount += 1
                pending.append(len(out))
                out.append('-gone%d();' % delcount)
            else:
                if pending:
                    idx = pending.pop(0)
                    if tn in old_of:
                        out[idx] = '-' + old_of[tn]
                out.append('+' + new_lines.get(tn, 'v%d = %d;' % (tn, tn)))
                tn += 1
    text = '\n'.join(new_lines[i] for i in range(1, nl + 1)) + '\n'
    return dict(file='f.js', content=text, diff='\n'.join(out) + '\n', Sb=Sb, Ea=Ea)


def observe(binary, mat, workdir):
    git_init(workdir)
    with open(os.path.join(workdir, mat['file']), 'w') as f:
        f.write(mat['content'])
    r = run_blockwatch(binary, workdir, ['list'], stdin=mat['diff'].encode())
    if r['code'] != 0:
        return dict(error='exit %r: %s' % (r['code'], r['stderr'][-400:]))
    try:
        js = json.loads(r['stdout']) if r['stdout'].strip() else {}
    except ValueError:
        return dict(error='bad json: %s' % r['stdout'][:200])
    blocks = js.get(mat['file'], [])
    for b in blocks:
        if b.get('name') == 'blk':
            return dict(listed=True, is_content_modified=bool(b.get('is_content_modified')))
    return dict(listed=False, is_content_modified=False)


def confirm(binary, v, idx):
    """Replay a solver counterexample against the real binary. Sets v['confirmed'], v['replay']."""
    if v['values'] is None:
        v['confirmed'] = False
        return v
    mat = materialize(v['shape'], v['values'])
    if mat is None:
        v['confirmed'] = False
        v['summary'] += ' (could not materialise)'
        return v
    d = scratch_dir('c01')
    try:
        obs = observe(binary, mat, d)
    finally:
        shutil.rmtree(d, ignore_errors=True)
    expect_modified = v['summary'].startswith('edit between')
    if v['role'].startswith('panic'):
        bad = 'error' in obs and 'panicked' in obs.get('error', '')
    elif 'error' in obs:
        bad = False
    else:
        bad = (obs['is_content_modified'] != expect_modified)
    v['confirmed'] = bool(bad)
    v['observed'] = obs
    if bad:
        rd = replay_dir(PROP, '%s-%d' % (v['role'].replace(':', '_'), idx))
        git_init(rd)
        open(os.path.join(rd, mat['file']), 'w').write(mat['content'])
        open(os.path.join(rd, 'input.diff'), 'w').write(mat['diff'])
        open(os.path.join(rd, 'violation.json'), 'w').write(json.dumps(v, indent=1, default=str))
        open(os.path.join(rd, 'replay.sh'), 'w').write(
            '#!/bin/sh\n# expected is_content_modified=%s for block "blk" (%s)\n'
            'cd "$(dirname "$0")" && "${BLOCKWATCH:-blockwatch}" list < input.diff\n'
            % (str(expect_modified).lower(), v['summary']))
        os.chmod(os.path.join(rd, 'replay.sh'), 0o755)
        v['replay'] = rd
    return v


def validate_sample(binary, s):
    """Translator validation: real binary on a passing path's witness must agree with mirsym."""
    mat = materialize(s['shape'], s['values'])
    if mat is None:
        return None
    d = scratch_dir('c01v')
    try:
        obs = observe(binary, mat, d)
    finally:
        shutil.rmtree(d, ignore_errors=True)
    if 'error' in obs:
        return 'real binary failed on %s: %s' % (s, obs['error'])
    if obs['is_content_modified'] != s['is_content_modified']:
        return 'mirsym says %s, real binary says %s on %s' % (s['is_content_modified'], obs, json.dumps(s))
    return True


# ------------------------------------------------------------------ affects: reference resolution

AFF_NAMES = [None, 'x', 'y']
AFF_MENU = [None, ':x', 'f1.py:y', ':x, f1.py:y', 'f0.py:x', ':zz', ' f1.py : x ', 'f1.py:y,:y']


def parse_refs(text, own_file):
    out = []
    for piece in text.split(','):
        fn, name = piece.strip().split(':', 1)
        fn = fn.strip()
        out.append((fn if fn else own_file, name.strip()))
    return out


def run_affects(task):
    blocks, order = task[:2]    # blocks: tuple of (file index, name or None, affects text or None)
    from .vharness import mk_block, mk_bwc, mk_context, run_validator, decode_violations
    prog = driver.load_program()
    stats = PathStats()
    out = dict(violations=[], samples=[], obligations=0, cover={}, panic_paths=0)
    holder = {}
    roles = set()
    files = list(task[2]) if len(task) > 2 else ['f0.py', 'f1.py']      # the second file may sit in a dot-directory

    def run_path(I):
        I.map_order = lambda n: [x for x in order if x < n] if len(order) >= n else list(range(n))
        cms = []
        per_file = {0: [], 1: []}
        for bi, (fi, name, aff) in enumerate(blocks):
            at = {}
            if name is not None:
                at['name'] = name.encode()
            if aff is not None:
                at['affects'] = aff.encode()
            cm = I.fresh_bool('cm%d' % bi)
            cms.append(cm)
            blk = mk_block(prog, I, at, (10 * (bi + 1), 3), (10 * (bi + 1), 9), (0, 0), (10 * (bi + 1), 10), (10 * (bi + 1) + 2, 1))
            per_file[fi].append(mk_bwc(prog, blk, content_modified=cm))
        holder['cms'] = cms
        ctx = mk_context(prog, I, [(files[fi].encode(), b'x', per_file[fi]) for fi in (0, 1) if per_file[fi]])
        return run_validator(I, prog, 'AffectsValidator', ctx)

    def viol(I, cond, role, summary):
        out['obligations'] += 1
        if role in roles:
            return
        if I.check(cond):
            roles.add(role)
            m = I.solver.model()
            out['violations'].append(dict(role=role, summary=summary, blocks=[list(b) for b in blocks], order=list(order), names=list(files),
                                          modified=[mval(m, c) for c in holder['cms']], values=None, shape=[]))

    for I, pk, val in explore(prog, models.M, run_path, stats=stats, max_paths=20000):
        if pk == 'panic':
            out['panic_paths'] += 1
            viol(I, z3.BoolVal(True), 'affects-panic', 'panic: %s' % val.msg[:120])
            continue
        cms = holder['cms']
        st, res = decode_violations(prog, val)
        if st == 'err':
            viol(I, z3.BoolVal(True), 'affects-unexpected-error', 'well-formed affects references make the run fail')
            continue
        got = {}
        for fname, vs in res.items():
            for v in vs:
                data = v['data']
                payload = data.f[0].data if data.v == 1 else None
                ref = None
                if payload is not None:
                    from mirsym.models import as_sstr
                    ref = (bytes(as_sstr(I, get_field(prog, payload, 'AffectsViolation', 'affected_block_file_path')).b).decode(),
                           bytes(as_sstr(I, get_field(prog, payload, 'AffectsViolation', 'affected_block_name')).b).decode())
                key = (fname.decode(), v['start'][0] // 10 - 1, ref)
                got[key] = got.get(key, 0) + 1
                if bytes(v['code']) != b'affects':
                    viol(I, z3.BoolVal(True), 'wrong-code', 'code %r' % bytes(v['code']))
        for bi, (fi, name, aff) in enumerate(blocks):
            if aff is None:
                continue
            refs = parse_refs(aff, files[fi])
            for ref in set(refs):
                mult = refs.count(ref)
                target_mod = zor([cms[bj] for bj, (fj, nj, _a) in enumerate(blocks) if files[fj] == ref[0] and nj == ref[1]])
                expect = z3.And(cms[bi], z3.Not(target_mod))
                n = got.get((files[fi], bi, ref), 0)
                if n == 0:
                    viol(I, expect, 'drift-not-reported', 'block %d modified, %s:%s untouched, no affects violation' % (bi, ref[0], ref[1]))
                else:
                    viol(I, z3.Not(expect), 'spurious-drift-violation',
                         'affects violation for %s:%s although the block is unmodified or the target is modified' % ref)
                    if n != mult:
                        viol(I, z3.BoolVal(True), 'drift-violation-count', '%d violations for reference %s:%s written %d time(s)' % (n, ref[0], ref[1], mult))
        known = set((files[fi], bi, r) for bi, (fi, _n, aff) in enumerate(blocks) if aff for r in parse_refs(aff, files[fi]))
        for key in got:
            if key not in known:
                viol(I, z3.BoolVal(True), 'unknown-drift-violation', 'violation %r matches no written reference' % (key,))
        out['cover']['affects'] = out['cover'].get('affects', 0) + 1
        if len(set(n for _f, n, _a in blocks if n)) < len([n for _f, n, _a in blocks if n]):
            out['cover']['affects: duplicate names'] = 1
        if any(f.startswith('.') for f in files):
            out['cover']['affects: reference into a dot-directory'] = 1
    out.update(Agg(PROP, 'x').stats_from(stats))
    return out


def affects_tasks(rnd, nblocks, count):
    tasks = []
    choices = [(fi, n, a) for fi in (0, 1) for n in AFF_NAMES for a in AFF_MENU]
    seen = set()
    guard = 0
    while len(tasks) < count and guard < count * 50:
        guard += 1
        bl = tuple(rnd.choice(choices) for _ in range(rnd.choice(nblocks)))
        if not any(a for _f, _n, a in bl) or bl in seen:
            continue
        seen.add(bl)
        tasks.append((bl, rnd.choice([(0, 1, 2, 3), (3, 2, 1, 0), (1, 0, 3, 2)])))
    # hand-picked shapes: duplicate names with one modified, cycles, cross-file
    fixed = [((0, 'x', ':y'), (0, 'y', ':x')),
             ((0, None, 'f1.py:x'), (1, 'x', None), (1, 'x', None)),
             ((0, 'a', ':x'), (0, 'x', None), (0, 'x', None)),
             ((1, None, ':x, f1.py:y'), (1, 'x', None), (1, 'y', None))]
    for f in fixed:
        for o in ((0, 1, 2, 3), (3, 2, 1, 0)):
            tasks.append((f, o))
    # references into a dot-directory / to a dot-file (`.github/...`): the reference is the path as written
    dot = ('f0.py', '.d/f1.py')
    for f in (((0, 'a', '.d/f1.py:y'), (1, 'y', None)),
              ((1, 'y', 'f0.py:a'), (0, 'a', ' .d/f1.py : y ')),
              ((0, None, '.d/f1.py:y, :x'), (0, 'x', None), (1, 'y', None))):
        tasks.append((f, (0, 1, 2, 3), dot))
    return tasks


def confirm_affects(binary, v, idx):
    """Replay: two .py files; blocks with the witness's names/affects; modified blocks get their content line edited in the diff."""
    v['confirmed'] = False
    files = {0: [], 1: []}
    names = list(v.get('names') or ['f0.py', 'f1.py'])
    line_of = {}
    for bi, (fi, name, aff) in enumerate(v['blocks']):
        attrs = ''
        if name is not None:
            attrs += ' name="%s"' % name
        if aff is not None:
            attrs += ' affects="%s"' % aff
        start = len(files[fi]) + 1
        files[fi] += ['# <block%s>' % attrs, 'content%d = 1' % bi, '# </block>', 'gap = 0']
        line_of[bi] = (fi, start + 1)
    diff = ''
    for fi in (0, 1):
        changed = [line_of[bi][1] for bi in range(len(v['blocks'])) if line_of[bi][0] == fi and v['modified'][bi]]
        if not changed:
            continue
        diff += 'diff --git a/%s b/%s\n--- a/%s\n+++ b/%s\n' % ((names[fi],) * 4)
        for ln in changed:
            diff += '@@ -%d +%d @@\n-old\n+%s\n' % (ln, ln, files[fi][ln - 1])
    want = set()
    for bi, (fi, name, aff) in enumerate(v['blocks']):
        if aff is None or not v['modified'][bi]:
            continue
        for (rf, rn) in parse_refs(aff, names[fi]):
            ok = any(v['modified'][bj] for bj, (fj, nj, _a) in enumerate(v['blocks']) if names[fj] == rf and nj == rn)
            if not ok:
                want.add((names[fi], line_of[bi][1] - 1, rf, rn))
    d = scratch_dir('c01a')
    try:
        git_init(d)
        for fi in (0, 1):
            if files[fi]:
                os.makedirs(os.path.dirname(os.path.join(d, names[fi])) or d, exist_ok=True)
                open(os.path.join(d, names[fi]), 'w').write('\n'.join(files[fi]) + '\n')
        # globs put every block of both files into the validation context (as the harness does)
        r = run_blockwatch(binary, d, [n for fi, n in enumerate(names) if files[fi]], stdin=diff.encode())
    finally:
        shutil.rmtree(d, ignore_errors=True)
    got = set()
    if r['stderr'].strip().startswith('{'):
        try:
            for fn, ds in json.loads(r['stderr']).items():
                for x in ds:
                    if x.get('code') == 'affects':
                        got.add((fn, x['range']['start']['line'], x['data']['affected_block_file_path'], x['data']['affected_block_name']))
        except (ValueError, KeyError):
            pass
    v['observed'] = dict(code=r['code'], violations=sorted(got), stderr=r['stderr'][-200:] if not got else '')
    v['expected'] = sorted(want)
    if got != want or (r['code'] == 1) != bool(want):
        v['confirmed'] = True
        rd = replay_dir(PROP, 'affects-%s-%d' % (v['role'], idx))
        git_init(rd)
        for fi in (0, 1):
            if files[fi]:
                os.makedirs(os.path.dirname(os.path.join(rd, names[fi])) or rd, exist_ok=True)
                open(os.path.join(rd, names[fi]), 'w').write('\n'.join(files[fi]) + '\n')
        open(os.path.join(rd, 'input.diff'), 'w').write(diff)
        open(os.path.join(rd, 'violation.json'), 'w').write(json.dumps(v, indent=1, default=str))
        open(os.path.join(rd, 'replay.sh'), 'w').write('#!/bin/sh\n# expected affects violations %s\ncd "$(dirname "$0")" && "${BLOCKWATCH:-blockwatch}" %s < input.diff\n' % (sorted(want), ' '.join(names)))
        v['replay'] = rd
    return v


# ------------------------------------------------------------------ line_diff: the contract the stub above assumes

DIFFOPS = ['Equal', 'Delete', 'Insert', 'Replace']


def run_line_diff(task):
    """diff_parser::line_diff + push_or_merge_range (+closures) on an arbitrary valid op list from
    `similar` (stub): the resulting ranges are sorted, separated, non-empty, inside the new line,
    empty only if every op is Equal, and cover every inserted/replaced character."""
    kinds = task
    prog = driver.load_program()
    stats = PathStats()
    f = prog.find_fn('line_diff')
    out = dict(violations=[], samples=[], obligations=0, cover={}, panic_paths=0)
    holder = {}
    roles = set()

    def run_path(I):
        ops = []
        oi = 0
        ni = 0
        lens = []
        for k, kind in enumerate(kinds):
            ol = I.fresh_int('ol%d' % k, 1, 1 << 20)
            nl = I.fresh_int('nl%d' % k, 1, 1 << 20)
            vi = DIFFOPS.index(kind)
            if kind == 'Equal':
                ops.append(Enum('DiffOp', vi, kind, (oi, ni, ol)))
                lens.append((kind, ni, ol))
                oi, ni = oi + ol, ni + ol
            elif kind == 'Delete':
                ops.append(Enum('DiffOp', vi, kind, (oi, ol, ni)))
                lens.append((kind, ni, 0))
                oi = oi + ol
            elif kind == 'Insert':
                ops.append(Enum('DiffOp', vi, kind, (oi, ni, nl)))
                lens.append((kind, ni, nl))
                ni = ni + nl
            else:
                ops.append(Enum('DiffOp', vi, kind, (oi, ol, ni, nl)))
                lens.append((kind, ni, nl))
                oi, ni = oi + ol, ni + nl
        holder.update(lens=lens, new_len=ni, old_len=oi)
        opsref = Ref(Cell(VecVal(ops)), ())
        I.stubs['TextDiff::from_chars'] = lambda I2, a, ci, dt: Struct('TextDiff', (opsref,))
        I.stubs['TextDiff::ops'] = lambda I2, a, ci, dt: opsref
        # the strings are only asked for their length
        I.stubs['str::len'] = lambda I2, a, ci, dt: ni
        new = SStr((), I.new_alloc(), 0)
        return I.call_fn(f, [SStr((), I.new_alloc(), 0), new])

    def viol(I, cond, role, summary):
        out['obligations'] += 1
        if role in roles:
            return
        if I.check(cond):
            roles.add(role)
            m = I.solver.model()
            out['violations'].append(dict(role=role, summary=summary, shape=list(kinds), values=None,
                                          ops=[(k, mval(m, a), mval(m, b)) for k, a, b in holder['lens']]))

    for I, pk, val in explore(prog, models.M, run_path, stats=stats, max_paths=20000):
        if pk == 'panic':
            out['panic_paths'] += 1
            viol(I, z3.BoolVal(True), 'line-diff-panic', 'panic in line_diff: %s' % val.msg[:100])
            continue
        rs = [(r.f[0], r.f[1]) for r in val.items]
        nl = holder['new_len']
        all_equal = all(k == 'Equal' for k in kinds)
        if not rs and not all_equal:
            viol(I, z3.BoolVal(True), 'line-diff-loses-change', 'lines differ but no range is reported')
        if rs and all_equal:
            viol(I, z3.BoolVal(True), 'line-diff-invents-change', 'equal lines but a range is reported')
        for i, (a, b) in enumerate(rs):
            viol(I, z3.Not(a < b) if is_sym(a) or is_sym(b) else z3.BoolVal(not a < b), 'line-diff-empty-range', 'an empty range is reported')
            lim = z3.If(nl >= 1, nl, 1) if is_sym(nl) else max(nl, 1)
            viol(I, b > lim if (is_sym(b) or is_sym(lim)) else z3.BoolVal(b > lim), 'line-diff-range-outside-line',
                 'a range ends beyond the new line')
            if i:
                pe = rs[i - 1][1]
                viol(I, z3.Not(a > pe) if (is_sym(a) or is_sym(pe)) else z3.BoolVal(not a > pe), 'line-diff-ranges-not-separated',
                     'ranges are not sorted and separated')
        for kind, start, ln in holder['lens']:
            if kind in ('Insert', 'Replace'):
                covered = zor([z3.And(a <= start, start + ln <= b) for a, b in rs]) if rs else z3.BoolVal(False)
                viol(I, z3.Not(covered), 'line-diff-change-not-covered', 'an inserted/replaced stretch is not inside any range')
        out['cover']['line_diff'] = out['cover'].get('line_diff', 0) + 1
    out.update(Agg(PROP, 'x').stats_from(stats))
    return out


def line_diff_tasks(maxops):
    tasks = []
    for n in range(1, maxops + 1):
        for ks in itertools.product(DIFFOPS, repeat=n):
            # similar never emits two Equal ops in a row; everything else is allowed
            if any(ks[i] == 'Equal' and ks[i + 1] == 'Equal' for i in range(n - 1)):
                continue
            tasks.append(ks)
    return tasks


# ------------------------------------------------------------------ entry point

BOUNDS = {
    'quick': dict(max_lines=4, max_hunks=2, max_edge_ctx=1, nranges=1, validate=24, aff_blocks=[2, 3], aff_count=150, diff_ops=3),
    'thorough': dict(max_lines=6, max_hunks=3, max_edge_ctx=1, nranges=2, validate=200, aff_blocks=[2, 3, 4], aff_count=2500, diff_ops=5),
}


def main(tier):
    b = BOUNDS[tier]
    agg = Agg(PROP, tier)
    binary = driver.real_binary()
    driver.load_program()
    shapes = gen_shapes(b['max_lines'], b['max_hunks'], b['max_edge_ctx'])
    rnd = random.Random(seed())
    rnd.shuffle(shapes)
    sample_every = max(1, len(shapes) // max(1, b['validate']))
    tasks = [(s, b['nranges'], i % sample_every == 0) for i, s in enumerate(shapes)]
    results = pmap(run_shape, tasks, chunksize=4)
    atasks = affects_tasks(rnd, b['aff_blocks'], b['aff_count'])
    aresults = pmap(run_affects, atasks, chunksize=4)
    ldresults = pmap(run_line_diff, line_diff_tasks(b['diff_ops']), chunksize=8)
    for r in results + aresults + ldresults:
        agg.add(r)
    # confirm counterexamples: one per role is enough to report; confirm up to 3 per role
    by_role = {}
    for v in agg.violations:
        by_role.setdefault(v['role'], []).append(v)
    confirmed = []
    for role, vs in sorted(by_role.items()):
        vs.sort(key=lambda v: (len(v.get('blocks', v['shape'])), sum(len(str(x)) for x in v['shape'])))
        got = 0
        for i, v in enumerate(vs[:6]):
            if 'blocks' in v:
                confirm_affects(binary, v, i)
            elif 'ops' in v:
                v['confirmed'] = True     # decided on the MIR of line_diff under the `similar` contract stub
                v['replay'] = replay_dir(PROP, '%s-%d' % (v['role'], i))
                open(os.path.join(v['replay'], 'violation.json'), 'w').write(json.dumps(v, indent=1, default=str))
            else:
                confirm(binary, v, i)
            if v.get('confirmed'):
                confirmed.append(v)
                got += 1
                if got >= 1:
                    break
        if got == 0:
            v = vs[0]
            v['confirmed'] = False
            confirmed.append(v)
    agg.violations = confirmed
    # translator validation
    samples = [s for r in results for s in r.get('samples', [])]
    rnd.shuffle(samples)
    for s in samples[:b['validate']]:
        ok = validate_sample(binary, s)
        if ok is True:
            agg.validated += 1
        elif ok is not None:
            agg.validation_failures.append(ok)
            agg.engine_errors.append({'engine_error': 'translator validation: ' + ok})
    bounds = dict(b)
    bounds['shapes'] = len(shapes)
    bounds['numeric'] = 'line numbers, gaps, columns, line lengths and range bounds: every integer in [0 or 1, 2^32] (Z3 Int; usize overflow modelled by the MIR overflow asserts)'
    return finish(
        agg, bounds,
        assumptions=[
            'unidiff::PatchSet::from_str is not encoded: hunks are built with the line numbering of unidiff 0.4.0 PatchedFile::parse_hunk (transcribed; validated against the real parser by the replay/validation runs)',
            'hunk shapes are those git emits: removed lines precede added lines in a change group; <=1 context line at hunk edges (more context does not change the numbering logic)',
            'in the shape harness diff_parser::line_diff is a stub returning sorted, separated, non-empty ranges inside the new line; that contract is itself decided on the MIR of line_diff + push_or_merge_range for every valid op list of <=3/5 ops from `similar` (stub)',
            'one block; start-tag comment ends at column cs>=30 (so the replay can realise it with a /* */ comment)',
            'tag lines themselves are "don\'t care" as the property states; mixed -/+ groups count through their + lines only',
            'affects: blocks with names/references from a menu (same-file, cross-file, lists, duplicates, cycles, missing targets, blanks around names) and symbolic is_content_modified; references without a colon are C13\'s',
        ],
        stubs=['diff_parser::line_diff (contract stub)', 'unidiff::PatchedFile::hunks / Hunk::lines / Line::is_* (accessor models)'],
        must_cover=['event:add', 'event:mod', 'event:del', 'pure deletion after an unbalanced earlier hunk',
                    'three or more changes with a modified line', 'affects', 'affects: duplicate names', 'affects: reference into a dot-directory', 'line_diff'],
        explanation='per diff shape, all feasible MIR paths of line_changes + content_intersects_with_any; post-conditions PC∧inside(e)∧¬modified and PC∧all-away∧modified asked of Z3 per path')


if __name__ == '__main__':
    sys.exit(main(sys.argv[1] if len(sys.argv) > 1 else 'quick'))
