"""Where the repository root is, and how the directory walk and the file reads are tied to it (C15).

Encoded (real MIR, bin dump): repository_root_path (+ its closures); (lib dump)
<FileSystemImpl as FileSystem>::walk (+ the filter_map closure) and ::read_to_string.
Stubs (environment): Path::is_dir (a Z3 boolean per path asked about), ignore::Walk::new (a list of
entries, each a directory, a file or an error - chosen by Z3), DirEntry::path, std::fs::read_to_string
(records the path it is asked for).
Symbolic: for every ancestor of the start directory whether it holds `.git` / `.hg` as a directory;
per walk entry its kind.  Enumerated: the depth of the start directory, the root's spelling.

Post-conditions
  root:  Ok(nearest ancestor-or-self that holds a .git or .hg directory); Err iff there is none.
  walk:  exactly the entries that are files or symbolic links to files (directories and links to
         directories are not files), in walk order, each as its path relative to the root
         (the root prefix removed once, nothing else); an error entry comes through as Err.
  read:  the file read is root/<relative path>.
"""
import os
import shutil

import z3

from .common import *  # noqa
from .vharness import *  # noqa
from mirsym.interp import explore, PathStats
from mirsym.models import ListIter, new_string, as_sstr, collect_iter

PROP = 'C15'


def ancestors_of(p):
    """std::path::Path::ancestors for an absolute, normalised path."""
    out = [p]
    while p != b'/':
        p = p[:p.rindex(b'/')] or b'/'
        out.append(p)
    return out


def run_root(task):
    start, = task
    prog = driver.load_program()
    stats = PathStats()
    f = prog.find_fn('repository_root_path')
    if f is None:
        raise EngineError('repository_root_path not in the MIR dump')
    out = dict(violations=[], samples=[], obligations=0, cover={}, panic_paths=0)
    holder = {}
    roles = set()
    anc = ancestors_of(start)

    def run_path(I):
        marks = {}          # path of the marker -> Z3 int: 0 absent, 1 a regular file (linked worktree, submodule), 2 a directory
        for i, a in enumerate(anc):
            for m in (b'.git', b'.hg'):
                marks[(a.rstrip(b'/') + b'/' + m)] = I.fresh_int('%s_%d' % (m.decode().strip('.'), i), 0, 2)
        holder['marks'] = marks
        asked = []
        holder['asked'] = asked

        def probe(pred):
            def stub(I2, a, ci, dt):
                p = bytes(as_sstr(I2, a[0]).b)
                asked.append(p)
                if p not in marks:
                    raise EngineError('the file system was asked about %r, which is not <ancestor>/.git or /.hg' % p)
                return pred(marks[p])
            return stub
        I.stubs['Path::is_dir'] = probe(lambda k: k == 2)
        I.stubs['Path::is_file'] = probe(lambda k: k == 1)
        I.stubs['Path::exists'] = probe(lambda k: k != 0)
        I.stubs['Path::try_exists'] = lambda I2, a, ci, dt: Ok(probe(lambda k: k != 0)(I2, a, ci, dt))
        return I.call_fn(f, [new_string(I, start)])

    def viol(I, cond, role, summary):
        out['obligations'] += 1
        if role in roles:
            return
        if isinstance(cond, bool):
            cond = z3.BoolVal(cond)
        if I.check(cond):
            m = I.solver.model()
            roles.add(role)
            out['violations'].append(dict(role=role, summary=summary, fsroot='root', start=start.decode(),
                                          marks={k.decode(): int(mval(m, v)) for k, v in holder['marks'].items()}))

    for I, pk, val in explore(prog, models.M, run_path, stats=stats, max_paths=20000):
        if pk == 'panic':
            out['panic_paths'] += 1
            viol(I, True, 'root-panic', 'panic: %s' % val.msg[:120])
            continue
        marks = holder['marks']

        def mk(a, rg, rh):
            g, h = marks[a.rstrip(b'/') + b'/.git'], marks[a.rstrip(b'/') + b'/.hg']
            return z3.Or(g == 2 if rg == 'dir' else g != 0, h == 2 if rh == 'dir' else h != 0)
        # A `.git` / `.hg` that is a regular file marks a linked worktree or a submodule checkout; whether that
        # makes the directory a root of its own is not fixed by the property, so every reading is accepted
        # (per marker: only a directory counts / anything counts): the root must be the nearest
        # ancestor-or-self that is marked under ONE of the four readings, the same reading for all ancestors.
        readings = [(rg, rh) for rg in ('dir', 'any') for rh in ('dir', 'any')]
        has = {r: [mk(a, *r) for a in anc] for r in readings}
        if val.v != 0:
            viol(I, zor(has[('dir', 'dir')]), 'root-not-found-although-marked', 'Err although an ancestor holds a .git/.hg directory')
        else:
            got = bytes(as_sstr(I, val.f[0]).b)
            if got not in anc:
                viol(I, True, 'root-not-an-ancestor', 'root %r is not an ancestor of %r' % (got, start))
            else:
                k = anc.index(got)
                viol(I, z3.Not(has[('any', 'any')][k]), 'root-without-marker', 'root %r holds neither .git nor .hg' % got)
                nearest = [zand([has[r][k]] + [z3.Not(x) for x in has[r][:k]]) for r in readings]
                viol(I, z3.Not(zor(nearest)), 'root-not-nearest', 'a nearer ancestor than %r holds .git/.hg' % got)
        out['cover']['root'] = out['cover'].get('root', 0) + 1
        if len(out['samples']) < 3:
            m = I.ensure_model()
            out['samples'].append(dict(fsroot='root', start=start.decode(), role='sample', summary='sample path',
                                       marks={k.decode(): int(mval(m, v)) for k, v in holder['marks'].items()}))
    out.update(Agg(PROP, 'x').stats_from(stats))
    return out


def run_walkfs(task):
    root, rels = task
    prog = driver.load_program()
    stats = PathStats()
    f_walk = prog.find_method('FileSystemImpl', 'walk') or prog.find_fn('<FileSystemImpl as FileSystem>::walk')
    f_read = prog.find_method('FileSystemImpl', 'read_to_string')
    if f_walk is None or f_read is None:
        raise EngineError('FileSystemImpl::walk / read_to_string not in the MIR dump')
    out = dict(violations=[], samples=[], obligations=0, cover={}, panic_paths=0)
    holder = {}
    roles = set()
    base = root.rstrip(b'/')

    def run_path(I):
        # 0 file, 1 directory, 2 error, 3 symbolic link to a file, 4 symbolic link to a directory
        kinds = [I.fresh_int('kind%d' % i, 0, 4) for i in range(len(rels))]
        holder['kinds'] = kinds
        reads = []
        holder['reads'] = reads
        full = [base + b'/' + r for r in rels]

        def walk_new(I2, a, ci, dt):
            got_root = bytes(as_sstr(I2, a[0]).b)
            holder['walk_root'] = got_root
            items = []
            for i, p in enumerate(full):
                if I2.branch(kinds[i] == 2):
                    items.append(Err(Opaque('ignore::Error#%d' % i)))
                else:
                    items.append(Ok(Struct('DirEntry', (i,))))
            return ListIter(items)

        def entry_path(I2, a, ci, dt):
            e = a[0]
            while isinstance(e, Ref):
                e = I2.load(e)
            return new_string(I2, full[e.f[0]])

        def is_dir(I2, a, ci, dt):
            p = bytes(as_sstr(I2, a[0]).b)
            k = kinds[full.index(p)]
            return z3.Or(k == 1, k == 4)            # Path::is_dir follows symbolic links

        def entry_of(I2, v):
            while isinstance(v, Ref):
                v = I2.load(v)
            return v

        # DirEntry::file_type / std::fs::FileType do NOT follow links (the walker does not either by default)
        def file_type(I2, a, ci, dt):
            return Some(Struct('FileType', (entry_of(I2, a[0]).f[0],)))
        I.stubs['DirEntry::file_type'] = file_type
        I.stubs['FileType::is_file'] = lambda I2, a, ci, dt: kinds[entry_of(I2, a[0]).f[0]] == 0
        I.stubs['FileType::is_dir'] = lambda I2, a, ci, dt: kinds[entry_of(I2, a[0]).f[0]] == 1
        I.stubs['FileType::is_symlink'] = lambda I2, a, ci, dt: z3.Or(kinds[entry_of(I2, a[0]).f[0]] == 3, kinds[entry_of(I2, a[0]).f[0]] == 4)
        I.stubs['DirEntry::path_is_symlink'] = lambda I2, a, ci, dt: z3.Or(kinds[entry_of(I2, a[0]).f[0]] == 3, kinds[entry_of(I2, a[0]).f[0]] == 4)

        def fs_read(I2, a, ci, dt):
            reads.append(bytes(as_sstr(I2, a[0]).b))
            return Ok(new_string(I2, b'text'))
        I.stubs['Walk::new'] = walk_new
        I.stubs['DirEntry::path'] = entry_path
        I.stubs['Path::is_dir'] = is_dir
        I.stubs['fs::read_to_string'] = fs_read
        I.stubs['std::fs::read_to_string'] = fs_read
        I.stubs['Error::from'] = lambda I2, a, ci, dt: Struct('anyhow::Error', (a[0],))
        me = Ref(Cell(mk_struct(prog, 'FileSystemImpl', root_path=new_string(I, root))), ())
        it = I.call_fn(f_walk, [me])
        items = collect_iter(I, it, limit=64)
        holder['items'] = items
        # read the first file through the same FileSystemImpl
        res = I.call_fn(f_read, [me, new_string(I, rels[0])])
        holder['read_res'] = res
        return VecVal(items)

    def viol(I, cond, role, summary):
        out['obligations'] += 1
        if role in roles:
            return
        if isinstance(cond, bool):
            cond = z3.BoolVal(cond)
        if I.check(cond):
            m = I.solver.model()
            roles.add(role)
            out['violations'].append(dict(role=role, summary=summary, fsroot='walk', root=root.decode(),
                                          rels=[r.decode() for r in rels], kinds=[mval(m, k) for k in holder['kinds']]))

    for I, pk, val in explore(prog, models.M, run_path, stats=stats, max_paths=20000):
        if pk == 'panic':
            out['panic_paths'] += 1
            viol(I, True, 'walk-panic', 'panic: %s' % val.msg[:120])
            continue
        kinds = holder['kinds']
        items = holder['items']
        if holder.get('walk_root') != root:
            viol(I, True, 'walk-not-rooted-at-root', 'the walk starts at %r, the root is %r' % (holder.get('walk_root'), root))
        # on this path the kinds are decided up to file/dir vs error by the branches taken; compare as lists
        want = []
        conds = []
        got = []
        for it in items:
            if it.v == 0:
                got.append(('ok', bytes(as_sstr(I, it.f[0]).b)))
            else:
                got.append(('err', None))
        # expected list under the path condition: entry i contributes unless it is a directory
        # (the path condition fixes every kind to one of the three by the branches the code took)
        exp = []
        for i, r in enumerate(rels):
            is_err, is_dirlike, is_filelike = kinds[i] == 2, z3.Or(kinds[i] == 1, kinds[i] == 4), z3.Or(kinds[i] == 0, kinds[i] == 3)
            if not I.check(z3.Not(is_err)):
                exp.append(('err', None))
            elif not I.check(z3.Not(is_dirlike)):
                pass
            elif not I.check(z3.Not(is_filelike)):
                exp.append(('ok', r))
            else:
                exp.append(('undecided', i))
        if any(e[0] == 'undecided' for e in exp):
            # the code did not look at the kind of some entry: then its treatment cannot depend on it
            amb = [e[1] for e in exp if e[0] == 'undecided']
            viol(I, True, 'walk-ignores-entry-kind', 'the walk treats entry %s alike whether it is a file (or a link to one) or a directory (or a link to one)' % [rels[i].decode() for i in amb])
        elif got != exp:
            viol(I, True, 'walk-yields-wrong-paths', 'walk yields %s, expected %s' % (got, exp))
        reads = holder['reads']
        if reads != [base + b'/' + rels[0]]:
            viol(I, True, 'read-not-under-root', 'read_to_string(%r) opened %s' % (rels[0], reads))
        out['cover']['walk'] = out['cover'].get('walk', 0) + 1
    out.update(Agg(PROP, 'x').stats_from(stats))
    return out


def confirm_root(binary, prop, v, idx):
    """Replay: nested directories with the markers of the model; blockwatch is started in the deepest
    one and lists a file there; the key of the report shows which directory was taken as the root."""
    start = v['start'].encode()
    d = scratch_dir('fsroot')
    try:
        deepest = os.path.join(d, start.decode().lstrip('/'))
        os.makedirs(deepest, exist_ok=True)
        kinds = {}
        for a in ancestors_of(start):
            rel = a.decode().lstrip('/')
            for m in ('.git', '.hg'):
                kind = v['marks'].get((a.rstrip(b'/') + b'/' + m.encode()).decode()) or 0
                kinds[(a, m)] = kind
                if kind == 2:
                    os.makedirs(os.path.join(d, rel, m), exist_ok=True)
                elif kind == 1:
                    os.makedirs(os.path.join(d, rel), exist_ok=True)
                    open(os.path.join(d, rel, m), 'w').write('gitdir: elsewhere\n')
        roots = []               # the nearest marked ancestor under each of the four readings (None: no root)
        for rg in (2, 1):
            for rh in (2, 1):
                roots.append(next((a for a in ancestors_of(start) if kinds[(a, '.git')] >= rg or kinds[(a, '.hg')] >= rh), None))
        open(os.path.join(deepest, 'f.py'), 'w').write('# <block name="r">\nx\n# </block>\n')
        r = run_blockwatch(binary, deepest, ['list', '**/f.py'], stdin=b'')
    finally:
        shutil.rmtree(d, ignore_errors=True)
    v['observed'] = dict(code=r['code'], stdout=r['stdout'][:300], stderr=r['stderr'][-300:])
    def key_for(root):
        rel = start[len(root.rstrip(b'/')) + 1:].decode() if start != root else ''
        return (rel + '/' if rel else '') + 'f.py'
    try:
        keys = list(json.loads(r['stdout']).keys())
    except ValueError:
        keys = None
    ok_keys = [[key_for(x)] for x in roots if x is not None]
    err_ok = any(x is None for x in roots)
    v['expected'] = ' or '.join(['report key %s' % k[0] for k in ok_keys] + (['an error: no repository root'] if err_ok else []))
    v['confirmed'] = not (keys in ok_keys or (err_ok and r['code'] != 0))
    if v['confirmed']:
        v['replay'] = save_replay(prop, 'fsroot-%s-%d' % (v['role'], idx), {'layout.json': json.dumps(v, default=str).encode()},
                                  "list '**/f.py' (started in %s)" % v['start'], v['expected'] + '; ' + v['summary'], v)
    return v


def confirm_walk(binary, prop, v, idx):
    """Replay: a repository with files in sub-directories, a symbolic link to a file and one to a directory:
    every file (and the link to a file) is listed under its path relative to the root."""
    files = {'a.py': '# <block name="a">\n# </block>\n', 'b/b.py': '# <block name="b">\n# </block>\n',
             'b/c/d.py': '# <block name="d">\n# </block>\n', 'outside/t.txt': 'no blocks\n',
             'outside/target.py': '# <block name="linked">\n# </block>\n'}
    links = {'link.py': 'outside/target.py', 'ldir.py': 'b/c'}
    want = sorted(['a.py', 'b/b.py', 'b/c/d.py', 'link.py', 'outside/target.py'])
    d = scratch_dir('fswalk')
    try:
        git_init(d)
        for fn, content in files.items():
            os.makedirs(os.path.dirname(os.path.join(d, fn)) or d, exist_ok=True)
            open(os.path.join(d, fn), 'w').write(content)
        for ln, target in links.items():
            os.symlink(target, os.path.join(d, ln))
        r = run_blockwatch(binary, d, ['list', '**/*.py'], stdin=b'')
    finally:
        shutil.rmtree(d, ignore_errors=True)
    try:
        keys = sorted(json.loads(r['stdout']).keys())
    except ValueError:
        keys = None
    v['observed'] = dict(code=r['code'], keys=keys, stderr=r['stderr'][-300:])
    v['expected'] = want
    v['confirmed'] = keys != want
    if v['confirmed']:
        fs = {k: c.encode() for k, c in files.items()}
        fs['make_links.sh'] = ''.join('ln -s %s %s\n' % (t, l) for l, t in links.items()).encode()
        v['replay'] = save_replay(prop, 'fswalk-%s-%d' % (v['role'], idx), fs,
                                  "list '**/*.py'  (after sh make_links.sh)", 'expected keys %s; %s' % (want, v['summary']), v)
    return v


def run_globs(task):
    """Args::globs / Args::ignored_globs (real MIR): the positional globs - those given at the top level and
    those given to `list` - all end up in the allow set, verbatim; the --ignore patterns (and only they) in
    the ignore set, verbatim; a pattern globset refuses makes the call fail; nothing depends on the file
    system (Path::is_dir / exists / is_file answer arbitrarily).  globset itself is a recording stub."""
    top, lst, ign, bad = task          # lst None: no sub-command; bad: None | ('top'|'list'|'ign', index)
    top = [x.encode() for x in top]
    ign = [x.encode() for x in ign]
    is_list = lst is not None
    lst = [x.encode() for x in (lst or [])]
    prog = driver.load_program()
    stats = PathStats()
    f_globs = prog.find_method('Args', 'globs')
    f_ign = prog.find_method('Args', 'ignored_globs')
    if f_globs is None or f_ign is None:
        raise EngineError('Args::globs / ignored_globs not in the MIR dump')
    out = dict(violations=[], samples=[], obligations=0, cover={}, panic_paths=0)
    roles = set()
    badpat = None
    if bad:
        badpat = {'top': top, 'list': lst, 'ign': ign}[bad[0]][bad[1]]

    def desc():
        return dict(fsroot='globs', top=[x.decode() for x in top], list=[x.decode() for x in lst],
                    ignore=[x.decode() for x in ign], bad=bad, is_list=is_list)

    def run_path(I):
        st = I.stubs
        n = [0]

        def fs_probe(I2, a, ci, dt):
            n[0] += 1
            return I2.fresh_bool('fs%d' % n[0])
        for k in ('Path::is_dir', 'Path::exists', 'Path::is_file'):
            st[k] = fs_probe

        def glob_new(I2, a, ci, dt):
            p = bytes(as_sstr(I2, a[0]).b)
            if p == badpat:
                return Err(Opaque('globset::Error', 'invalid pattern'))
            return Ok(Struct('Glob', (p,)))
        st['Glob::new'] = glob_new
        st['GlobSetBuilder::new'] = lambda I2, a, ci, dt: Struct('GlobSetBuilder', (VecVal(()),))

        def add(I2, a, ci, dt):
            r = a[0]
            b_ = I2.load(r)
            I2.store(r, Struct('GlobSetBuilder', (VecVal(tuple(b_.f[0].items) + (a[1].f[0],)),)))
            return r
        st['GlobSetBuilder::add'] = add

        def build(I2, a, ci, dt):
            b_ = a[0]
            while isinstance(b_, Ref):
                b_ = I2.load(b_)
            return Ok(Struct('GlobSet', (tuple(b_.f[0].items),)))
        st['GlobSetBuilder::build'] = build
        cmd = NONE
        if is_list:
            vi = prog.variant_index('SubCommand', 'List')
            cmd = Some(Enum('SubCommand', vi, 'List', (VecVal([new_string(I, x) for x in lst]),)))
        args = mk_struct(prog, 'Args', extensions=VecVal(()), disabled_validators=VecVal(()), enabled_validators=VecVal(()),
                         ignore=VecVal([new_string(I, x) for x in ign]), globs=VecVal([new_string(I, x) for x in top]), command=cmd)
        me = Ref(Cell(args), ())
        g = I.call_fn(f_globs, [me])
        i = I.call_fn(f_ign, [me])
        return Tuple(g, i)

    def viol(I, role, summary):
        out['obligations'] += 1
        if role in roles:
            return
        roles.add(role)
        out['violations'].append(dict(desc(), role=role, summary=summary))

    for I, pk, val in explore(prog, models.M, run_path, stats=stats, max_paths=2000):
        if pk == 'panic':
            out['panic_paths'] += 1
            viol(I, 'globs-panic', 'panic: %s' % val.msg[:120])
            continue
        g, i = val.f
        out['obligations'] += 2
        want_g_err = bool(bad and bad[0] in ('top', 'list'))
        want_i_err = bool(bad and bad[0] == 'ign')
        if (g.v != 0) != want_g_err:
            viol(I, 'glob-error-handling-wrong', 'positional globs %s (refused pattern: %s): %s' % ([x.decode() for x in top + lst], badpat, 'Err' if g.v else 'Ok'))
        elif g.v == 0 and sorted(g.f[0].f[0]) != sorted(top + lst):
            viol(I, 'allow-set-is-not-the-positional-globs', 'allow set %s, positional globs %s' % (sorted(g.f[0].f[0]), sorted(top + lst)))
        if (i.v != 0) != want_i_err:
            viol(I, 'glob-error-handling-wrong', '--ignore %s (refused pattern: %s): %s' % ([x.decode() for x in ign], badpat, 'Err' if i.v else 'Ok'))
        elif i.v == 0 and sorted(i.f[0].f[0]) != sorted(ign):
            viol(I, 'ignore-set-is-not-the-ignore-globs', 'ignore set %s, --ignore %s' % (sorted(i.f[0].f[0]), sorted(ign)))
        out['cover']['globs'] = out['cover'].get('globs', 0) + 1
        if not out['samples']:
            out['samples'].append(dict(desc(), role='sample', summary='sample path'))
    out.update(Agg(PROP, 'x').stats_from(stats))
    return out


def confirm_globs(binary, prop, v, idx):
    """Replay over a tree with one file per wildcard pattern, a directory for every pattern that is a plain
    name, the ignored files and one file no pattern matches:  `blockwatch --ignore .. [globs]` (validation:
    every file holds an unsorted keep-sorted block, the diagnostics name the files examined),
    `blockwatch --ignore .. list [globs]`, or - globs on both sides - `blockwatch [globs] -d check-ai list
    [globs]` (an option must sit in between, or the word `list` is taken for a glob).  A hidden ignored
    directory is also named in a diff (hidden files only enter through the diff) and must stay out."""
    body = '# <block name="b" keep-sorted>\nb\na\n# </block>\n'
    files = {}
    want = []
    for g in v['top'] + v['list']:
        if '*' in g:
            fn = g.replace('**', 'd/y.py').replace('*', 'x')
            files[fn] = body
            want.append(fn)
        else:
            files[g + '/a.py'] = body         # the pattern names a directory: a glob `src` does not select src/a.py
    if not v['top'] and not v['list']:
        want = None          # no glob: nothing is scanned when stdin is not a terminal
    hidden = []
    for g in v['ignore']:
        base = g[:-3] if g.endswith('/**') else g
        files[base + '/i.py'] = body
        if base.startswith('.'):
            hidden.append(base + '/i.py')
    files['other/z.py'] = body
    real = {k: list(v[k]) for k in ('top', 'list', 'ignore')}
    if v.get('bad'):
        # the pattern the stub refused is written as one globset really refuses (an unclosed character class)
        real[{'top': 'top', 'list': 'list', 'ign': 'ignore'}[v['bad'][0]]][v['bad'][1]] = 'bad[/x'
    argv = []
    for g in real['ignore']:
        argv += ['--ignore', g if (g.endswith('/**') or g.startswith('bad[')) else g + '/**']
    # the ignored directories also match a positional glob: --ignore wins
    extra = ['ign*/**'] if any(g.startswith('ign') for g in v['ignore']) and (v['top'] or v['list']) else []
    if v.get('is_list'):
        argv += (real['top'] + ['-d', 'check-ai'] if real['top'] else []) + ['list'] + real['list'] + extra
    else:
        argv += real['top'] + extra
    d = scratch_dir('globs')
    r2 = None
    try:
        git_init(d)
        for fn, content in files.items():
            os.makedirs(os.path.dirname(os.path.join(d, fn)) or d, exist_ok=True)
            open(os.path.join(d, fn), 'w').write(content)
        r = run_blockwatch(binary, d, argv, stdin=b'')
        if hidden and not v.get('bad'):
            diff = b''
            for fn in hidden:
                lines = files[fn].split('\n')[:-1]
                diff += ('diff --git a/%s b/%s\n--- /dev/null\n+++ b/%s\n@@ -0,0 +1,%d @@\n' % (fn, fn, fn, len(lines))).encode() + ''.join('+' + l + '\n' for l in lines).encode()
            ign_args = []
            for g in real['ignore']:
                ign_args += ['--ignore', g if g.endswith('/**') else g + '/**']
            r2 = run_blockwatch(binary, d, ign_args + ['list'], stdin=diff)
    finally:
        shutil.rmtree(d, ignore_errors=True)
    try:
        keys = sorted(json.loads(r['stdout'] if v.get('is_list') else r['stderr']).keys())
    except ValueError:
        keys = None
    v['observed'] = dict(code=r['code'], keys=keys, stderr=r['stderr'][-200:])
    v['expected'] = sorted(want) if want else want
    if v.get('bad'):
        v['confirmed'] = r['code'] == 0 or keys is not None      # a refused pattern must fail the run
    elif not want:
        v['confirmed'] = bool(keys)
    else:
        v['confirmed'] = keys != sorted(want)
    if r2 is not None:
        try:
            k2 = sorted(json.loads(r2['stdout']).keys())
        except ValueError:
            k2 = None
        v['observed']['hidden_ignored_file_in_diff'] = dict(code=r2['code'], keys=k2)
        if k2 != []:
            v['confirmed'] = True
    if v['confirmed']:
        v['replay'] = save_replay(prop, 'globs-%s-%d' % (v['role'], idx), {k: c.encode() for k, c in files.items()},
                                  ' '.join(argv), 'expected files %s; %s' % (v['expected'], v['summary']), v)
    return v


READ_ALPHABET = (0xEF, 0xBB, 0xBF, 10, 13, 32, 35, 60, 97)      # the bytes of a byte-order mark, line ends, blank, #, <, a


def run_readfs(task):
    """FileSystemImpl::read_to_string (real MIR) over a std::fs::read_to_string stub that returns N symbolic
    bytes: the text handed on is the file's content byte for byte (every position blockwatch reports is a
    byte position in the file: a byte-order mark, a CR or a trailing blank is part of it), an I/O error
    comes through as Err."""
    n, fail = task
    prog = driver.load_program()
    stats = PathStats()
    f_read = prog.find_method('FileSystemImpl', 'read_to_string')
    if f_read is None:
        raise EngineError('FileSystemImpl::read_to_string not in the MIR dump')
    out = dict(violations=[], samples=[], obligations=0, cover={}, panic_paths=0)
    roles = set()
    holder = {}

    def run_path(I):
        content = tuple(I.fresh_byte('fb%d' % i, READ_ALPHABET) for i in range(n))
        # valid UTF-8: the three bytes of the mark only appear together, and only at the start
        nomark = lambda b: z3.And(b != 0xEF, b != 0xBB, b != 0xBF)
        if n >= 3:
            I.add(z3.Or(z3.And(content[0] == 0xEF, content[1] == 0xBB, content[2] == 0xBF), zand([nomark(b) for b in content[:3]])))
        for i, b in enumerate(content):
            if i >= 3 or n < 3:
                I.add(nomark(b))
        holder['content'] = content

        def fs_read(I2, a, ci, dt):
            if fail:
                return Err(Opaque('io::Error', 'No such file or directory'))
            return Ok(SString(content, I2.new_alloc()))
        I.stubs['fs::read_to_string'] = fs_read
        I.stubs['std::fs::read_to_string'] = fs_read
        me = Ref(Cell(mk_struct(prog, 'FileSystemImpl', root_path=new_string(I, b'/r'))), ())
        return I.call_fn(f_read, [me, new_string(I, b'a.py')])

    def viol(I, cond, role, summary):
        out['obligations'] += 1
        if role in roles:
            return
        if isinstance(cond, bool):
            cond = z3.BoolVal(cond)
        if I.check(cond):
            m = I.solver.model()
            roles.add(role)
            out['violations'].append(dict(role=role, summary=summary, fsroot='read',
                                          content=model_bytes(m, holder['content']).decode('latin1')))

    for I, pk, val in explore(prog, models.M, run_path, stats=stats, max_paths=5000):
        if pk == 'panic':
            out['panic_paths'] += 1
            viol(I, True, 'read-panic', 'panic: %s' % val.msg[:120])
            continue
        if fail:
            if val.v == 0:
                viol(I, True, 'read-error-swallowed', 'the file cannot be read, but read_to_string returned Ok')
        elif val.v != 0:
            viol(I, True, 'read-fails', 'the file was read, but read_to_string returned Err')
        else:
            got = as_sstr(I, val.f[0]).b
            want = holder['content']
            if len(got) != len(want):
                viol(I, True, 'file-text-altered', 'the file has %d bytes, the text handed on has %d' % (len(want), len(got)))
            else:
                viol(I, zor([g != w for g, w in zip(got, want)]) if n else False, 'file-text-altered', 'the text handed on differs from the bytes of the file')
        out['cover']['read'] = out['cover'].get('read', 0) + 1
    out.update(Agg(PROP, 'x').stats_from(stats))
    return out


def confirm_read(binary, prop, v, idx):
    """Replay: the witness content, followed by a block, as a .py file: the listed position of the tag is its
    byte position in the file."""
    head = v.get('content', '').encode('latin1')
    # keep the head on one line so that the tag's line is 1 and its column counts the head's bytes
    head = bytes(b for b in head if b not in (10, 13))
    content = head + b'# <block name="t">\n# </block>\n'
    want = (1, len(head) + 3)
    d = scratch_dir('fsread')
    try:
        git_init(d)
        open(os.path.join(d, 'a.py'), 'wb').write(content)
        r = run_blockwatch(binary, d, ['list', 'a.py'], stdin=b'')
    finally:
        shutil.rmtree(d, ignore_errors=True)
    got = None
    try:
        b0 = json.loads(r['stdout'])['a.py'][0]
        got = (b0['line'], b0['column'])
    except (ValueError, KeyError, IndexError):
        pass
    v['observed'] = dict(code=r['code'], tag_at=got, stderr=r['stderr'][-200:])
    v['expected'] = want
    v['confirmed'] = got != want
    if v['confirmed']:
        v['replay'] = save_replay(prop, 'fsread-%s-%d' % (v['role'], idx), {'a.py': content}, 'list a.py',
                                  'expected the tag at line %d column %d (byte column); %s' % (want[0], want[1], v['summary']), v)
    return v
