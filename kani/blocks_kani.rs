// Kani cross-check (second engine, real compiled code incl. the real std binary_search_by):
// Block::intersects_with_line_change{,_inclusive} equal a linear oracle for every line change with
// up to 3 sorted, separated ranges.  Appended to a scratch copy of src/blocks.rs as
// `#[cfg(kani)] #[path = "..."] mod verif_kani;` — the repository itself carries no hook.
use super::*;
use crate::Position;
use crate::diff_parser::LineChange;

fn any_ranges() -> Option<Vec<std::ops::Range<usize>>> {
    if kani::any() {
        return None;
    }
    let n: usize = kani::any();
    kani::assume(n <= 3);
    let mut v = Vec::new();
    let mut prev_end: usize = 0;
    let mut first = true;
    let mut i = 0;
    while i < n {
        let a: usize = kani::any();
        let b: usize = kani::any();
        kani::assume(a < b && b <= 12);
        kani::assume(first || a > prev_end);
        first = false;
        prev_end = b;
        v.push(a..b);
        i += 1;
    }
    Some(v)
}

#[kani::proof]
#[kani::unwind(5)]
fn content_intersection_equals_linear_oracle() {
    let (sl, sc, el, ec): (usize, usize, usize, usize) = (kani::any(), kani::any(), kani::any(), kani::any());
    kani::assume(sl >= 1 && sl <= 5 && el >= sl && el <= 5 && sc >= 1 && sc <= 9 && ec >= 1 && ec <= 9);
    let line: usize = kani::any();
    kani::assume(line >= 1 && line <= 6);
    let ranges = any_ranges();
    let expect = if line < sl || line > el {
        false
    } else {
        match &ranges {
            None => true,
            Some(rs) => {
                let s = if line == sl { sc - 1 } else { 0 };
                let e = if line < el { usize::MAX } else { ec - 1 };
                rs.iter().any(|r| r.end > s && r.start < e)
            }
        }
    };
    let lc = LineChange { line, ranges };
    let got = Block::intersects_with_line_change(&(Position::new(sl, sc)..Position::new(el, ec)), &lc);
    assert!(got == expect);
}

#[kani::proof]
#[kani::unwind(5)]
fn start_tag_intersection_equals_linear_oracle() {
    let (sl, sc, el, ec): (usize, usize, usize, usize) = (kani::any(), kani::any(), kani::any(), kani::any());
    kani::assume(sl >= 1 && sl <= 5 && el >= sl && el <= 5 && sc >= 1 && sc <= 9 && ec >= 1 && ec <= 9);
    let line: usize = kani::any();
    kani::assume(line >= 1 && line <= 6);
    let ranges = any_ranges();
    let expect = if line < sl || line > el {
        false
    } else {
        match &ranges {
            None => true,
            Some(rs) => {
                let s = if line == sl { sc - 1 } else { 0 };
                let e = if line < el { usize::MAX } else { ec - 1 };
                rs.iter().any(|r| r.end > s && r.start <= e)
            }
        }
    };
    let lc = LineChange { line, ranges };
    let got = Block::intersects_with_line_change_inclusive(&(Position::new(sl, sc)..=Position::new(el, ec)), &lc);
    assert!(got == expect);
}
