#!/bin/sh
# usage: tools/try_seed.sh <patch.diff> <PROP> [<PROP>...]  -- applies the patch to /repo, runs the quick checks, reverts.
patch="$(readlink -f "$1")"; shift
cd /repo || exit 3
if [ -n "$(git status --porcelain --untracked-files=no)" ]; then echo "/repo not clean"; exit 3; fi
git apply "$patch" 2>/dev/null || git apply -3 "$patch" || { echo "patch does not apply"; git reset -q --hard HEAD; exit 3; }
trap 'git -C /repo reset -q --hard HEAD' EXIT
cd /verif
for p in "$@"; do
  echo "=== $p on $(basename $patch)"
  ./check "$p" --tier "${TIER:-quick}" 2>&1 | grep -v "^WARNING" | tail -${TAIL:-6}
  echo "exit=$?"
done
