#!/bin/bash
# Runs the seed matrix in four shards and the refactoring sets next to them, each with its own scratch
# worktree (under /tmp) and its own build cache (under /var/tmp), so that the cargo builds do not queue.
# usage: tools/run_matrix_parallel.sh [--no-refactors]      logs: /var/tmp/matrix_shard<k>.log, /var/tmp/refactor_full.log
cd "$(dirname "$0")/.." || exit 3
seeds=$(ls seeded | grep -v '^_' | grep -v RESULTS | sort)
for k in 0 1 2 3; do
  lst=$(echo "$seeds" | awk -v k=$k 'NR%4==k')
  ( MATRIX_WT=/tmp/matrix_wt$k VERIF_CACHE_DIR=/var/tmp/bwcache$k python3 tools/seed_matrix.py --all-on-miss $lst > /var/tmp/matrix_shard$k.log 2>&1 ) &
done
if [ "$1" != "--no-refactors" ]; then
  ( for r in R1 R2 R3 R4 R5 R6; do REFACTOR_WT=/tmp/refactor_wt VERIF_CACHE_DIR=/var/tmp/bwcacheR python3 tools/try_refactor.py refactors/$r; done > /var/tmp/refactor_full.log 2>&1 ) &
fi
wait
# the table is rebuilt from every meta.json by whichever shard ends last; rebuild once more to be sure
python3 tools/seed_matrix.py __none__ >/dev/null 2>&1
for k in 0 1 2 3; do git -C /repo worktree remove --force /tmp/matrix_wt$k 2>/dev/null; rm -rf /var/tmp/bwcache$k; done
rm -rf /var/tmp/bwcacheR
