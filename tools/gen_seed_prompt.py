#!/usr/bin/env python3
"""Writes /tmp/seed_<ID>.prompt for a sub-agent: only the property text and its own worktree."""
import json, sys
props = {}
for l in open('/verif/properties.jsonl'):
    p = json.loads(l); props[p['id']] = p
ROUND2 = '--round2' in sys.argv
ROUND3 = '--round3' in sys.argv
ROUND4 = '--round4' in sys.argv
ROUND5 = '--round5' in sys.argv
for pid in [a for a in sys.argv[1:] if not a.startswith('--')]:
    p = props[pid]
    R2 = (" This is a SECOND round: an earlier round already produced the most obvious slips for this property (single flipped operators, dropped trims, swapped first/last), so go for subtler ones - interactions between two features, state carried across loop iterations or across blocks/files, rarely taken branches, multi-byte text, boundary positions (first/last line, column 1, end of file), option combinations." if ROUND2 else "")
    if ROUND3:
        R2 = " This is a THIRD round: earlier rounds already produced flipped operators, dropped trims, swapped first/last, state leaking across blocks or files, byte-versus-character confusions, concurrency throttles that drop results and caches keyed too coarsely. Look for DIFFERENT mechanisms: error-handling paths (errors swallowed, converted to defaults, or reported for the wrong item), defaults and fallbacks, interactions between two options or two attributes on one block, ordering / sorting / de-duplication steps, collection boundaries (first or last element, empty or single-element collections), integer conversions and saturating arithmetic, path handling (relative versus absolute, sub-directories, unusual but legal file names), and the less central clauses of the property statement."
    if ROUND4:
        R2 = " This is a FOURTH round: earlier rounds already covered flipped operators, dropped trims, state leaking across blocks or files, byte-versus-character confusions, concurrency throttles, caches keyed too coarsely, swallowed errors, de-duplicating ordering steps and integer saturation. Look in the LESS CENTRAL code paths that still matter for this property: language-specific handling (Markdown with its two comment kinds and HTML blocks inside list items or block quotes, XML/HTML, languages with several comment forms), the file-system side (directory walk, symbolic links, how the repository root is found, how relative paths are formed), how command-line arguments are turned into glob sets and options (sub-commands, repeated flags, global flags after the sub-command), `list` versus validation mode, and code that converts between two coordinate systems (node positions to file positions, block-relative to file-relative)."
    if ROUND5:
        R2 = " This is a FIFTH round: earlier rounds already covered flipped operators, dropped trims, state leaking across blocks or files, byte-versus-character confusions, concurrency throttles, coarse caches, swallowed errors, de-duplication steps, integer saturation, Markdown/HTML specifics and the file-system side. Look for slips that need TWO things at once: an attribute combined with another attribute on the same block (severity, name, a second rule, a *-pattern attribute), a regex feature (anchors, several groups, an optional or empty `value` group, alternation, a match at the very start or end of a line, an empty match), content shapes (only blank lines, a single line, content that starts on the tag's line, nested blocks whose tag lines are part of the outer content, CRLF line ends, a last line without newline), values at the edge of their type, or environment variables set to unusual but legal values. Also consider code shared between validators (content extraction, line splitting, trimming, position computation) where a change only shows for one of them."
    txt = f"""You are helping to evaluate a verification tool by seeding realistic bugs ("mutations") into a Rust project.

The project is mennanov/blockwatch, a CLI linter that parses <block> tags in source comments (via tree-sitter) and validates rules (keep-sorted, keep-unique, line-pattern, line-count, affects/drift with a git diff on stdin, check-lua, check-ai). You have your OWN scratch git worktree of it at /tmp/seed_{pid} (work ONLY there and in /tmp/seed_{pid}.out; never touch /repo or /verif, and do not read anything under /verif). The sandbox has no network; build with `cd /tmp/seed_{pid} && CARGO_NET_OFFLINE=true cargo build --offline` and test with `CARGO_NET_OFFLINE=true cargo test --offline` (all 237 tests pass on the unmodified tree; first build takes a few minutes). NOTE: the worktree's `.git` is a file, so an empty directory /tmp/seed_{pid}/.hg has been created as the repository-root marker the integration tests need; leave it there. The binary is target/debug/blockwatch. It must run inside a directory tree that has a `.git` directory at its root (an empty `mkdir .git` is enough); a diff is given on stdin (`git diff -U0 | blockwatch list`, or a hand-written unified diff), `blockwatch list` prints blocks as JSON, plain `blockwatch` validates and prints diagnostics JSON on stderr with exit 1 on error-severity violations. When stdin is not a terminal and no glob args are given it expects a diff on stdin; pass globs (e.g. 'x.py') to scan files (use `< /dev/null`).

PROPERTY {pid}: {p['title']}
{p['statement']}
Quantified over: {p['quantifier']['text']}
Relevant code: {', '.join(p['anchors']['files'])}

YOUR TASK: produce THREE different, independent source changes (each a separate patch against the unmodified worktree HEAD) that each BREAK this property while the crate still compiles and ALL existing tests still pass (`cargo test --offline` - run it and confirm 237 passed, 0 failed for each patch). Each change must look like a plausible programming slip or well-meant refactor/optimisation (off-by-one, wrong comparison operator, wrong variable, reordered statements, lost special case, boundary condition...), NOT an obvious sabotage, and it must need something SPECIFIC to manifest - an unusual input, a particular multi-step combination, a boundary value, two cooperating sites - not something that ordinary use would expose at once. Prefer changes in different functions/mechanisms for the three patches.{R2}

For each patch i in 1..3 write into /tmp/seed_{pid}.out/ :
  - patch{{i}}.diff   : `git diff` output against HEAD (must apply with `git apply` to a clean checkout)
  - demo{{i}}.sh      : an executable shell script taking the path to a blockwatch binary as $1, which builds the needed input files in a fresh temp dir (with `mkdir .git`), runs the binary, and exits 0 if the property-conforming behaviour is observed and non-zero if the property is violated. It must exit 0 with the UNMODIFIED binary and non-zero with the patched binary. Verify both yourself (build once before patching and copy target/debug/blockwatch to /tmp/seed_{pid}.out/blockwatch.orig).
  - meta{{i}}.json    : {{"property": "{pid}", "summary": "...what was changed...", "needs": "...what specific input/sequence it needs to manifest...", "files": [...], "tests_passed": 237}}
After each patch is recorded, restore the worktree (`git checkout -- .`) before making the next one. When finished, leave the worktree clean and reply with a short summary of the three patches (what, where, what input triggers). Do not commit anything.
"""
    open(f'/tmp/seed_{pid}.prompt', 'w').write(txt)
    print('wrote', pid)
