#!/bin/sh
# Runs every registered quick (or $1 = thorough) check sequentially; prints one line per property.
tier="${1:-quick}"
cd "$(dirname "$0")/.."
for p in $(python3 -c "import json;print(' '.join(c['property_id'] for c in json.load(open('MANIFEST.json'))['checks']))"); do
  s=$(date +%s)
  out=$(./check $p --tier $tier 2>&1); rc=$?
  e=$(date +%s)
  echo "$p rc=$rc $((e-s))s $(echo "$out" | grep -E "^$p $tier" | cut -c1-170)"
  echo "$out" | grep -E "^VIOLATION|^INCONCLUSIVE|^KNOWN-FINDING" | cut -c1-200
done
