#!/bin/bash
# For every fix: commit, revert it alone on top of HEAD in a scratch worktree and run the owning check:
# the violation must come back (exit 1).
cd /tmp/hand_wt || exit 3
declare -A OWN=( [7840229]=C01 [fe70c83]=C01 [d9a5bb3]=C02 [c089a2f]=C15 [882bf2f]=C10 [408e5a1]=C06 [b3177b8]=C04 [072e4ba]=C17 [0c70c7a]=C03 [7183ca5]=C10 )
for c in 7840229 fe70c83 d9a5bb3 c089a2f 882bf2f 408e5a1 b3177b8 072e4ba 0c70c7a 7183ca5; do
  git reset -q --hard; git checkout -q --detach $(git -C /repo rev-parse HEAD)
  if ! git revert --no-commit $c >/dev/null 2>&1; then echo "$c ${OWN[$c]}: revert conflicts"; git revert --abort 2>/dev/null; git reset -q --hard; continue; fi
  out=$(cd /verif && VERIF_REPO=/tmp/hand_wt ./check ${OWN[$c]} 2>&1); rc=$?
  echo "$c ${OWN[$c]}: exit=$rc $(echo "$out" | grep -E '^  role' | head -2 | tr '\n' ' ' | cut -c1-200)"
  git revert --abort 2>/dev/null; git reset -q --hard
done
