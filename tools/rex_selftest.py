#!/usr/bin/env python3-vt
"""Differential self-test of mirsym/rexmodel.py against Python's re on concrete inputs
(both are leftmost-first backtracking matchers on the shared syntax subset)."""
import os, random, re, sys
sys.path.insert(0, os.path.dirname(os.path.dirname(os.path.abspath(__file__))))
from mirsym import rexmodel, interp, models
from mirsym.values import SStr

PATS = [r'^a+$', r'a', r'^[ab]$', r'^.*b$', r'^$', r'=(?P<value>\d+)', r'(?P<value>[a-z]+)=', r'a|ab', r'(a|ab)(c|bcd)?',
        r'^\s*(?P<value>\w+)', r'[^a]b', r'a{2,3}', r'a*?b', r'(?i)ab', r'x(?:ab)*y', r'\d+\.\d+', r'^(a|b)*$', r'.', r'a?a?aa',
        r'(?P<value>b+)a', r'[a-c]+[0-9]', r'(a+)(b+)', r'a{2}', r'(ab)+', r'a.c', r'\w+\s\w+', r'b$', r'^a', r'(|a)b']
BAD = ['(', ')', '[a', '*a', '\\', '(?P<v', 'a{2,1}', '(?=a)', 'a{x}', '(?P<value>a)(?P<value>b)', '+']

def run():
    rnd = random.Random(1)
    class FakeI:
        def branch(self, c):
            assert isinstance(c, bool), c
            return c
    n = 0
    for p in PATS:
        m = rexmodel.Matcher(FakeI(), p.encode())
        pyp = re.compile(p.replace('$', r'\Z'))
        for _ in range(400):
            s = ''.join(rnd.choice('ab c=1.0x\n') for _ in range(rnd.randrange(0, 7)))
            got = m.search(SStr(tuple(s.encode())))
            want = pyp.search(s)
            if (got is None) != (want is None):
                print('MISMATCH', repr(p), repr(s), got, want); return 1
            if got is not None:
                if got[0] != want.span():
                    print('SPAN', repr(p), repr(s), got, want.span()); return 1
                for name, idx in m.names.items():
                    sp = want.span(name)
                    g = got.get(idx)
                    if (g is None) != (sp == (-1, -1)) or (g is not None and g != sp):
                        print('GROUP', repr(p), repr(s), got, sp); return 1
            n += 1
    for p in BAD:
        try:
            rexmodel.parse(p)
            print('ACCEPTED BAD', repr(p)); return 1
        except rexmodel.RexError:
            pass
    print('rexmodel self-test ok:', n, 'searches,', len(BAD), 'invalid patterns')
    return 0

if __name__ == '__main__':
    sys.exit(run())
