#!/usr/bin/env python3
"""Regenerates MANIFEST.json from the table below (keeps claimed / not_applicable consistent)."""
import json
import os

HERE = os.path.dirname(os.path.dirname(os.path.abspath(__file__)))
TECH = "SMT-based bounded symbolic execution of the crate's MIR (mirsym + Z3); counterexamples replayed on the real binary"

CLAIMED = {
 'C01': dict(
  text="For every diff shape within the bound (kind sequence and hunk cuts enumerated by forking) and every placement of hunks, block and changed character ranges (symbolic integers up to 2^32), Z3 shows that the MIR of line_changes + content_intersects_with_any marks the block modified when an edit lies between its tags and leaves it unmodified when the diff stays away from it. Unsat within the bound, nothing more.",
  note="Trusted: the MIR text parser/interpreter, the std models listed in the evidence, the transcription of unidiff 0.4.0 hunk numbering (validated per run against the real parser through the real binary), the line_diff contract stub. Not decided: unidiff's text parser, git itself, more than 6 diff lines / 3 hunks."),
 'C02': dict(
  text="For every list of <=4 line changes (whole-line or <=2 char ranges each; plus shapes with 3-5 ranges on one line) and every geometry of a block's start tag, start comment and end comment (symbolic integers), Z3 shows on the MIR of the parse_file filter closure and the four intersection functions: selected <=> tag or content touched; content-modified <=> content touched; attribute-only and end-tag-only edits are not content edits; scan mode keeps every block.",
  note="Trusted: interpreter + std models; in the thorough tier Kani/CBMC re-decides the two intersection functions on the compiled code (<=3 ranges). main() wiring (diff read iff not terminal, should_scan_files, default glob) is decided on the bin MIR with recording stubs. Assumed: changes sorted by line, ranges sorted/separated (post-condition of the diff side, C01). Whole-line changes on tag-comment lines are don't-care. Not decided here: validators' independence of the modified flags (C06-C09 harnesses), globs (C15)."),
 'C09': dict(
  text="For every line-count expression up to the length bound over the alphabet '<>= 0-9x+tab' and every content of <= N short lines over {a, space, tab}, Z3 shows on the MIR of LineCountValidator::validate + parse_constraint: the run errors exactly on expressions outside the grammar ws* OP ws* +?digits ws* (value < 2^64); otherwise one violation iff not(count OP N) with data.actual/op/expected equal to count, OP, N; with several line-count blocks in one file (an empty one among them) every block is judged on its own count.",
  note="Trusted: interpreter, string models (byte-wise ASCII semantics of trim/strip_prefix/parse/lines), serde_json::to_value modelled as identity. Two families (symbolic expression x concrete content; concrete expression menu x symbolic content) instead of the full product. ASCII only."),
 'C16': dict(
  text="For every path of up to N bytes over an alphabet that spells the compound and look-alike suffixes, and every single -E remap pair, Z3 shows on the MIR of parse_file/parser_for_file_path/try_parser_for_extension, against the suffix table obtained by executing language_parsers() itself: the grammar used is the entry of the shortest dotted suffix that is (after remap) a key, else of the whole file name, else the file is neither read nor parsed; names with a literal compound suffix behind a symbolic stem (x.go.mod, x.d.ts ...); several files per run through parse_blocks (each file judged by its own name); every registered suffix carries the grammar of the language it conventionally denotes (independent table). parse_extensions/Args::validate: KEY=VALUE needs '=', mappings onto unsupported grammars are rejected, onto each of the 39 keys accepted.",
  note="Trusted: interpreter, string/path/HashMap models, stubs for the 23 grammar constructors, FileSystem::read_to_string and BlocksParser::parse. Not decided: clap's argument parsing, paths with '.', '..' or empty components, non-ASCII names."),
 'C15': dict(
  text="For <=4 files with arbitrary (symbolic) walked / allow / ignore / named-in-diff flags, symbolic should_scan_files and several walk and map iteration orders, Z3 shows on the MIR of parse_blocks/parse_file that the files read are exactly (scan and walked and allow, or in diff) minus ignore, each once, and are the keys of the result. For every diff target path up to N bytes, line_changes_from_diff files it under the target minus exactly one leading b/, and skips removed files. repository_root_path from start directories of depth 0-4 with a symbolic .git/.hg directory per ancestor: the nearest marked ancestor-or-self, Err iff none. FileSystemImpl::walk on entries whose kind (file/directory/error) Z3 chooses: exactly the non-directory entries, in order, relative to the root; read_to_string opens root/path.",
  note="Trusted: interpreter, HashMap/iterator/string models. Stubs (arbitrary within their contract): globset (allow/ignore are free booleans per path), ignore::Walk, FileSystem (in parse_blocks; FileSystemImpl itself runs on Path::is_dir / Walk::new / DirEntry::path / fs::read_to_string stubs), BlocksParser::parse, unidiff::PatchSet::from_str. Not decided: glob semantics, hidden/git-ignored files, fs::canonicalize and the current directory, .git as a file, quoted paths."),
 'C10': dict(
  text="For every enumerated layout (lines before, indentation, 1-4 comment lines, tag on any of them, text after the comment on its last line, per-line lead/key/trail shapes) and every value of the key and blank bytes, Z3 shows on the MIR of the block parser glue and of the five sync validators: a sort/unique/pattern violation's line and byte columns delimit exactly the first offending key in the assembled file; line-count and affects violations span exactly '<'..'>' of the start tag; the block's tag position and content byte range are those of the layout. Start tags over one to three lines. MdParser::parse_html_comments with symbolic html-block start (row, column) and symbolic block-relative comment positions: file line = row + relative line, file column = relative column plus the block's column iff on the block's first line, byte range shifted by the block's start byte.",
  note="Trusted: interpreter, string models. Stubs: tree-sitter (the two Comment values of a /* */ layout; validated on sampled witnesses against the real binary), tree-sitter's html-block query results and the inner HTML comment parser (block-relative comments) in the Markdown harness; regex for ^a+$ only; the tag scanner and grammar are the crate's MIR on the winnow combinator models (C05), serde_json::to_value. Not decided: Lua/AI ranges (async), regex-group keys, multi-byte text, other comment syntaxes."),
 'C06': dict(
  text="For every enumerated configuration (direction spelled empty/asc/ASC/desc/Desc, lexicographic or numeric format) and per-line shape of up to N content lines, and every value of the key and blank bytes, Z3 shows on the MIR of KeepSortedValidator::validate and its helpers: a violation is reported iff some key is strictly out of order w.r.t. its predecessor (bytewise, or as integers under numeric; equal neighbours are in order), exactly one, designating the first such key; the verdict does not depend on the is_content_modified / tag-modified flags. Blanks range over space, tab, vertical tab and a literal three-byte U+3000; one or two blocks per file, also with different rules on the two blocks.",
  note="Trusted: interpreter, string models incl. the integer fragment of f64 parsing/comparison. Stubs as in C10. Not decided: keep-sorted-pattern (regex) forms, decimal/exponent/inf/nan numerics, non-ASCII keys, more than 5 lines."),
 'C07': dict(
  text="For every enumerated per-line shape of up to N content lines in five key forms (trimmed line; `value` group of k=(?P<value>[ab]+); group followed by varying text (?P<value>[ab]+)=[cd]; optional group z(?P<value>[ab]+)? falling back to the whole match; whole match of [ab]+) and every value of all bytes, Z3 shows on the MIR of KeepUniqueValidator::validate: a violation iff two keys are equal, exactly one, on the first line whose key occurred before, with the range on that key; blank and non-matching lines ignored; verdict independent of the modified flags.",
  note="Trusted: interpreter, string/HashSet models, the reference regex matcher mirsym/rexmodel.py (not the regex crate; differentially tested against Python re and validated on sampled witnesses against the real binary). Not decided: other patterns, non-ASCII, more than 5 lines."),
 'C08': dict(
  text="For six patterns (^a+$, a, ^[ab]$, ^.*b$, ^$, ^a*b+$), every enumerated per-line shape of up to N lines and every value of the key/blank bytes over {a,b,c,space,tab}, Z3 shows on the MIR of LinePatternValidator::validate: a violation iff some trimmed non-blank line is outside the pattern's language (written independently as a formula over the key bytes), exactly one, on the first such line, with the range on the trimmed text.",
  note="Trusted: interpreter, string models, the reference regex matcher mirsym/rexmodel.py (the regex crate is not encoded). Every other pattern is outside the claim."),
 'C05': dict(
  text="Print/parse round trip from the attribute AST on the MIR of WinnowBlockTagParser::next (candidate '<' scan, fall-through, cursor arithmetic) and of parse_start_tag / parse_end_tag / parse_attributes / parse_attribute_name / parse_attribute_value with their closures: for every enumerated layout (0-3 attributes quick, up to 6 thorough; bare / unquoted / single- / double-quoted; 0-2 whitespace bytes around '=' and between attributes; 1-4 tags and look-alikes per text; noise gaps) and every value of all name, value, whitespace and noise bytes within their classes, Z3 shows that the events returned are exactly the written tags with their byte ranges, that the attribute map holds every written name with the value of its last occurrence (name equality symbolic) and nothing else, that `<`ws`/`ws`block`ws`>` is an end tag, and that members of five look-alike families yield no event.",
  note="Trusted: interpreter, string/HashMap models and the models of the generic winnow 0.7 combinators (mirsym/winnowmodel.py: literal, take_while, take_till, multispace0/1, tuples, delimited, preceded, opt, alt, repeat+fold, map, void, parse_next/parse_peek) - winnow's own code is not encoded, like std; which combinators, literals, ranges and character predicates the grammar uses is read from the crate's MIR each run, and sampled paths are compared with the real binary's `list` output. char::is_alphanumeric beyond ASCII only on literal letters. Noise gaps <= 3 bytes; position -> line/column is C03/C04; what tree-sitter delivers as comment text is outside."),
 'C04': dict(
  text="Z3 is asked, on every path of the MIR, whether a panic outcome (assert failure, expect/unwrap/unreachable, slice or char-boundary failure) is reachable: in the eleven comment normaliser closures for every comment text up to N bytes that starts with the opener its grammar guarantees (closing delimiters not assumed, plus one multi-byte prefix probe for Markdown), in line_changes + the intersection functions for every diff shape of C01, and in the tag pairing / position arithmetic for the comment sequences of C12, and in the crate's walk over model syntax trees, whose deepest call nesting must not grow with the nesting depth of the tree (chains of depth 8 and 40). Reachable panics are reported when a file of a language routed to that normaliser crashes the real binary; others are listed as unconfirmed.",
  note="Rust side only. Outside: tree-sitter and its generated C parsers (crashes, hangs, stack depth), unidiff's text parser, winnow's own code (combinator models), clap, the OS; non-ASCII text except the one probe; termination is covered only as 'every encoded loop exhausts within the step bound on every path'."),
 'C12': dict(
  text="For every sequence of up to 3-4 comments drawn from templates with 0-2 tag events each (tags on first or later comment lines, end tags also in the `</ block >` spelling), with symbolic comment geometry, the MIR of parse_blocks_from_comments / PartialBlocksIterator::next returns Err exactly when the running depth dips below 0 or ends above 0; and through parse_file / parse_blocks, with a damaged file among two healthy ones in scan and in diff mode and several map orders, the run returns Err whose context names the damaged file.",
  note="Stubs: tree-sitter (Comment values), FileSystem / PathChecker / grammar lookup. The tag scanner and grammar run from the crate's MIR on the comment text of each template (winnow combinators are models, see C05)."),
 'C11': dict(
  text="On the MIR of main::process_violations: for every assignment of severities (symbolic) to up to N violations over up to 3 files and every map order, process::exit(1) is reached iff some severity is Error, and the map handed to the JSON writer holds every violation exactly once under its file. On validators::run / run_sync_validators / run_async_validators (coroutine MIR) with 2-3 model validators, sync and async in every split, reporting on symbolic subsets of files or failing, and every completion order of the tokio tasks: the merged map is the disjoint union, any failure is a failure of the run. Block::severity accepts exactly error|warning|info|hint in any letter case (every attribute string up to N bytes), default Error.",
  note="Threads are modelled as a sequential schedule, tokio tasks as atomic steps in every completion order. Outside: the JSON text layout, stdout/stderr plumbing (recording stubs)."),
 'C14': dict(
  text="On the MIR of detect_validators, the seven detect impls and the DETECTOR_FACTORIES table: for blocks carrying every subset of a task's three validators' attributes (symbolic), every subset of those names in -d or in -e (symbolic membership), 1-3 blocks over 1-2 files and several map orders, the instantiated validators are exactly those allowed and needed, each once, filed as sync/async correctly. parse_validator accepts exactly the seven names (every string up to 12-13 bytes over their letters); Args::validate rejects -d together with -e.",
  note="Triples of validators instead of all seven at once (all 35 triples in the thorough tier). clap is not encoded; OpenAiClient::new_from_env is a stub; that each validator emits only its own code is asserted in C06-C10."),
 'C13': dict(
  text="For every value (symbolic bytes, up to N) of keep-sorted, keep-sorted-format, affects and severity, every key text under numeric sort, a menu of uncompilable regexes for the three regex attributes, and short/overflowing line-count expressions, with the bad block placed before/after healthy blocks: Z3 shows on the validators' MIR that a value outside the attribute's accepted language (written as a formula over the bytes) makes validate return Err, a value inside does not, and through validators::run the Err of one validator among healthy ones is the result of the run. Async rules (coroutine MIR, stubs of C18/C19): every check-lua path / check-ai condition of up to 2-3 bytes over {space, tab, A} (blank => Err), missing script, script without validate, unset or empty API key, uncompilable check-lua-pattern / check-ai-pattern, each among healthy blocks and validators in both orders.",
  note="Don't-care: values that trim to a valid word but carry surrounding blanks. Regex compilation comes from the reference model, not the regex crate. Outside: the exit code of the process itself (C11), what a real Lua VM / endpoint does (contract stubs)."),
 'C17': dict(
  text="On the MIR of lua_from_env, for BLOCKWATCH_LUA_MODE unset and for every value of up to N bytes: exactly `safe` selects the safe constructor (io, os, package present; no debug, no native loading), exactly `unsafe` the unsafe one, every other string yields an interpreter whose globals contain none of io, os, package, debug, require, dofile, loadfile and which cannot load native modules.",
  note="The Lua VM and mlua are a contract stub (library flags as sets, base library per the Lua 5.4 manual, native loading per mlua's constructors); the contract is compared with the real VM through a probe script on sampled modes in every run. What the Lua C library does beyond that is outside."),
 'C03': dict(
  text="Rust side only. (a) For every balanced sequence of up to 3-4 comments drawn from templates with 0-2 tag events each, with symbolic comment geometry (line, column, byte offset; ordered, non-overlapping), the MIR of parse_blocks_from_comments / BlockStart::new / source_position_at / into_block returns exactly the innermost-first matching, in source order, each block with the name, '<'/'>' positions, content byte range and content position range of the reference (Z3 terms over the geometry). (b) For every comment text up to N bytes the eleven normaliser closures return text of the same length in which every byte is kept or blanked and line breaks stay in place. (c) On model syntax trees (every ordered tree up to 5-6 nodes, comment-ness of every node symbolic) the crate's walk (TreeSitterCommentsParser::parse, CommentsIterator) produces exactly the comment nodes, each once, in document order, with the node's position and byte range.",
  note="The largest exclusion of the suite: tree-sitter (which nodes exist, their kinds and ranges; string literals; 23 grammars; CRLF) are stubs; the tag scanner and grammar run from the crate's MIR on each template's text (winnow combinators are models, C05). What is claimed is the Rust side."),
 'C20': dict(
  text="For concrete multi-file scenarios executed on the real MIR of detect_validators, validators::run (sync path), the sync validators and process_violations, with the iteration order of every hash map and the validator spawn order chosen by the solver (all permutations of <=3 entries) and one severity attribute symbolic: the instantiated validators, the merged violations (as multisets), and the exit status are identical across all orders; parse_blocks examines the same files and produces the same keys under every walk/map order; diff sections in every order give the same line changes. An async scenario (four check-lua blocks, one check-ai block, one sync validator; healthy and with one failing script) on the coroutine MIR gives one verdict under every completion order of the tokio tasks, every map order and every core count in [1,16] (symbolic).",
  note="A hashing seed can only change iteration order, which is a parameter of the HashMap model. Threads are run in spawn order, tokio tasks as atomic steps in every completion order; the core count is std::thread::available_parallelism as a symbolic input (replayed with taskset). Outside: OS scheduling inside tasks, cwd, the order ignore::Walk really produces."),
 'C18': dict(
  text="On the MIR of validators::run, run_async_validators, CheckLuaValidator::validate, the per-block task, run_lua_script (all as the coroutine state machines rustc prints), block_content and create_violation: for 1-3 (thorough 4) check-lua blocks over 1-2 files (and 12-34 blocks under two fixed completion orders), every outcome per script from {nil, string, file missing, load error, no validate, runtime error, non-string result, a script that keeps state between calls and is shared by several blocks}, symbolic content / blanks / returned strings / attribute values and every completion order of the tasks, Z3 shows: any failing script makes the run Err; otherwise validate() is called exactly once per block with ctx.file = the file path, ctx.line = the start tag's line, ctx.attrs = all attributes and content = trimmed content or the `value` group / whole first match / empty; nil gives no diagnostic, a string exactly one check-lua diagnostic whose lua_error is that string.",
  note="mlua and the Lua VM are a contract stub (handles, recorded table.set, outcome per script), tokio is a model: a spawned task runs atomically when the JoinSet is polled and the completion order is a forked choice - real interleavings inside tasks, 1..16 worker threads, CPU affinity and timing are NOT explored (the schedules/fault_sequences quantifier of the property is covered only as 'every completion order' and 'every subset failing in each mode'). Every run validates sampled paths against the real binary with real Lua scripts that log their arguments. Up to 4 blocks, not 40."),
 'C19': dict(
  text="On the MIR of validators::run, run_async_validators, CheckAiValidator::validate, the per-block task, OpenAiClient::new_from_env and check_block (coroutine state machines), block_content, process_ai_response, create_violation: for 1-3 (thorough 4) check-ai blocks over 1-2 files (and 10-12 blocks under two fixed completion orders), reply kind per block from {text, Err, no choices, null content}, key present / unset / empty / only a foreign OPENAI_API_KEY present, symbolic condition / content / blanks / reply text / model and URL values and every completion order, Z3 shows: a missing key or any faulty reply makes the run Err (no request without a key); otherwise exactly one request per block whose user message is `CONDITION:\\n<condition>\\n\\nBLOCK (formatting preserved):\\n<trimmed content>` byte for byte, with the model, endpoint and key of the BLOCKWATCH_AI_* variables (or defaults); a reply equal to OK / OK. in any letter case gives no diagnostic, any other reply exactly one check-ai diagnostic whose ai_message is the reply.",
  note="async-openai is a contract stub at the level of chat().create(): connection refused, 4xx, invalid JSON and a body cut short are all Err(OpenAIError) there; HTTP, JSON escaping and reqwest are exercised only by the per-run validation, which runs the real binary against a loopback fake endpoint on sampled paths (requests recorded, model / Authorization / path / user message compared). tokio as in C18 (completion orders, not interleavings). check-ai-pattern selection shares its code shape with check-lua-pattern (C18) and is not in the task list."),
}

NOT_APPLICABLE = {
}
PENDING = "harness not built yet (planned, DESIGN.md section 4)"

FIX_COMMITS = ["7840229", "fe70c83", "d9a5bb3", "c089a2f", "882bf2f", "408e5a1", "b3177b8", "072e4ba", "0c70c7a", "7183ca5"]


def main():
    ids = ['C%02d' % i for i in range(1, 21)]
    checks = []
    for pid in ids:
        if pid in CLAIMED:
            c = CLAIMED[pid]
            checks.append({
                'property_id': pid,
                'quick_cmd': './check %s --tier quick' % pid,
                'thorough_cmd': './check %s --tier thorough' % pid,
                'evidence_file': 'evidence/%s.json' % pid,
                'replay_cmd_template': 'sh {path}/replay.sh',
                'engine': 'mirsym',
                'technique': c.get('technique', TECH),
                'level_claimed': {'category': 'model_checking', 'text': c['text'], 'design_ref': 'DESIGN.md section 4, ' + pid},
                'level_note': c['note'],
            })
    na = []
    for pid in ids:
        if pid not in CLAIMED:
            na.append({'property_id': pid, 'reason': NOT_APPLICABLE.get(pid, PENDING)})
    man = {
        'version': 1,
        'setup_cmd': './setup.sh',
        'hooks': {
            'guard': 'kani',
            'enable': 'no hooks in /repo: checks read the MIR rustc prints for the unmodified crate (cargo +nightly rustc -- -Zunpretty=mir) and drive the unmodified binary; source_commits are fix: commits only',
            'baseline_off_cmd': 'cd /repo && cargo test --workspace --no-fail-fast --offline',
            'source_commits': FIX_COMMITS,
            'add_only': True,
        },
        'engines': [{
            'name': 'mirsym', 'path': 'mirsym/', 'serves_properties': sorted(CLAIMED.keys()),
            'kind_free_text': 'bounded path-based symbolic executor for rustc MIR text (regenerated from /repo on every run), Z3 deciding feasibility and post-conditions; counterexamples replayed against the real binary'}],
        'checks': checks,
        'not_applicable': na,
        'notes': 'exit 0 held within bounds (KNOWN-FINDING lines possible), 1 VIOLATION (replay-confirmed), 2 INCONCLUSIVE (engine could not decide; never a verdict). See DESIGN.md.',
    }
    with open(os.path.join(HERE, 'MANIFEST.json'), 'w') as f:
        json.dump(man, f, indent=1)
        f.write('\n')


if __name__ == '__main__':
    main()
