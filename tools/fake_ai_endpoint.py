#!/usr/bin/env python3
"""Replay helper for C19: starts a loopback chat-completions endpoint that answers every request
according to violation.json (reply per block, matched on the condition in the user message), runs
blockwatch against it in this directory and prints exit status, diagnostics and the requests seen.
usage: python3 fake_ai_endpoint.py [path-to-blockwatch]   (or BLOCKWATCH=...)"""
import http.server
import json
import os
import socketserver
import subprocess
import sys
import threading

here = os.path.dirname(os.path.abspath(__file__))
v = json.load(open(os.path.join(here, 'violation.json')))
w = v['witness']
blocks = w['blocks']
reqs = []


class H(http.server.BaseHTTPRequestHandler):
    def log_message(self, *a):
        pass

    def do_POST(self):
        body = self.rfile.read(int(self.headers.get('content-length', '0')))
        try:
            js = json.loads(body)
        except ValueError:
            js = None
        reqs.append(dict(path=self.path, auth=self.headers.get('authorization'), body=js))
        user = ''
        for m in (js or {}).get('messages', []):
            if m.get('role') == 'user':
                user = m.get('content')
        spec = ['err']
        for b in blocks:
            if isinstance(user, str) and user.startswith('CONDITION:\n' + b['cond'] + '\n\n'):
                spec = b['reply']
        if spec[0] != 'err' and w.get('slow_ok'):
            import time
            time.sleep(w['slow_ok'])
        if spec[0] == 'err':
            self.send_response(400)
            out = b'{"error": {"message": "bad", "type": "invalid_request_error", "param": null, "code": null}}'
        elif spec[0] == 'nochoices':
            self.send_response(200)
            out = json.dumps(dict(id='x', object='chat.completion', created=1, model='m', choices=[])).encode()
        else:
            self.send_response(200)
            out = json.dumps(dict(id='x', object='chat.completion', created=1, model='m', choices=[
                dict(index=0, finish_reason='stop', message=dict(role='assistant', content=None if spec[0] == 'null' else spec[1]))])).encode()
        self.send_header('content-type', 'application/json')
        self.send_header('content-length', str(len(out)))
        self.end_headers()
        self.wfile.write(out)


class TS(socketserver.ThreadingMixIn, socketserver.TCPServer):
    allow_reuse_address = True
    daemon_threads = True
    request_queue_size = 128


srv = TS(('127.0.0.1', 0), H)
threading.Thread(target=srv.serve_forever, daemon=True).start()
env = dict(os.environ)
for k in ('BLOCKWATCH_AI_API_KEY', 'BLOCKWATCH_AI_MODEL', 'OPENAI_API_KEY'):
    env.pop(k, None)
    if w['env'].get(k) is not None:
        env[k] = w['env'][k]
env['BLOCKWATCH_AI_API_URL'] = 'http://127.0.0.1:%d/v1' % srv.server_address[1]
binary = sys.argv[1] if len(sys.argv) > 1 else os.environ.get('BLOCKWATCH', 'blockwatch')
p = subprocess.run([binary, '**'], cwd=here, env=env, stdin=subprocess.DEVNULL, stdout=subprocess.PIPE, stderr=subprocess.PIPE)
srv.shutdown()
print('exit status:', p.returncode)
print('stderr:', p.stderr.decode(errors='replace')[:2000])
print('requests seen by the endpoint: %d' % len(reqs))
for r in reqs:
    print('  ', json.dumps(r)[:600])
print('expected by the property:', json.dumps(v.get('expected')))
