#!/usr/bin/env python3
"""Applies behaviour-preserving refactoring patches in a scratch worktree (never /repo) and runs every
quick check against them: all must exit 0. usage: tools/try_refactor.py <dir with patchN.diff> [props...]"""
import json, os, re, subprocess, sys
VERIF = os.path.dirname(os.path.dirname(os.path.abspath(__file__)))
WT = os.environ.get('REFACTOR_WT', '/tmp/refactor_wt')


def sh(cmd):
    return subprocess.run(cmd, shell=True, stdout=subprocess.PIPE, stderr=subprocess.STDOUT, text=True)


def main():
    d = os.path.abspath(sys.argv[1])
    props = sys.argv[2:] or [c['property_id'] for c in json.load(open(os.path.join(VERIF, 'MANIFEST.json')))['checks']]
    if not os.path.isdir(WT):
        sh('git -C /repo worktree add -q --detach %s HEAD' % WT)
    head = sh('git -C /repo rev-parse HEAD').stdout.strip()
    bad = 0
    for pf in sorted(f for f in os.listdir(d) if re.match(r'patch\d+\.diff$', f)):
        sh('git -C %s reset -q --hard && git -C %s checkout -q --detach %s' % (WT, WT, head))
        r = sh('cd %s && (git apply %s/%s 2>/dev/null || git apply -3 %s/%s)' % (WT, d, pf, d, pf))
        if r.returncode:
            print(pf, 'does not apply'); continue
        line = []
        for p in props:
            env = dict(os.environ, VERIF_REPO=WT)
            o = subprocess.run(['./check', p, '--tier', 'quick'], cwd=VERIF, env=env, stdout=subprocess.PIPE, stderr=subprocess.STDOUT, text=True)
            line.append('%s:%d' % (p, o.returncode))
            if o.returncode != 0:
                bad += 1
                msg = [l for l in o.stdout.split('\n') if re.search(r'INCONCLUSIVE|VIOLATION|role=|Unmodelled|Error', l)][:4]
                print('   ', p, ' | '.join(m[:260] for m in msg))
        print(os.path.basename(d), pf, ' '.join(line), flush=True)
    sh('git -C %s reset -q --hard' % WT)
    return 1 if bad else 0


if __name__ == '__main__':
    sys.exit(main())
