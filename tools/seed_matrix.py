#!/usr/bin/env python3
"""Runs the quick checks against every seeded change in a scratch worktree (never /repo) and
records which checks catch which change in seeded/<id>/meta.json and seeded/RESULTS.md."""
import json, os, re, subprocess, sys
VERIF = os.path.dirname(os.path.dirname(os.path.abspath(__file__)))
WT = os.environ.get('MATRIX_WT', '/tmp/matrix_wt')
EXTRA = {'C20_1': ['C11'], 'C20_2': ['C15', 'C01'], 'C04_3': ['C12'], 'C03_1': ['C12'], 'C03_3': ['C10'], 'C01_3': ['C15'], 'C02_1': ['C15'], 'C02_3': ['C11', 'C20'], 'C10_3': ['C07'], 'C11_2': ['C14'], 'C13_2': ['C09'],
         'C14_3': ['C11'], 'C12_1': ['C15', 'C16'], 'C06_3': ['C11'], 'C05_1': ['C12', 'C03'], 'C08_2': ['C10'], 'C07_2': ['C20'], 'C08_3': ['C20'], 'C20_3': ['C18'], 'C03_5': ['C16'], 'C02_4': ['C15'], 'C02_5': ['C01'], 'C10_5': ['C03'], 'C10_4': ['C06'], 'C20_4': ['C14'], 'C20_5': ['C01'], 'C20_6': ['C18'], 'C11_5': ['C14'], 'C12_6': ['C15'], 'C13_4': ['C14'], 'C01_8': ['C15'], 'C01_9': ['C11'], 'C02_7': ['C15'], 'C02_9': ['C01'], 'C03_7': ['C16'], 'C03_9': ['C05'], 'C05_8': ['C12'], 'C06_7': ['C11'], 'C07_8': ['C10'], 'C07_9': ['C11'], 'C08_8': ['C14'], 'C08_9': ['C11'], 'C10_7': ['C05'], 'C10_9': ['C03'], 'C13_9': ['C19'], 'C14_8': ['C11'], 'C11_7': ['C14'], 'C12_9': ['C15'], 'C03_10': ['C15'], 'C03_11': ['C15'], 'C03_12': ['C10'], 'C10_10': ['C03'], 'C11_10': ['C15'], 'C11_11': ['C15'], 'C11_12': ['C15'], 'C20_11': ['C11'], 'C20_12': ['C15'], 'C01_10': ['C15'], 'C02_10': ['C10'], 'C02_11': ['C15'], 'C02_12': ['C15'], 'C12_10': ['C15'], 'C12_12': ['C15'], 'C16_12': ['C15'], 'C04_11': ['C16'], 'C05_10': ['C03'], 'C05_11': ['C03'], 'C13_10': ['C15'], 'C13_11': ['C10'], 'C18_10': ['C03'], 'C18_11': ['C15'], 'C08_10': ['C11', 'C20'], 'C01_14': ['C11', 'C20'], 'C02_13': ['C15'], 'C10_14': ['C03'], 'C14_14': ['C13'], 'C11_13': ['C14'], 'C04_13': ['C06'], 'C04_14': ['C02', 'C01'], 'C03_13': ['C11'], 'C03_14': ['C05'], 'C12_13': ['C05'], 'C20_13': ['C11'], 'C20_14': ['C15', 'C01'], 'C18_14': ['C19'], 'C10_16': ['C03', 'C04'], 'C10_15': ['C08'], 'C12_15': ['C05']}


def sh(cmd, **kw):
    return subprocess.run(cmd, shell=True, stdout=subprocess.PIPE, stderr=subprocess.STDOUT, text=True, **kw)


def main():
    only = [a for a in sys.argv[1:] if not a.startswith('--')]
    all_on_miss = '--all-on-miss' in sys.argv
    allprops = [c['property_id'] for c in json.load(open(os.path.join(VERIF, 'MANIFEST.json')))['checks']]
    if not os.path.isdir(WT):
        r = sh('git -C /repo worktree add -q --detach %s HEAD' % WT)
        if r.returncode:
            print(r.stdout); return 1
    rows = []
    for sid in sorted(os.listdir(os.path.join(VERIF, 'seeded'))):
        d = os.path.join(VERIF, 'seeded', sid)
        if not os.path.isdir(d) or sid.startswith('_') or (only and sid not in only):
            continue
        head = sh('git -C /repo rev-parse HEAD').stdout.strip()
        sh('git -C %s reset -q --hard && git -C %s checkout -q --detach %s' % (WT, WT, head))
        r = sh('cd %s && (git apply %s/patch.diff 2>/dev/null || git apply -3 %s/patch.diff)' % (WT, d, d))
        if r.returncode:
            rows.append((sid, 'patch does not apply', {}))
            continue
        prop = sid.split('_')[0]
        res = {}
        for p in [prop] + EXTRA.get(sid, []):
            env = dict(os.environ, VERIF_REPO=WT)
            o = subprocess.run(['./check', p, '--tier', 'quick'], cwd=VERIF, env=env, stdout=subprocess.PIPE, stderr=subprocess.STDOUT, text=True)
            roles = re.findall(r'role=(\S+)', o.stdout)
            res[p] = dict(exit=o.returncode, roles=sorted(set(roles))[:6])
        if all_on_miss and not any(x['exit'] == 1 for x in res.values()):
            for p in allprops:
                if p in res:
                    continue
                env = dict(os.environ, VERIF_REPO=WT)
                o = subprocess.run(['./check', p, '--tier', 'quick'], cwd=VERIF, env=env, stdout=subprocess.PIPE, stderr=subprocess.STDOUT, text=True)
                if o.returncode != 0:
                    res[p] = dict(exit=o.returncode, roles=sorted(set(re.findall(r'role=(\S+)', o.stdout)))[:6])
        meta = json.load(open(os.path.join(d, 'meta.json')))
        meta['checks_run'] = res
        meta['detected_by'] = sorted(p for p, x in res.items() if x['exit'] == 1)
        json.dump(meta, open(os.path.join(d, 'meta.json'), 'w'), indent=1)
        rows.append((sid, meta.get('summary', '')[:90], res))
        print(sid, {p: x['exit'] for p, x in res.items()}, flush=True)
    sh('git -C %s reset -q --hard' % WT)
    with open(os.path.join(VERIF, 'seeded', 'RESULTS.md'), 'w') as f:
        f.write('# Seeded changes vs. quick checks (exit 1 = caught, 0 = missed, 2 = inconclusive)\n\n| seed | change | results |\n|---|---|---|\n')
        for sid in sorted(os.listdir(os.path.join(VERIF, 'seeded'))):
            mp_ = os.path.join(VERIF, 'seeded', sid, 'meta.json')
            if not os.path.exists(mp_):
                continue
            meta = json.load(open(mp_))
            res = meta.get('checks_run', {})
            f.write('| %s | %s | %s |\n' % (sid, str(meta.get('summary', ''))[:90].replace('|', '/'),
                                             ', '.join('%s:%s%s' % (p, x['exit'], (' (' + ';'.join(x['roles'][:2]) + ')') if x['roles'] else '') for p, x in res.items()) or 'not run'))
    return 0


if __name__ == '__main__':
    sys.exit(main())
