#!/bin/sh
# usage: tools/confirm_seed.sh <agent-out-dir> <i> <seed-id>
# Confirms a seeded change in a scratch worktree (compiles, 237 tests pass, demo passes on the
# unmodified binary and fails on the patched one) and stores it under /verif/seeded/<seed-id>/.
out="$1"; i="$2"; id="$3"
WT=${CONFIRM_WT:-/tmp/confirm_wt}
export CARGO_NET_OFFLINE=true
if [ ! -d $WT ]; then git -C /repo worktree add -q --detach $WT HEAD || exit 3; mkdir -p $WT/.hg; fi
cd $WT || exit 3
git reset -q --hard; git checkout -q --detach "$(git -C /repo rev-parse HEAD)" || exit 3
mkdir -p $WT/.hg
if [ ! -x /tmp/confirm_orig/blockwatch ] || [ "$(cat /tmp/confirm_orig/rev 2>/dev/null)" != "$(git rev-parse HEAD)" ]; then
  cargo build --offline -q 2>/dev/null || exit 3
  mkdir -p /tmp/confirm_orig; cp target/debug/blockwatch /tmp/confirm_orig/blockwatch; git rev-parse HEAD > /tmp/confirm_orig/rev
fi
git apply "$out/patch$i.diff" 2>/dev/null || git apply -3 "$out/patch$i.diff" || { echo "SEED $id: patch does not apply"; exit 1; }
git diff HEAD > /tmp/confirm_patch.$$.diff
cargo build --offline -q 2>/tmp/confirm_build.$$.log || { echo "SEED $id: does not compile"; git reset -q --hard; exit 1; }
SH=sh; head -1 "$out/demo$i.sh" | grep -q bash && SH=bash
tests=$(cargo test --offline 2>&1 | grep -E "^test result" | awk '{p+=$4; f+=$6} END{print p" "f}')
$SH "$out/demo$i.sh" /tmp/confirm_orig/blockwatch >/dev/null 2>&1; r0=$?
$SH "$out/demo$i.sh" $WT/target/debug/blockwatch >/dev/null 2>&1; r1=$?
echo "SEED $id: tests(pass fail)=$tests demo_orig=$r0 demo_patched=$r1"
if [ "$tests" = "237 0" ] && [ $r0 -eq 0 ] && [ $r1 -ne 0 ]; then
  d=/verif/seeded/$id; mkdir -p $d
  cp /tmp/confirm_patch.$$.diff $d/patch.diff; cp "$out/demo$i.sh" $d/demo.sh
  python3 - "$out/meta$i.json" "$d/meta.json" "$id" <<'PY'
import json,sys
m=json.load(open(sys.argv[1]))
m['seed_id']=sys.argv[3]
m['confirmed']={'ran':'tools/confirm_seed.sh in scratch worktree /tmp/confirm_wt: cargo build --offline; cargo test --offline (237 passed, 0 failed); demo.sh exits 0 on the unmodified binary and non-zero on the patched one'}
json.dump(m,open(sys.argv[2],'w'),indent=1)
PY
  echo "SEED $id: CONFIRMED -> $d"
else
  echo "SEED $id: NOT confirmed"
fi
rm -f /tmp/confirm_patch.$$.diff /tmp/confirm_build.$$.log
git reset -q --hard
